"""C16 - configurations are either rejected up front or handled totally and finitely.

(a) Validators / constructors are pure Python on concrete hyperparameters: for the cross product
    of constructor arguments over small domains, `Bad(cfg)` (written from the property's list)
    implies a ValueError at construction or build, and nothing but ValueError is ever raised.
    This part is a bounded-exhaustive evaluation (the input is concrete), labelled as such.
(b) For every ACCEPTED configuration the real weight constraint and the real evaluation are
    executed on symbolic weights / inputs: they must not raise, and every output element must be
    defined (finite) for all real weights and inputs - deductive, with the definedness formula of
    the result (reciprocals non-zero unless masked, log/root arguments in their domain).
(c) Synonymous spellings give the same canonical configuration and the same symbolic behaviour.
"""
import itertools
import json

import numpy as np

from vt import ctx as C
from vt import expr as E
from vt import harness as H
from vt import kerasc
from vt import load
from vt import tfc
from vt.expr import P, B
from vt.prop import Case

PROPERTY = 'C16'


def _finite(label, t):
  cl = []
  ts = t if isinstance(t, (list, tuple)) else [t]
  for k, x in enumerate(ts):
    x = tfc._t(x)
    for idx in np.ndindex(*x.a.shape):
      d = E.defined(x.a[idx])
      cl.append(('%s:finite%s%s' % (label, '' if len(ts) == 1 else '<%d>' % k, list(idx)), d))
  return cl


def _tuples(x):
  return [tuple(v) for v in x] if x else None


# ------------------------------------------------------------------------ Bad predicates

def lattice_bad(cfg):
  sizes = cfg['lattice_sizes']
  rank = len(sizes)
  why = []
  if any(s < 2 for s in sizes):
    why.append('size<2')
  monos = cfg.get('monotonicities')
  unis = cfg.get('unimodalities')

  def m(i):
    v = monos[i] if monos else 0
    return {'increasing': 1, 'none': 0, None: 0}.get(v, v)

  def u(i):
    v = unis[i] if unis else 0
    return {'valley': 1, 'peak': -1, 'none': 0, None: 0}.get(v, v)
  if monos is not None and len(monos) != rank:
    why.append('len(monotonicities)')
  if unis is not None and len(unis) != rank:
    why.append('len(unimodalities)')
  if not why:
    for i in range(rank):
      if m(i) not in (0, 1):
        why.append('decreasing-lattice-monotonicity')
      if m(i) and u(i):
        why.append('monotone-and-unimodal')
      if u(i) and sizes[i] < 3:
        why.append('unimodal-size<3')
    mains, conds = set(), set()
    for key in ('edgeworth_trusts', 'trapezoid_trusts'):
      for t in cfg.get(key) or []:
        a, b = t[0], t[1]
        if not (0 <= a < rank and 0 <= b < rank):
          why.append('trust-dim-out-of-range')
          continue
        if m(a) != 1:
          why.append('trust-on-non-monotone-main')
        mains.add(a)
        conds.add(b)
    if mains & conds:
      why.append('main-and-conditional')
    for key in ('monotonic_dominances', 'range_dominances'):
      for (a, b) in cfg.get(key) or []:
        if not (0 <= a < rank and 0 <= b < rank):
          why.append('dominance-dim-out-of-range')
        elif m(a) != 1 or m(b) != 1:
          why.append('dominance-between-non-monotone')
  lo, hi = cfg.get('output_min'), cfg.get('output_max')
  if lo is not None and hi is not None and lo > hi:
    why.append('output_min>output_max')
  return why


def pwl_bad(cfg):
  why = []
  kp = cfg['input_keypoints']
  if len(kp) < 2:
    why.append('fewer-than-2-keypoints')
  if any(a >= b for a, b in zip(kp, kp[1:])):
    why.append('unsorted-keypoints')
  mono = {'increasing': 1, 'decreasing': -1, 'none': 0}.get(cfg.get('monotonicity', 0), cfg.get('monotonicity', 0))
  conv = {'convex': 1, 'concave': -1, 'none': 0}.get(cfg.get('convexity', 0), cfg.get('convexity', 0))
  if cfg.get('is_cyclic') and (mono or conv):
    why.append('cyclic-with-monotonicity')
  lo, hi = cfg.get('output_min'), cfg.get('output_max')
  if lo is not None and hi is not None and lo > hi:
    why.append('output_min>output_max')
  return why


def linear_bad(cfg):
  why = []
  n = cfg['num_input_dims']
  monos = cfg.get('monotonicities')
  if isinstance(monos, list) and len(monos) != n:
    why.append('len(monotonicities)')
    return why

  def m(i):
    v = monos[i] if isinstance(monos, list) else (monos if monos is not None else 0)
    return {'increasing': 1, 'decreasing': -1, 'none': 0}.get(v, v)
  for (a, b) in cfg.get('monotonic_dominances') or []:
    if not (0 <= a < n and 0 <= b < n):
      why.append('dominance-dim-out-of-range')
    elif m(a) != 1 or m(b) != 1:
      why.append('dominance-between-non-monotone')
  for (a, b) in cfg.get('range_dominances') or []:
    if not (0 <= a < n and 0 <= b < n):
      why.append('dominance-dim-out-of-range')
    elif m(a) == 0 or m(a) != m(b):
      why.append('dominance-between-non-monotone')
  # input_min > input_max is not among the property's listed kinds (the layer accepts it when no
  # constraint needs the ranges and clips to input_max): not demanded here.
  return why


def categorical_bad(cfg):
  why = []
  lo, hi = cfg.get('output_min'), cfg.get('output_max')
  if lo is not None and hi is not None and lo > hi:
    why.append('output_min>output_max')
  for (i, j) in cfg.get('monotonicities') or []:
    if i < 0 or j < 0 or i >= cfg['num_buckets'] or j >= cfg['num_buckets']:
      why.append('pair-out-of-range')
  return why


def kfl_bad(cfg):
  why = []
  if cfg['lattice_sizes'] < 2:
    why.append('size<2')
  if any(m in (-1, 'decreasing') for m in (cfg.get('monotonicities') or [])):
    why.append('decreasing-kfl-monotonicity')     # only 'increasing' / 'none' are supported (as for Lattice)
  lo, hi = cfg.get('output_min'), cfg.get('output_max')
  if lo is not None and hi is not None and lo > hi:
    why.append('output_min>output_max')
  return why


# ------------------------------------------------------------------------------- runners

class Rejected(Exception):
  pass


def _construct(kind, cfg, weights):
  """Builds the layer under the Keras stub; returns (layer, list of (variable, constraint))."""
  def provider(layer, name, shape, dt, init, cons):
    t = tfc.sym(shape, 'w_' + name.replace('/', '_'))
    weights.append(t)
    return t
  kerasc.WEIGHT_PROVIDER[0] = provider
  try:
    if kind == 'lattice':
      ly = load.mod('lattice_layer')
      kw = dict(cfg)
      for k in ('edgeworth_trusts', 'trapezoid_trusts', 'monotonic_dominances', 'range_dominances'):
        if kw.get(k):
          kw[k] = [tuple(t) for t in kw[k]]
      units = kw.setdefault('units', 1)
      layer = ly.Lattice(**kw)
      rank = len(cfg['lattice_sizes'])
      shape = [None, rank] if units == 1 else [None, units, rank]
    elif kind == 'pwl':
      ly = load.mod('pwl_calibration_layer')
      layer = ly.PWLCalibration(**cfg)
      shape = [None, cfg.get('units', 1)]
    elif kind == 'linear':
      ly = load.mod('linear_layer')
      kw = dict(cfg)
      for k in ('monotonic_dominances', 'range_dominances'):
        if kw.get(k):
          kw[k] = [tuple(t) for t in kw[k]]
      layer = ly.Linear(**kw)
      shape = [None, cfg['num_input_dims']] if cfg.get('units', 1) == 1 else [None, cfg['units'], cfg['num_input_dims']]
    elif kind == 'categorical':
      ly = load.mod('categorical_calibration_layer')
      kw = dict(cfg)
      if kw.get('monotonicities'):
        kw['monotonicities'] = [tuple(t) for t in kw['monotonicities']]
      layer = ly.CategoricalCalibration(**kw)
      shape = [None, cfg.get('units', 1)]
    elif kind == 'kfl':
      ly = load.mod('kronecker_factored_lattice_layer')
      layer = ly.KroneckerFactoredLattice(**cfg)
      shape = [None, 2] if cfg.get('units', 1) == 1 else [None, cfg['units'], 2]
    else:
      raise KeyError(kind)
    layer.build(tfc.TensorShape(shape))
    return layer, shape
  finally:
    kerasc.WEIGHT_PROVIDER[0] = None


_KIND = {'lattice': ('lattice_layer', 'Lattice'), 'pwl': ('pwl_calibration_layer', 'PWLCalibration'),
         'linear': ('linear_layer', 'Linear'), 'categorical': ('categorical_calibration_layer', 'CategoricalCalibration'),
         'kfl': ('kronecker_factored_lattice_layer', 'KroneckerFactoredLattice')}

_SCRIPT = '''
import numpy as np
spec = args[0]
layer = getattr(mod(spec['module']), spec['cls'])(**spec['init'])
layer.build(spec['shape'])
res = {}
for v in layer.weights:
  if getattr(v, 'constraint', None) is not None:
    w = tf.constant(np.linspace(-1.5, 2.5, int(np.prod(v.shape))).reshape(v.shape), dtype=v.dtype)
    out = v.constraint(w)
    res[v.name] = bool(np.all(np.isfinite(out.numpy())))
result = res
'''


class ConfigCase(Case):
  contract_key = None
  xcheck = False

  def replay_desc(self, cfg, model, g):
    kind, kw = cfg['kind'], dict(cfg['kw'])
    for k in ('edgeworth_trusts', 'trapezoid_trusts', 'monotonic_dominances', 'range_dominances', 'monotonicities'):
      if isinstance(kw.get(k), list) and kw[k] and isinstance(kw[k][0], list):
        kw[k] = [{'__tuple__': t} for t in kw[k]]
    if kind == 'lattice':
      rank = len(kw['lattice_sizes'])
      shape = [None, rank] if kw.get('units', 1) == 1 else [None, kw['units'], rank]
    elif kind == 'linear':
      shape = [None, kw['num_input_dims']]
    elif kind == 'kfl':
      shape = [None, 2]
    else:
      shape = [None, kw.get('units', 1)]
    m, c_ = _KIND[kind]
    return {'kind': 'script', 'code': _SCRIPT, 'floatx': 'float32',
            'args': [{'module': m, 'cls': c_, 'init': kw, 'shape': shape}], 'kwargs': {}}

  def replay_eval(self, cfg, model, g, desc, nat):
    failing = []
    if 'error' in nat:
      failing.append('raised ' + nat['error'][:200])
    else:
      for name, finite in (nat['ok'] or {}).items():
        if not finite:
          failing.append('non-finite projected weights in ' + name)
    return {'desc': {k: v for k, v in desc.items() if k != 'code'}, 'native': {k: v for k, v in nat.items() if k != 'trace'},
            'failing': failing}

  def loop_mode(self, cfg):
    return ('unroll',)

  def setup(self, cfg, c):
    c.int_cast_range = (0, 3)

  def body(self, cfg, c):
    kind, kw = cfg['kind'], cfg['kw']
    bad = {'lattice': lattice_bad, 'pwl': pwl_bad, 'linear': linear_bad, 'categorical': categorical_bad,
           'kfl': kfl_bad}[kind](kw)
    cl = []
    weights = []
    try:
      layer, shape = _construct(kind, kw, weights)
      raised = None
    except ValueError as e:
      raised = e
    except (tfc.NoContract, E.SymbolicValueError):
      raise
    except Exception as e:  # pylint: disable=broad-except
      return [('rejections-are-ValueError', B.const(False)),
              ('note:%s: %s' % (type(e).__name__, str(e)[:80]), E.TRUE)]
    cl.append(('rejections-are-ValueError', E.TRUE))
    if bad:
      cl.append(('listed-invalid-combination-is-rejected:%s' % '+'.join(sorted(set(bad))), B.const(raised is not None)))
      return cl
    if raised is not None:
      cl.append(('rejected-up-front (not in the listed kinds: %s)' % str(raised)[:60], E.TRUE))
      return cl
    # accepted: projection and evaluation are total and finite
    for v in layer.weights:
      cons = getattr(v, 'constraint', None)
      if cons is None:
        continue
      try:
        out = cons(tfc.Tensor(v.a, v.dtype))
      except (tfc.NoContract, E.SymbolicValueError):
        raise
      except Exception as e:  # pylint: disable=broad-except
        cl.append(('accepted=>projection-does-not-raise[%s]: %s: %s' % (v.name, type(e).__name__, str(e)[:70]), E.FALSE))
        continue
      cl.append(('accepted=>projection-does-not-raise[%s]' % v.name, E.TRUE))
      cl += _finite('projection[%s]' % v.name, out)
    x = tfc.sym([1] + [s for s in shape[1:]], 'x') if kind != 'categorical' else tfc.convert_to_tensor(
        [[i % kw['num_buckets'] for _ in range(shape[1])] for i in range(kw['num_buckets'])], dtype=tfc.int32)
    if kind == 'lattice' and kw.get('interpolation') == 'simplex':
      for v in x.a.flat:
        c.assume((P.lift(v) >= 0) & (P.lift(v) <= 1), 'simplex evaluation explored inside the first cell')
    try:
      y = layer.call(x)
    except (tfc.NoContract, E.SymbolicValueError):
      raise
    except Exception as e:  # pylint: disable=broad-except
      cl.append(('accepted=>evaluation-does-not-raise: %s: %s' % (type(e).__name__, str(e)[:70]), E.FALSE))
      return cl
    cl.append(('accepted=>evaluation-does-not-raise', E.TRUE))
    cl += _finite('evaluation', y)
    return cl


class SynonymCase(Case):
  contract_key = None
  xcheck = False

  def loop_mode(self, cfg):
    return ('unroll',)

  def body(self, cfg, c):
    kind = cfg['kind']
    cl = []
    outs = []
    rejected = []
    for kw in cfg['variants']:
      weights = []
      try:
        layer, shape = _construct(kind, kw, weights)
      except (ValueError, Rejected) as e:
        rejected.append(str(e)[:60])
        continue
      res = []
      for v in layer.weights:
        cons = getattr(v, 'constraint', None)
        if cons is not None:
          res.append(cons(tfc.Tensor(v.a, v.dtype)))
      x = tfc.sym([1] + [s for s in shape[1:]], 'x')
      res.append(layer.call(x))
      outs.append(res)
    # synonymous spellings are either all rejected or all accepted
    cl.append(('synonyms-are-accepted-or-rejected-together [%d of %d rejected]' % (len(rejected), len(cfg['variants'])),
               B.const(len(rejected) in (0, len(cfg['variants'])))))
    if not outs:
      return cl
    ref = outs[0]
    for k, o in enumerate(outs[1:], 1):
      cl.append(('same-number-of-results[%d]' % k, B.const(len(o) == len(ref))))
      for a, b in zip(ref, o):
        a, b = tfc._t(a), tfc._t(b)
        if a.a.shape != b.a.shape:
          cl.append(('same-shape[%d]' % k, E.FALSE))
          continue
        for idx in np.ndindex(*a.a.shape):
          pa, pb = P.lift(a.a[idx]), P.lift(b.a[idx])
          if pa.same(pb):
            cl.append(('synonym-%d-identical-behaviour%s' % (k, list(idx)), E.TRUE))
            continue
          # a concrete disagreement settles the clause at once (two different projections are hard
          # for the solver to tell apart within its budget)
          wit = _concrete_difference(pa, pb)
          if wit is not None:
            cl.append(('synonym-%d-identical-behaviour%s: differs at %s' % (k, list(idx), wit), E.FALSE))
          else:
            cl.append(('synonym-%d-identical-behaviour%s' % (k, list(idx)), pa.eq(pb)))
    return cl


def _concrete_difference(pa, pb, trials=12):
  import random
  from fractions import Fraction as Fr
  names = E.free_vars([pa, pb], [])
  rnd = random.Random(1234)
  for _ in range(trials):
    env = {n: Fr(rnd.randint(-12, 12), 4) for n in names}
    try:
      va, vb = pa.eval(env), pb.eval(env)
    except Exception:  # pylint: disable=broad-except
      return None
    if abs(va - vb) > Fr(1, 10 ** 6):
      return json.dumps({n: str(v) for n, v in sorted(env.items())})[:300]
  return None


def premade_bad(spec):
  """Malformed premade configurations (from the docstrings of premade_lib.verify_config and helpers)."""
  why = []
  m = spec.get('model', {})
  feats = spec['features']
  if spec.get('no_features'):
    why.append('feature_configs None')
  oi = m.get('output_initialization', 'quantiles')
  if not isinstance(oi, list) or any(not isinstance(v, (int, float)) for v in oi):
    why.append('output_initialization not numeric list')
  for f in feats:
    if f['kind'] == 'num':
      kp = f.get('keypoints', [0.0, 1.0, 2.0])
      if not isinstance(kp, list) or any(not isinstance(v, (int, float)) for v in kp):
        why.append('keypoints not specified')
    else:
      pairs = f.get('raw_monotonicity', f.get('pairs') or None)
      if pairs and pairs != 'none':
        if not isinstance(pairs, list):
          why.append('categorical monotonicity not a list')
        else:
          for t in pairs:
            if not isinstance(t, list):
              why.append('categorical pair not a list')
            else:
              for v in t:
                if not isinstance(v, int):
                  why.append('categorical pair entry not an index')
                elif v < 0 or v >= f['buckets']:
                  why.append('categorical pair index out of range')
  special = any(f.get('unimodality') or f.get('trust') or f.get('dominates') for f in feats)
  sizes = {f.get('lattice_size', 2) for f in feats}
  if spec['kind'] == 'ensemble':
    lat = m.get('lattices')
    if lat == 'rtl_layer':
      if m.get('num_lattices') is None:
        why.append('rtl without num_lattices')
      elif m['num_lattices'] < 2:
        why.append('fewer than two lattices')
      if len(sizes) > 1:
        why.append('rtl with different lattice sizes')
      if special:
        why.append('rtl with unimodality / trust / dominance')
    elif isinstance(lat, list):
      if len(lat) < 2:
        why.append('fewer than two lattices')
      elif any(not isinstance(l, (list, str)) or any(not isinstance(x, str) for x in l) for l in lat):
        why.append('lattices not iterables of names')   # a plain string is an iterable of one-letter names
    else:
      why.append('lattices not specified')
  if spec['kind'] in ('ensemble', 'lattice') and m.get('parameterization') == 'kronecker_factored':
    if len(sizes) > 1:
      why.append('kfl with different lattice sizes')
    if special:
      why.append('kfl with unimodality / trust / dominance')
  return why


class PremadeConfigCase(Case):
  """Malformed premade configurations raise ValueError when the model is constructed; the others build
  (real verify_config and builders; layer calls under the abstract contracts of C03)."""
  contract_key = None
  xcheck = False

  def body(self, cfg, c):
    import props.C03 as C03
    spec = cfg['spec']
    why = premade_bad(spec)
    raised = None
    try:
      self._build(C03, spec, c)
    except ValueError as e:
      raised = e
    except (TypeError, KeyError, IndexError, AttributeError, AssertionError) as e:
      if isinstance(e, (tfc.NoContract, E.SymbolicValueError)):
        raise
      return [('only-ValueError-is-raised: got %s: %s' % (type(e).__name__, str(e)[:80]), E.FALSE)]
    cl = [('only-ValueError-is-raised', E.TRUE)]
    if why:
      cl.append(('malformed-premade-config-is-rejected:%s' % why[0], B.const(raised is not None)))
    elif raised is not None:
      cl.append(('rejected-up-front (not in the listed kinds: %s)' % str(raised)[:60], E.TRUE))
    else:
      cl.append(('accepted=>model-builds', E.TRUE))
    return cl

  def _build(self, C03, spec, c):
    from vt import kerasc
    pm, cf = load.mod('premade'), load.mod('configs')
    mc = self._raw_config(cf, C03, spec)
    cls = {'linear': pm.CalibratedLinear, 'lattice': pm.CalibratedLattice, 'ensemble': pm.CalibratedLatticeEnsemble}[spec['kind']]
    tensors = C03._inputs_for(spec, None, {n['name']: 0 for n in spec['features'] if n['kind'] == 'cat'}, c)

    def provider(layer, name, shape, dt, init, cons):
      if not getattr(layer, '_vt_adding_trainable', True):
        return None
      return tfc.sym(shape, E.fresh_name('w'))

    def inp(name, shape, dt):
      for f in spec['features']:
        if name is not None and name.endswith('_' + f['name']):
          return tensors[f['name']]
      raise tfc.NoContract('unexpected keras.Input %r' % (name,))
    kerasc.WEIGHT_PROVIDER[0], kerasc.INPUT_PROVIDER[0] = provider, inp
    try:
      c2 = C.Ctx()     # obligations of the abstract stubs are C03's business, not this case's
      with C.use(c2):
        with C03._Stubs(c2, []):
          cls(mc)
    finally:
      kerasc.WEIGHT_PROVIDER[0] = kerasc.INPUT_PROVIDER[0] = None

  def _raw_config(self, cf, C03, spec):
    feats = []
    for f in spec['features']:
      g = dict(f)
      raw_kp = g.get('keypoints')
      raw_mono = g.pop('raw_monotonicity', None)
      if not isinstance(raw_kp, list) and raw_kp is not None:
        g.pop('keypoints')
      fc = C03.feature_configs(cf, [g])[0]
      if not isinstance(raw_kp, list) and raw_kp is not None:
        fc.pwl_calibration_input_keypoints = raw_kp
      if raw_mono is not None:
        fc.monotonicity = raw_mono
      feats.append(fc)
    kw = dict(spec.get('model', {}))
    kw['feature_configs'] = None if spec.get('no_features') else feats
    return {'linear': cf.CalibratedLinearConfig, 'lattice': cf.CalibratedLatticeConfig,
            'ensemble': cf.CalibratedLatticeEnsembleConfig}[spec['kind']](**kw)


CASES = {'config': ConfigCase(), 'synonym': SynonymCase(), 'premade': PremadeConfigCase()}


def configs(tier, rng):
  jobs = []
  # ---- Lattice
  lat = []
  for sizes in ([2, 2], [2, 3], [1, 2], [3, 3]):
    for monos in (None, [1, 0], [1, 1], ['increasing', 'none'], [0, 0], [1], [-1, 0]):
      for unis in (None, [0, 1], [0, 'valley'], [1, 0], ['peak', 0]):
        for trusts in (None, dict(edgeworth_trusts=[[0, 1, 1]]), dict(trapezoid_trusts=[[0, 1, -1]]),
                       dict(edgeworth_trusts=[[1, 0, 1]]), dict(edgeworth_trusts=[[0, 1, 1]], trapezoid_trusts=[[1, 0, 1]]),
                       dict(edgeworth_trusts=[[0, 2, 1]]), dict(monotonic_dominances=[[0, 1]]),
                       dict(range_dominances=[[1, 0]])):
          for (lo, hi) in ((None, None), (0.0, 1.0), (2.0, 1.0), (None, 0.5)):
            kw = dict(lattice_sizes=sizes, monotonicities=monos, unimodalities=unis, output_min=lo, output_max=hi)
            kw.update(trusts or {})
            lat.append(kw)
  if tier == 'quick':
    rng.shuffle(lat)
    lat = lat[:260]
  for k, kw in enumerate(lat):
    kw = dict(kw, units=1 + k % 2, interpolation=['hypercube', 'simplex'][k % 5 == 0])
    jobs.append(('config', dict(kind='lattice', kw=kw)))
  # ---- PWLCalibration
  for kp in ([0.0, 1.0], [0.0, 0.5, 2.0], [1.0], [0.0, 2.0, 1.0], [0.0, 0.0, 1.0]):
    for mono in (0, 1, -1, 'increasing', 'none'):
      for conv in (0, 1, 'concave'):
        for cyc in (False, True):
          for (lo, hi) in ((None, None), (0.0, 1.0), (1.0, 0.0), (0.0, None), (1.0, 1.0)):
            for clamp in (False, True):
              if clamp and lo is None:
                continue
              kw = dict(input_keypoints=kp, monotonicity=mono, convexity=conv, is_cyclic=cyc, output_min=lo,
                        output_max=hi, clamp_min=clamp, units=1, num_projection_iterations=2)
              jobs.append(('config', dict(kind='pwl', kw=kw)))
  # ---- Linear
  for n in (2, 3):
    for monos in (None, 1, [1] * n, [1, -1] + [0] * (n - 2), ['increasing'] * n, [1]):
      for dom in (None, dict(monotonic_dominances=[[0, 1]]), dict(range_dominances=[[0, 1]]),
                  dict(monotonic_dominances=[[0, 5]])):
        for rngs in (None, ([0.0] * n, [1.0] * n), ([0.0] * n, [0.0] + [1.0] * (n - 1)), ([1.0] * n, [0.0] * n)):
          for norm in (None, 1, 2):
            kw = dict(num_input_dims=n, monotonicities=monos, normalization_order=norm, units=1)
            kw.update(dom or {})
            if rngs:
              kw.update(input_min=rngs[0], input_max=rngs[1])
            jobs.append(('config', dict(kind='linear', kw=kw)))
  # ---- CategoricalCalibration
  for nb in (2, 3):
    for pairs in (None, [[0, 1]], [[0, 1], [1, 2]], [[0, 5]], [[-1, 0]]):
      for (lo, hi) in ((None, None), (0.0, 1.0), (1.0, 0.0), (0.5, 0.5)):
        jobs.append(('config', dict(kind='categorical', kw=dict(num_buckets=nb, monotonicities=pairs, output_min=lo,
                                                              output_max=hi, units=1))))
  # ---- KroneckerFactoredLattice
  for L in (1, 2, 3):
    for monos in (None, [1, 0], ['increasing', 'none']):
      for (lo, hi) in ((None, None), (0.0, 1.0), (1.0, 0.0), (None, 1.0)):
        for terms in (1, 2):
          jobs.append(('config', dict(kind='kfl', kw=dict(lattice_sizes=L, monotonicities=monos, output_min=lo,
                                                        output_max=hi, num_terms=terms, units=1))))
  # ---- single-fault configurations: a valid base with exactly ONE listed defect (a second defect must not
  # be what gets the configuration rejected)
  base = dict(lattice_sizes=[3, 3], monotonicities=[1, 0], units=1)
  for fault in (dict(monotonicities=[-1, 0]), dict(monotonicities=[0, -1]), dict(monotonicities=['decreasing', 'none']),
                dict(lattice_sizes=[3, 1]), dict(unimodalities=[1, 0]), dict(lattice_sizes=[3, 2], unimodalities=[0, 1]),
                dict(edgeworth_trusts=[[1, 0, 1]]), dict(trapezoid_trusts=[[1, 0, 1]]),
                dict(monotonicities=[1, 1], edgeworth_trusts=[[0, 1, 1], [1, 0, 1]]),
                # one trust tuple whose main and conditional feature coincide
                dict(edgeworth_trusts=[[0, 0, 1]]), dict(trapezoid_trusts=[[0, 0, -1]]),
                dict(lattice_sizes=[3, 2], edgeworth_trusts=[[0, 0, 'positive']]),
                dict(monotonicities=[1, 1], trapezoid_trusts=[[1, 1, 1]]),
                dict(monotonic_dominances=[[0, 1]]), dict(range_dominances=[[0, 1]]),
                dict(output_min=1.0, output_max=0.0), dict(monotonicities=[1, 0, 0])):
    jobs.append(('config', dict(kind='lattice', kw=dict(base, **fault))))
  for fault in (dict(monotonicities=[-1, 0]), dict(monotonicities=['decreasing', 0]), dict(lattice_sizes=1),
                dict(output_min=1.0, output_max=0.0)):
    jobs.append(('config', dict(kind='kfl', kw=dict(dict(lattice_sizes=2, monotonicities=[1, 0], num_terms=2, units=1), **fault))))
  jobs.append(('synonym', dict(kind='lattice', variants=[
      dict(lattice_sizes=[2, 3], monotonicities=[-1, 0]), dict(lattice_sizes=[2, 3], monotonicities=['decreasing', 'none']),
      dict(lattice_sizes=[2, 3], monotonicities=['decreasing', 0]), dict(lattice_sizes=[2, 3], monotonicities=[-1, 'none'])])))
  jobs.append(('synonym', dict(kind='kfl', variants=[
      dict(lattice_sizes=2, monotonicities=[-1, 0], units=1), dict(lattice_sizes=2, monotonicities=['decreasing', 'none'], units=1)])))
  # ---- synonyms
  jobs.append(('synonym', dict(kind='lattice', variants=[
      dict(lattice_sizes=[2, 3], monotonicities=[1, 0], unimodalities=[0, 1], edgeworth_trusts=[[0, 1, 1]], output_min=0.0, output_max=1.0),
      dict(lattice_sizes=[2, 3], monotonicities=['increasing', 'none'], unimodalities=['none', 'valley'],
           edgeworth_trusts=[[0, 1, 'positive']], output_min=0.0, output_max=1.0)])))
  jobs.append(('synonym', dict(kind='lattice', variants=[
      dict(lattice_sizes=[2, 3], monotonicities=[1, 0], unimodalities=[0, -1], trapezoid_trusts=[[0, 1, -1]]),
      dict(lattice_sizes=[2, 3], monotonicities=['increasing', 0], unimodalities=[0, 'peak'],
           trapezoid_trusts=[[0, 1, 'negative']])])))
  jobs.append(('synonym', dict(kind='pwl', variants=[
      dict(input_keypoints=[0.0, 1.0, 3.0], monotonicity=1, convexity=-1, output_min=0.0, output_max=1.0, units=1, num_projection_iterations=1),
      dict(input_keypoints=[0.0, 1.0, 3.0], monotonicity='increasing', convexity='concave', output_min=0.0, output_max=1.0, units=1, num_projection_iterations=1)])))
  jobs.append(('synonym', dict(kind='pwl', variants=[
      dict(input_keypoints=[0.0, 1.0, 3.0], monotonicity=-1, convexity=0, units=1, num_projection_iterations=1),
      dict(input_keypoints=[0.0, 1.0, 3.0], monotonicity='decreasing', convexity='none', units=1, num_projection_iterations=1)])))
  jobs.append(('synonym', dict(kind='linear', variants=[
      dict(num_input_dims=3, monotonicities=[1, -1, 0], normalization_order=1),
      dict(num_input_dims=3, monotonicities=['increasing', 'decreasing', 'none'], normalization_order=1)])))
  jobs.append(('synonym', dict(kind='linear', variants=[
      dict(num_input_dims=2, monotonicities=[1, 1]), dict(num_input_dims=2, monotonicities=1),
      dict(num_input_dims=2, monotonicities='increasing')])))
  jobs.append(('synonym', dict(kind='kfl', variants=[
      dict(lattice_sizes=2, monotonicities=[1, 0], output_min=0.0, output_max=1.0),
      dict(lattice_sizes=2, monotonicities=['increasing', 'none'], output_min=0.0, output_max=1.0)])))
  # ---- premade model configurations (malformed ones must be rejected by verify_config)
  import props.C03 as C03
  A, Bd, N = C03.NUM('a', 'increasing'), C03.NUM('b', 'decreasing'), C03.NUM('n', 'none')
  Cc = C03.CAT('c', 3, [[0, 1]])
  ok = dict(output_min=0.0, output_max=1.0, output_initialization=[0.0, 1.0])
  pspecs = [
      dict(kind='lattice', features=[A, Bd], model=dict(ok)),
      dict(kind='lattice', features=[A, Bd], model=dict(ok, output_initialization='quantiles')),
      dict(kind='lattice', features=[A, Bd], model=dict(ok, output_initialization=[0.0, 'x'])),
      dict(kind='lattice', features=[dict(A, keypoints='quantiles'), Bd], model=dict(ok)),
      dict(kind='lattice', features=[A, Bd], model=dict(ok), no_features=True),
      dict(kind='linear', features=[A, dict(Cc, raw_monotonicity='increasing')], model=dict(ok, use_bias=False)),
      dict(kind='linear', features=[A, dict(Cc, raw_monotonicity=[0, 1])], model=dict(ok, use_bias=False)),
      dict(kind='linear', features=[A, dict(Cc, raw_monotonicity=[[0, 3]])], model=dict(ok, use_bias=False)),
      dict(kind='linear', features=[A, dict(Cc, raw_monotonicity=[[0, 1.0]])], model=dict(ok, use_bias=False)),
      dict(kind='linear', features=[A, dict(Cc, raw_monotonicity=[[0, 1], [1, 2]])], model=dict(ok, use_bias=False)),
      dict(kind='lattice', features=[A, dict(Bd, lattice_size=3)], model=dict(ok, parameterization='kronecker_factored', num_terms=2)),
      dict(kind='lattice', features=[A, dict(N, unimodality='valley', lattice_size=3)], model=dict(ok, parameterization='kronecker_factored')),
      dict(kind='lattice', features=[A, dict(N, trust=[['a', 'edgeworth', 'positive']])], model=dict(ok, parameterization='kronecker_factored')),
      dict(kind='lattice', features=[dict(A, dominates=['b']), C03.NUM('b', 'increasing')], model=dict(ok, parameterization='kronecker_factored')),
      dict(kind='lattice', features=[A, Bd], model=dict(ok, parameterization='kronecker_factored', num_terms=2)),
      dict(kind='ensemble', features=[A, Bd, N], model=dict(ok, lattices=[['a', 'b'], ['b', 'n']])),
      dict(kind='ensemble', features=[A, Bd, N], model=dict(ok, lattices=[['a', 'b', 'n']])),
      dict(kind='ensemble', features=[A, Bd, N], model=dict(ok, lattices='random')),
      dict(kind='ensemble', features=[A, Bd, N], model=dict(ok, lattices=[['a', 'b'], 'bn'])),
      dict(kind='ensemble', features=[A, Bd, N], model=dict(ok, lattices=[['a', 'b'], ['b', 3]])),
      dict(kind='ensemble', features=[A, Bd, N], model=dict(ok, lattices=[['a', 'b'], 7])),
      dict(kind='ensemble', features=[A, Bd, N], model=dict(ok, lattices='rtl_layer', num_lattices=2, lattice_rank=2)),
      dict(kind='ensemble', features=[A, Bd, N], model=dict(ok, lattices='rtl_layer', num_lattices=None, lattice_rank=2)),
      dict(kind='ensemble', features=[A, Bd, N], model=dict(ok, lattices='rtl_layer', num_lattices=1, lattice_rank=2)),
      dict(kind='ensemble', features=[A, Bd], model=dict(ok, lattices='rtl_layer', num_lattices=1, lattice_rank=2)),
      dict(kind='ensemble', features=[A, dict(Bd, lattice_size=3), N], model=dict(ok, lattices='rtl_layer', num_lattices=2, lattice_rank=2)),
      dict(kind='ensemble', features=[A, Bd, dict(N, unimodality='peak', lattice_size=3)],
           model=dict(ok, lattices='rtl_layer', num_lattices=2, lattice_rank=2)),
      dict(kind='ensemble', features=[A, Bd, dict(N, trust=[['a', 'trapezoid', 'positive']])],
           model=dict(ok, lattices='rtl_layer', num_lattices=2, lattice_rank=2)),
      dict(kind='ensemble', features=[dict(A, dominates=['b']), C03.NUM('b', 'increasing'), N],
           model=dict(ok, lattices='rtl_layer', num_lattices=2, lattice_rank=2)),
  ]
  for sp in pspecs:
    jobs.append(('premade', dict(spec=sp)))
  out, seen = [], set()
  for j in jobs:
    key = json.dumps(j, sort_keys=True)
    if key not in seen:
      seen.add(key)
      out.append(j)
  return out


EVIDENCE = {
    'level': 'other',
    'explanation': (
        '(a) BOUNDED, not proved: constructors/build of Lattice, PWLCalibration, Linear, CategoricalCalibration and '
        'KroneckerFactoredLattice are executed (real code, Keras stub) on the cross product of constructor arguments over '
        'small domains; each listed invalid combination must raise ValueError and nothing but ValueError may be raised. (b) '
        'DEDUCTIVE: for every accepted configuration the real weight constraints and the real evaluation run on symbolic '
        'weights and inputs without raising, and each result element carries the obligation `defined` (every reachable '
        'reciprocal has a non-zero argument unless masked by tf.where / divide_no_nan, log/root arguments in domain) - for all '
        'real weights and inputs. (c) synonymous spellings yield structurally identical symbolic behaviour.'),
    'rule': 'one obligation = (layer kind, constructor arguments, clause [, output element])',
    'bounds': 'constructor-argument domains listed in props/C16.py (lattice 2 dims, PWL <= 3 keypoints, linear 2-3 dims, '
              'categorical 2-3 buckets, KFL 2 dims); premade configs, RTL and the canonicalize_* helpers alone are not enumerated',
    'exhaustive_tiers': {'quick': False, 'thorough': True},
    'trusted_base': ['vt operator contracts', 'Keras stub', 'z3 and cvc5'],
    'assumptions': ['float arithmetic treated as exact real arithmetic; floating-point overflow is out of scope (as in the property)',
                    'part (a) is an exhaustive evaluation inside the stated argument domains, not a proof'],
}

if __name__ == '__main__':
  import sys
  from vt import prop
  sys.exit(prop.main(sys.modules[__name__]))
