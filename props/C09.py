"""C09 - units and examples never interact: projections are per unit, outputs per row.

Non-interference is decided on the symbolic result of the REAL code: the (canonical) expression of
an output element of unit u / row b may only mention the parameters and inputs of that unit / row
(dependency obligation), and it is the same expression the same function produces when it is given
that unit / row alone (agreement obligation; structural identity first, solver second).
Permutation invariance follows: every column is the same function of its own column.
"""
import itertools
import json
import re

import numpy as np

from vt import ctx as C
from vt import expr as E
from vt import harness as H
from vt import kerasc
from vt import load
from vt import tfc
from vt.expr import P, B
from vt.prop import Case

PROPERTY = 'C09'

_IDX = re.compile(r'^([A-Za-z_]+)\[(.*)\]$')


def _var_index(name):
  m = _IDX.match(name)
  if not m:
    return name, None
  return m.group(1), tuple(int(v) for v in m.group(2).split(','))


def deps(p):
  return E.free_vars([P.lift(p)], [])


def depends_only(label, p, allowed):
  """allowed(base, idx) -> bool for every variable the expression mentions."""
  bad = []
  for n in deps(p):
    if n.startswith('undef:'):
      continue
    base, idx = _var_index(n)
    if not allowed(base, idx):
      bad.append(n)
  if not bad:
    return [(label, E.TRUE)]
  # witness of the dependence: changing that variable must not change the value
  v = P.var(bad[0])
  return [(label + ':mentions ' + bad[0], E.FALSE)]


def same_expr(label, a, b):
  a, b = P.lift(a), P.lift(b)
  if a.same(b):
    return [(label, E.TRUE)]
  return [(label, a.eq(b))]


def _lattice_cfgs():
  return [
      dict(lattice_sizes=[2, 2], monotonicities=[1, 1], edgeworth_trusts=[(0, 1, 1)], output_min=0.0, output_max=1.0),
      dict(lattice_sizes=[2, 3], monotonicities=[1, 0], trapezoid_trusts=[(0, 1, -1)], output_min=-1.0),
      dict(lattice_sizes=[3, 2], monotonicities=[1, 0], edgeworth_trusts=[(0, 1, 1)], trapezoid_trusts=[(0, 1, 1)],
           output_min=0.0, output_max=2.0),
      dict(lattice_sizes=[2, 2, 2], monotonicities=[1, 0, 1], edgeworth_trusts=[(0, 1, 1)],
           trapezoid_trusts=[(2, 1, 1)], output_max=1.0),
      dict(lattice_sizes=[3], unimodalities=[1], output_min=0.0),
      dict(lattice_sizes=[2, 2], monotonicities=[1, 1], monotonic_dominances=[(0, 1)]),
      dict(lattice_sizes=[2, 2], monotonicities=[1, 1], range_dominances=[(0, 1)]),
      dict(lattice_sizes=[2, 2], joint_monotonicities=[(0, 1)]),
      # negative trust directions (the code has separate near-duplicate branches per direction)
      dict(lattice_sizes=[2, 2], monotonicities=[1, 0], edgeworth_trusts=[(0, 1, -1)]),
      dict(lattice_sizes=[3, 3], monotonicities=[1, 0], edgeworth_trusts=[(0, 1, -1)], output_min=0.0, output_max=1.0),
      dict(lattice_sizes=[2, 3], monotonicities=[1, 0], trapezoid_trusts=[(0, 1, 1)], output_max=1.0),
      dict(lattice_sizes=[3, 2], monotonicities=[0, 1], edgeworth_trusts=[(1, 0, -1)], trapezoid_trusts=[(1, 0, -1)]),
  ]


_UNIT_SEARCH = """
import numpy as np
cfg = args[0]
t, U, kw = cfg['target'], cfg['units'], dict(cfg['kw'])
tup = lambda xs: [tuple(x) for x in xs] if xs else None
if t == 'lattice_constraints':
  ly = mod('lattice_layer')
  for k in ('edgeworth_trusts', 'trapezoid_trusts', 'monotonic_dominances', 'range_dominances', 'joint_monotonicities'):
    if kw.get(k):
      kw[k] = tup(kw[k])
  rows = int(np.prod(kw['lattice_sizes']))
  cons = ly.LatticeConstraints(num_projection_iterations=cfg.get('iters', 1), enforce_strict_monotonicity=cfg.get('strict', True), **kw)
elif t == 'pwl_constraints':
  ly = mod('pwl_calibration_layer'); lib = mod('pwl_calibration_lib')
  omin, omax, omc, oxc = lib.convert_all_constraints(kw.get('output_min'), kw.get('output_max'), kw.get('clamp_min', False),
                                                     kw.get('clamp_max', False))
  rows = len(kw['lengths']) + 1
  cons = ly.PWLCalibrationConstraints(monotonicity=kw['monotonicity'], convexity=kw.get('convexity', 0),
                                      lengths=tf.constant(kw['lengths'], 'float32'), output_min=omin, output_max=omax,
                                      output_min_constraints=omc, output_max_constraints=oxc,
                                      num_projection_iterations=cfg.get('iters', 2))
elif t == 'categorical_constraints':
  ly = mod('categorical_calibration_layer')
  rows = kw['n']
  cons = ly.CategoricalCalibrationConstraints(output_min=kw.get('output_min'), output_max=kw.get('output_max'),
                                              monotonicities=[list(p) for p in kw.get('pairs') or []] or None)
else:
  ly = mod('linear_layer')
  rows = len(kw['monos'])
  cons = ly.LinearConstraints(monotonicities=kw['monos'], monotonic_dominances=tup(kw.get('mono_dom')),
                              range_dominances=tup(kw.get('range_dom')), input_min=kw.get('input_min'),
                              input_max=kw.get('input_max'), normalization_order=kw.get('norm'))
rng = np.random.RandomState(9)
worst = None
for trial in range(80):
  scale = [0.3, 1.0, 3.0, 10.0][trial % 4]
  w = (scale * rng.standard_normal((rows, U))).astype('float32')
  if trial % 5 == 0:
    w[0, rng.randint(U)] = rng.choice([-5.0, 0.0, 1.0, 2.0, 5.0])      # one unit at / beyond a typical bound
  full = cons(tf.constant(w)).numpy()
  for u in range(U):
    alone = cons(tf.constant(w[:, u:u + 1])).numpy()
    err = float(np.max(np.abs(full[:, u:u + 1] - alone)))
    if err > 1e-5 and (worst is None or err > worst['difference']):
      worst = {'difference': err, 'unit': u, 'kernel': w.tolist(), 'with_other_units': full[:, u].tolist(),
               'alone': alone[:, 0].tolist()}
result = worst
"""


class UnitCase(Case):
  contract_key = None
  xcheck = False

  def replay_desc(self, cfg, model, g):
    if cfg.get('target') in ('lattice_constraints', 'pwl_constraints', 'categorical_constraints', 'linear_constraints'):
      return {'kind': 'script', 'code': _UNIT_SEARCH, 'floatx': 'float32', 'args': [cfg], 'kwargs': {}}
    return None

  def replay_eval(self, cfg, model, g, desc, nat):
    failing = []
    if 'error' in nat:
      return {'native': {k: v for k, v in nat.items() if k != 'trace'}, 'failing': [], 'note': 'native search could not run'}
    if nat.get('ok'):
      failing.append('column %d of constraint(kernel) differs from constraint(column alone) by %g' %
                     (nat['ok']['unit'], nat['ok']['difference']))
    return {'native': nat, 'failing': failing, 'note': 'bounded native search: 80 random kernels'}

  def loop_mode(self, cfg):
    return ('unroll',)

  def body(self, cfg, c):
    t = cfg['target']
    U = cfg['units']
    cl = []

    def col_check(fn, w, label, unit_of_name=lambda base, idx: idx[-1] if idx else None):
      out = fn(w)
      if tuple(out.a.shape) != tuple(w.a.shape):
        return [(label + ':shape', E.FALSE)]
      n = w.a.shape[0]
      res = []
      for u in range(U):
        for i in range(n):
          res += depends_only('%s:unit-%d-only[%d]' % (label, u, i), out.a[i, u],
                              lambda base, idx, u=u: base != 'w' or idx[-1] == u)
        single = fn(w[:, u:u + 1])
        for i in range(n):
          res += same_expr('%s:column-%d-alone[%d]' % (label, u, i), out.a[i, u], single.a[i, 0])
      return res

    if t == 'lattice_constraints':
      ly = load.mod('lattice_layer')
      kw = dict(cfg['kw'])
      for k in ('edgeworth_trusts', 'trapezoid_trusts', 'monotonic_dominances', 'range_dominances',
                'joint_monotonicities'):
        if kw.get(k):
          kw[k] = [tuple(x) for x in kw[k]]
      n = int(np.prod(kw['lattice_sizes']))
      cons = ly.LatticeConstraints(num_projection_iterations=cfg.get('iters', 1),
                                   enforce_strict_monotonicity=cfg.get('strict', True), **kw)
      cl += col_check(cons, tfc.sym([n, U], 'w'), 'LatticeConstraints')
    elif t == 'lattice_finalize':
      ll = load.mod('lattice_lib')
      kw = dict(cfg['kw'])
      n = int(np.prod(kw['lattice_sizes']))
      f = lambda w: ll.finalize_constraints(
          w, kw['lattice_sizes'], kw.get('monotonicities') or [0] * len(kw['lattice_sizes']),
          [tuple(x) for x in kw.get('edgeworth_trusts') or []] or None,
          [tuple(x) for x in kw.get('trapezoid_trusts') or []] or None,
          kw.get('output_min'), kw.get('output_max'))
      cl += col_check(f, tfc.sym([n, U], 'w'), 'finalize_constraints')
    elif t == 'pwl_constraints':
      ly = load.mod('pwl_calibration_layer')
      lib = load.mod('pwl_calibration_lib')
      kw = cfg['kw']
      omin, omax, omc, oxc = lib.convert_all_constraints(kw.get('output_min'), kw.get('output_max'),
                                                         kw.get('clamp_min', False), kw.get('clamp_max', False))
      lengths = tfc.convert_to_tensor(kw['lengths'], dtype=tfc.float32)
      cons = ly.PWLCalibrationConstraints(
          monotonicity=kw['monotonicity'], convexity=kw.get('convexity', 0), lengths=lengths,
          output_min=omin, output_max=omax, output_min_constraints=omc, output_max_constraints=oxc,
          num_projection_iterations=cfg.get('iters', 2))
      cl += col_check(cons, tfc.sym([len(kw['lengths']) + 1, U], 'w'), 'PWLCalibrationConstraints')
    elif t == 'categorical_constraints':
      ly = load.mod('categorical_calibration_layer')
      kw = cfg['kw']
      cons = ly.CategoricalCalibrationConstraints(
          output_min=kw.get('output_min'), output_max=kw.get('output_max'),
          monotonicities=[list(p) for p in kw.get('pairs') or []] or None)
      cl += col_check(cons, tfc.sym([kw['n'], U], 'w'), 'CategoricalCalibrationConstraints')
    elif t == 'linear_constraints':
      ly = load.mod('linear_layer')
      kw = cfg['kw']
      cons = ly.LinearConstraints(
          monotonicities=kw['monos'], monotonic_dominances=[tuple(p) for p in kw.get('mono_dom') or []] or None,
          range_dominances=[tuple(p) for p in kw.get('range_dom') or []] or None,
          input_min=kw.get('input_min'), input_max=kw.get('input_max'),
          normalization_order=kw.get('norm'))
      cl += col_check(cons, tfc.sym([len(kw['monos']), U], 'w'), 'LinearConstraints')
    elif t == 'kfl_constraints':
      ly = load.mod('kronecker_factored_lattice_layer')
      kw = cfg['kw']
      L, D, T = kw['L'], kw['dims'], kw['terms']
      scale = tfc.sym([U, T], 'scale')
      w = tfc.sym([1, L, U * D, T], 'w')
      mk = lambda sc: ly.KroneckerFactoredLatticeConstraints(
          units=sc.a.shape[0], scale=sc, monotonicities=kw.get('monos'), output_min=kw.get('output_min'),
          output_max=kw.get('output_max'))
      out = mk(scale)(w)
      for u in range(U):
        sub = mk(scale[u:u + 1])(w[:, :, u * D:(u + 1) * D, :])
        for i in range(L):
          for d in range(D):
            for tt in range(T):
              o = out.a[0, i, u * D + d, tt]
              cl += depends_only('KFLConstraints:unit-%d-only[%d,%d,%d]' % (u, i, d, tt), o,
                                 lambda base, idx, u=u: (base == 'w' and idx[2] // D == u) or
                                 (base == 'scale' and idx[0] == u) or base not in ('w', 'scale'))
              cl += same_expr('KFLConstraints:unit-%d-alone[%d,%d,%d]' % (u, i, d, tt), o, sub.a[0, i, d, tt])
      sc_cons = ly.ScaleConstraints(output_min=kw.get('output_min'), output_max=kw.get('output_max'))
      so = sc_cons(scale)
      for u in range(U):
        for tt in range(T):
          cl += depends_only('ScaleConstraints:entry-only[%d,%d]' % (u, tt), so.a[u, tt],
                             lambda base, idx, u=u, tt=tt: base != 'scale' or idx == (u, tt))
    elif t == 'lattice_output':
      ll = load.mod('lattice_lib')
      sizes = cfg['sizes']
      n = int(np.prod(sizes))
      K = tfc.sym([n, U], 'K')
      x = tfc.sym([1, U, len(sizes)], 'x')
      out = ll.evaluate_with_hypercube_interpolation(x, K, U, sizes, True)
      for u in range(U):
        cl += depends_only('Lattice:output-of-unit-%d' % u, out.a[0, u],
                           lambda base, idx, u=u: (base == 'K' and idx[1] == u) or (base == 'x' and idx[1] == u))
        single = ll.evaluate_with_hypercube_interpolation(x[:, u, :], K[:, u:u + 1], 1, sizes, True)
        cl += same_expr('Lattice:unit-%d-alone' % u, out.a[0, u], single.a[0, 0])
    elif t == 'linear_output':
      import props.C20 as C20
      layer = C20._layer(dict(n=cfg['n'], units=U, use_bias=True, input_min=[-1.0] + [None] * (cfg['n'] - 1),
                              input_max=[2.0] + [None] * (cfg['n'] - 1)))
      x = tfc.sym([1, U, cfg['n']], 'x')
      out = layer.call(x)
      for u in range(U):
        cl += depends_only('Linear:output-of-unit-%d' % u, out.a[0, u],
                           lambda base, idx, u=u: (base == 'K' and idx[1] == u) or (base == 'b' and idx[0] == u) or
                           (base == 'x' and idx[1] == u))
    elif t == 'pwl_output':
      import props.C05 as C05
      layer = C05._pwl_layer(dict(nk=cfg['nk'], units=U, in_cols=U))
      x = tfc.sym([1, U], 'x')
      out = layer.call(x)
      for u in range(U):
        cl += depends_only('PWLCalibration:output-of-unit-%d' % u, out.a[0, u],
                           lambda base, idx, u=u: (base == 'K' and idx[1] == u) or (base == 'x' and idx[1] == u))
    elif t == 'kfl_output':
      kl = load.mod('kronecker_factored_lattice_lib')
      L, D, T = cfg['L'], cfg['dims'], cfg['terms']
      x = tfc.sym([1, U, D], 'x')
      sc, bias, w = tfc.sym([U, T], 'scale'), tfc.sym([U], 'bias'), tfc.sym([1, L, U * D, T], 'w')
      out = kl.evaluate_with_hypercube_interpolation(x, sc, bias, w, U, T, L, True)
      for u in range(U):
        cl += depends_only('KFL:output-of-unit-%d' % u, out.a[0, u],
                           lambda base, idx, u=u: (base == 'w' and idx[2] // D == u) or (base == 'scale' and idx[0] == u) or
                           (base == 'bias' and idx[0] == u) or (base == 'x' and idx[1] == u))
    return cl


class BatchCase(Case):
  contract_key = None
  xcheck = False

  def setup(self, cfg, c):
    c.int_cast_range = (0, 2)

  def body(self, cfg, c):
    t = cfg['target']
    Bn = cfg.get('batch', 2)
    cl = []

    def rows(label, f, x, row_of=lambda out, b: [(idx, v) for idx, v in np.ndenumerate(out.a[b])]):
      out = f(x)
      res = []
      for b in range(Bn):
        for idx, v in row_of(out, b):
          res += depends_only('%s:row-%d-only%s' % (label, b, list(idx)), v,
                              lambda base, i, b=b: base != 'x' or i[0] == b)
        single = f(x[b:b + 1])
        for (idx, v), (_, v1) in zip(row_of(out, b), row_of(single, 0)):
          res += same_expr('%s:row-%d-alone%s' % (label, b, list(idx)), v, v1)
      return res

    if t == 'premade':
      # the real premade builders and real layer calls (no stubs) on a symbolic two-row batch: each output
      # row mentions only that row's inputs (weights are arbitrary symbols)
      from vt import kerasc
      import props.C03 as C03
      pm, cf = load.mod('premade'), load.mod('configs')
      spec = cfg['spec']
      tensors = {}
      for f in spec['features']:
        if f['kind'] == 'cat':
          tensors[f['name']] = tfc.convert_to_tensor([[cfg['cat_rows'][0]], [cfg['cat_rows'][1]]], dtype=tfc.int32)
        else:
          tensors[f['name']] = tfc.sym([2, 1], 'x')    # all features share the base name `x`: row index first
          tensors[f['name']] = tfc.Tensor(np.array([[P.var('x[0, %d]' % len(tensors))], [P.var('x[1, %d]' % len(tensors))]],
                                                   dtype=object), tfc.float32)

      def provider(layer, name, shape, dt, init, cons):
        if not getattr(layer, '_vt_adding_trainable', True):
          return None
        return tfc.sym(shape, E.fresh_name('w'))

      def inp(name, shape, dt):
        for f in spec['features']:
          if name is not None and name.endswith('_' + f['name']):
            return tensors[f['name']]
        raise tfc.NoContract('unexpected keras.Input %r' % (name,))
      kerasc.WEIGHT_PROVIDER[0], kerasc.INPUT_PROVIDER[0] = provider, inp
      try:
        out = tfc._t(C03.build_model(pm, cf, spec).outputs)
      finally:
        kerasc.WEIGHT_PROVIDER[0] = kerasc.INPUT_PROVIDER[0] = None
      cl.append(('premade:output-shape', B.const(tuple(out.a.shape) == (2, 1))))
      for b in range(2):
        cl += depends_only('premade:row-%d-only' % b, out.a[b, 0], lambda base, i, b=b: base != 'x' or i[0] == b)
    elif t == 'lattice':
      ll = load.mod('lattice_lib')
      sizes = cfg['sizes']
      K = tfc.sym([int(np.prod(sizes)), 1], 'K')
      cl += rows('Lattice(hypercube)', lambda x: ll.evaluate_with_hypercube_interpolation(x, K, 1, sizes, True),
                 tfc.sym([Bn, len(sizes)], 'x'))
    elif t == 'pwl':
      import props.C05 as C05
      layer = C05._pwl_layer(dict(nk=cfg['nk'], units=1))
      cl += rows('PWLCalibration', layer.call, tfc.sym([Bn, 1], 'x'))
    elif t == 'linear':
      import props.C20 as C20
      layer = C20._layer(dict(n=cfg['n'], units=1, use_bias=True, input_min=[0.0] * cfg['n'], input_max=[1.0] * cfg['n']))
      cl += rows('Linear', layer.call, tfc.sym([Bn, cfg['n']], 'x'))
    elif t == 'kfl':
      kl = load.mod('kronecker_factored_lattice_lib')
      L, D, T = cfg['L'], cfg['dims'], cfg['terms']
      sc, bias, w = tfc.sym([1, T], 'scale'), tfc.sym([1], 'bias'), tfc.sym([1, L, D, T], 'w')
      cl += rows('KroneckerFactoredLattice',
                 lambda x: kl.evaluate_with_hypercube_interpolation(x, sc, bias, w, 1, T, L, True),
                 tfc.sym([Bn, D], 'x'))
    elif t == 'cdf':
      import props.C15 as C15
      layer = C15.cdf_layer(cfg['kw'])
      cl += rows('CDF', layer.call, tfc.sym([Bn, cfg['kw']['input_dim']], 'x'))
    elif t == 'cdf_fn':
      import props.C15 as C15
      cl += rows('cdf_fn', lambda x: C15.call_cdf_fn(cfg['kw'], x, per_example=False),
                 tfc.sym([Bn, cfg['kw']['input_dim']], 'x'))
    elif t == 'pwl_fn':
      import props.C15 as C15
      c.assume(P.var('omin') <= P.var('omax'), 'keypoint_output_min <= keypoint_output_max (validated by the function)')
      cl += rows('pwl_calibration_fn', lambda x: C15.call_pwl_fn(cfg['kw'], x, per_example=False),
                 tfc.sym([Bn, 1], 'x'))
    elif t == 'parallel':
      import props.C05 as C05
      pc = load.mod('parallel_combination_layer')
      layers = [C05._pwl_layer(dict(nk=3, units=1)), C05._pwl_layer(dict(nk=2, units=1, kpset=1))]
      # distinct kernels per calibrator
      for k, l in enumerate(layers):
        l.kernel.a = tfc.sym(list(l.kernel.a.shape), 'K%d' % k).a
      comb = pc.ParallelCombination(single_output=True)
      for l in layers:
        comb.append(l)
      comb.build(tfc.TensorShape([None, 2]))
      cl += rows('ParallelCombination', comb.call, tfc.sym([Bn, 2], 'x'))
    return cl


CASES = {'units': UnitCase(), 'batch': BatchCase()}


def configs(tier, rng):
  jobs = []
  for kw in _lattice_cfgs():
    for U in (2, 3):
      for iters in (0, 1, 2):
        if tier == 'quick' and (U == 3 and iters == 2):
          continue
        for strict in (True, False):
          jobs.append(('units', dict(target='lattice_constraints', units=U, kw=kw, iters=iters, strict=strict)))
      if kw.get('monotonicities'):
        jobs.append(('units', dict(target='lattice_finalize', units=U, kw=kw)))
  for mono in (1, -1, 0):
    for conv in (0, 1, -1):
      for b in (dict(), dict(output_min=0.0, output_max=1.0), dict(output_min=-1.0, clamp_min=bool(mono)),
                dict(output_max=2.0)):
        for lengths in ([1.0], [0.5, 1.5], [1.0, 1.0, 2.0], [1.0, 2.0, 0.5, 1.0]):
          for U in (2, 3):
            if tier == 'quick' and U == 3 and len(lengths) >= 3:
              continue
            if tier == 'quick' and len(lengths) == 4 and (conv == 0 or 'clamp_min' in b):
              continue
            jobs.append(('units', dict(target='pwl_constraints', units=U, iters=2,
                                       kw=dict(monotonicity=mono, convexity=conv, lengths=lengths, **b))))
  for pairs in ([], [[0, 1]], [[0, 1], [1, 2]], [[0, 2], [1, 2]]):
    for b in (dict(), dict(output_min=0.0, output_max=1.0)):
      for U in (2, 3):
        jobs.append(('units', dict(target='categorical_constraints', units=U, kw=dict(n=3, pairs=pairs, **b))))
  for lk in (dict(monos=[1, 1]), dict(monos=[1, -1, 0], norm=1), dict(monos=[1, 1, 1], mono_dom=[[0, 1]], norm=2),
             dict(monos=[1, 1], range_dom=[[0, 1]], input_min=[0.0, -1.0], input_max=[1.0, 3.0], norm=1),
             dict(monos=[0, 0], norm=2)):
    for U in (2, 3):
      jobs.append(('units', dict(target='linear_constraints', units=U, kw=lk)))
  for kk in (dict(L=2, dims=2, terms=1, monos=[1, 0]), dict(L=3, dims=1, terms=2, monos=[1], output_min=0.0, output_max=1.0),
             dict(L=2, dims=2, terms=2, monos=None, output_min=0.0), dict(L=2, dims=2, terms=1, monos=[1, 1], output_max=1.0)):
    for U in (2, 3):
      jobs.append(('units', dict(target='kfl_constraints', units=U, kw=kk)))
  for sizes in ([2], [2, 2], [2, 3], [2, 2, 2]):
    for U in (2, 3):
      jobs.append(('units', dict(target='lattice_output', units=U, sizes=sizes)))
    jobs.append(('batch', dict(target='lattice', sizes=sizes)))
  import props.C03 as C03
  for k, spec in enumerate(C03.model_specs(tier)):
    if spec['kind'] == 'stack' or (tier == 'quick' and k % 2) or spec.get('model', {}).get('interpolation') == 'simplex':
      continue     # simplex needs a path oracle over bounded inputs; its row independence is the Lattice target's
    jobs.append(('batch', dict(target='premade', spec=spec, cat_rows=[0, 1])))
  for n in (1, 2, 3):
    for U in (2, 3):
      jobs.append(('units', dict(target='linear_output', units=U, n=n)))
    jobs.append(('batch', dict(target='linear', n=n)))
  for nk in (2, 3, 4):
    for U in (2, 3):
      jobs.append(('units', dict(target='pwl_output', units=U, nk=nk)))
    jobs.append(('batch', dict(target='pwl', nk=nk)))
  for (L, D, T) in ((2, 2, 1), (3, 1, 2), (2, 2, 2)):
    for U in (2, 3):
      jobs.append(('units', dict(target='kfl_output', units=U, L=L, dims=D, terms=T)))
    jobs.append(('batch', dict(target='kfl', L=L, dims=D, terms=T)))
  jobs.append(('batch', dict(target='parallel')))
  try:
    import props.C15 as C15
    for kw in C15.cdf_configs(tier)[:12]:
      jobs.append(('batch', dict(target='cdf', kw=kw)))
      jobs.append(('batch', dict(target='cdf_fn', kw=kw)))
    for kw in C15.pwl_fn_configs(tier)[:12]:
      jobs.append(('batch', dict(target='pwl_fn', kw=kw)))
  except ImportError:
    pass
  out, seen = [], set()
  for j in jobs:
    key = json.dumps(j, sort_keys=True)
    if key not in seen:
      seen.add(key)
      out.append(j)
  return out


EVIDENCE = {
    'level': 'proof',
    'explanation': (
        'The real constraint / evaluation code is executed on symbolic multi-unit kernels and multi-row inputs (every '
        'callee inlined, Dykstra loops unrolled for 0-2 iterations). Two obligations per output element: (dependency) its '
        'canonical expression mentions only the parameters and inputs of its own unit / row; (agreement) it is the same '
        'expression the same code yields on that unit / row alone. Both are exact statements about all kernels and inputs; '
        'permutation invariance is their corollary.'),
    'rule': 'one obligation = (function, configuration, unit or row, output element, dependency | agreement)',
    'bounds': 'units 2-3, batch 2; lattice shapes up to 2x2x2 incl. trusts/dominances/bounds; PWL 2-4 keypoints; linear dims <= 3; '
              'KFL sizes <= 3, dims <= 2, terms <= 2; Dykstra iterations 0-2',
    'exhaustive_tiers': {'quick': False, 'thorough': False},
    'trusted_base': ['vt operator contracts (axis / keepdims / broadcasting semantics, cross-checked in the other checks)',
                     'z3 and cvc5 (only when two expressions are not structurally identical)'],
    'assumptions': ['float arithmetic treated as exact real arithmetic',
                    'Aggregation over ragged tensors and premade model graphs are outside the operator contracts (not claimed)'],
}

if __name__ == '__main__':
  import sys
  from vt import prop
  sys.exit(prop.main(sys.modules[__name__]))
