"""C12 - assert_constraints accepts exactly the weights that meet the covered constraints.

The real assert_constraints functions are executed on symbolic weights and symbolic eps > 0; the
contract library's tf.Assert records each condition (precondition: scalar boolean, as eager
TensorFlow demands).  View of the result: ok = 1 if every recorded condition holds (the call
returns), 0 if one fails or the function raises.
  accepts-only-feasible:  ok == 1  =>  every covered constraint has slack >= -eps
  accepts-all-feasible :  every covered constraint holds (slack >= 0)  =>  ok == 1
"""
import itertools
import json

import numpy as np

from vt import ctx as C
from vt import expr as E
from vt import harness as H
from vt import load
from vt import tfc
from vt.expr import P, B
from vt.prop import Case
from spec import lattice as SL
from spec import pwl as SP
from contracts import linear as CLn

PROPERTY = 'C12'
SLACK_FACTOR = 2


def relax(clauses, eps):
  """slack >= -eps version of `p <= 0` clauses; |p| <= eps for equalities."""
  out = []
  for n, b in clauses:
    if b.kind == 'le':
      out.append((n, B.cmp('le', b.args[0] - eps)))
    elif b.kind == 'eq':
      p = b.args[0]
      out.append((n, B.cmp('le', p - eps) & B.cmp('le', -p - eps)))
    elif b.kind == 'const':
      out.append((n, b))
    else:
      raise ValueError('cannot relax %r' % (b,))
  return out


def _ok_tensor(b):
  a = np.empty((), dtype=object)
  a[()] = E.ite(b, P.const(1), P.const(0))
  return tfc.Tensor(a, tfc.float32)


class AssertContract(H.Contract):
  """Shared shape of the five contracts; subclasses give spec(args) -> clauses (slack form)."""
  inline = True

  def spec(self, *args, **kw):
    raise NotImplementedError

  def eps_of(self, *args, **kw):
    return kw.get('eps')

  def pre(self, *args, **kw):
    return [('eps>0', P.lift(self.eps_of(*args, **kw)) > 0)]

  def fresh_out(self, *args, **kw):
    return tfc.sym((), E.fresh_name('ok'))

  def view(self, out, *args, **kw):
    conds = [b for _, b in C.cur().asserts]
    return _ok_tensor(E.ball(conds))

  def raised(self, exc, *args, **kw):
    C.cur().notes.append('raised %s: %s' % (type(exc).__name__, exc))
    return _ok_tensor(E.FALSE)

  def native_view(self, nat):
    return 1.0 if 'ok' in nat else 0.0

  def post(self, out, *args, **kw):
    ok = P.lift(out.a[()]).eq(1)
    eps = P.lift(self.eps_of(*args, **kw))
    sp = self.spec(*args, **kw)
    cl = []
    # "violated by clearly more than eps": more than SLACK_FACTOR * eps in the spec's scaling of the
    # inequality (the code states dominance / joint monotonicity against a midpoint, i.e. with
    # half the slope-difference slack).
    for n, b in relax(sp, eps * SLACK_FACTOR):
      cl.append(('accepts-only-feasible:' + n, ok.implies(b)))
    cl.append(('accepts-all-feasible', H.conj(sp).implies(ok)))
    return cl


@H.register
class LatticeAssert(AssertContract):
  module = 'lattice_lib'
  qualname = 'assert_constraints'

  def spec(self, weights, lattice_sizes, monotonicities, edgeworth_trusts, trapezoid_trusts,
           monotonic_dominances, range_dominances, joint_monotonicities, joint_unimodalities,
           output_min=None, output_max=None, eps=1e-6):
    s = lattice_sizes
    cl = SL.mono(weights, s, monotonicities)
    cl += SL.edgeworth(weights, s, edgeworth_trusts)
    cl += SL.trapezoid(weights, s, trapezoid_trusts)
    cl += SL.monotonic_dominance(weights, s, monotonic_dominances)
    cl += SL.range_dominance(weights, s, range_dominances)
    cl += SL.joint_monotonicity(weights, s, joint_monotonicities)
    cl += SL.in_bounds(weights, s, output_min, output_max)
    return cl


@H.register
class PwlAssert(AssertContract):
  module = 'pwl_calibration_lib'
  qualname = 'assert_constraints'

  def spec(self, outputs, monotonicity, output_min, output_max, clamp_min=False, clamp_max=False,
           debug_tensors=None, eps=1e-6):
    a = tfc._t(outputs).a
    n, U = a.shape
    cl = []
    for u in range(U):
      col = [P.lift(a[i, u]) for i in range(n)]
      if output_min is not None:
        if clamp_min:
          cl.append(('clamp-min[u%d]' % u, E.pmin(*col).eq(output_min)))
        else:
          cl += [('bounds-min[y%d,u%d]' % (i, u), col[i] >= output_min) for i in range(n)]
      if output_max is not None:
        if clamp_max:
          cl.append(('clamp-max[u%d]' % u, E.pmax(*col).eq(output_max)))
        else:
          cl += [('bounds-max[y%d,u%d]' % (i, u), col[i] <= output_max) for i in range(n)]
      if monotonicity:
        for i in range(n - 1):
          cl.append(('monotone[y%d,u%d]' % (i, u),
                     (col[i] <= col[i + 1]) if monotonicity == 1 else (col[i] >= col[i + 1])))
    return cl


@H.register
class LinearAssert(AssertContract):
  module = 'linear_lib'
  qualname = 'assert_constraints'

  def spec(self, weights, monotonicities, monotonic_dominances, range_dominances, input_min,
           input_max, normalization_order, eps=1e-4):
    n = tfc._t(weights).a.shape[0]
    imin = input_min if input_min is not None else [None] * n
    imax = input_max if input_max is not None else [None] * n
    return CLn.linear_clauses(weights, monotonicities, monotonic_dominances, range_dominances,
                              imin, imax, normalization_order)

  def post(self, out, weights, monotonicities, monotonic_dominances, range_dominances, input_min,
           input_max, normalization_order, eps=1e-4):
    cl = AssertContract.post(self, out, weights, monotonicities, monotonic_dominances,
                             range_dominances, input_min, input_max, normalization_order, eps=eps)
    if normalization_order:
      # norm: accepted => | ||w|| - 1 | <= eps or numerically zero ; unit norm => accepted
      ok = P.lift(out.a[()]).eq(1)
      a = tfc._t(weights).a
      e = P.lift(eps)
      feas = H.conj(self.spec(weights, monotonicities, monotonic_dominances, range_dominances,
                              input_min, input_max, normalization_order))
      allunit = []
      for u in range(a.shape[1]):
        col = list(a[:, u])
        if normalization_order == 1:
          nrm = CLn.norm_of(col, 1)
          near = (nrm - 1 <= e) & (1 - nrm <= e)
          zero = nrm < P.const(1e-8)
          allunit.append(nrm.eq(1))
        else:
          sq = CLn.norm_of(col, 2)
          r = E.fn('root2', sq)     # the 2-norm: the non-negative root of the sum of squares
          C.cur().assume((r >= 0) & (r * r).eq(sq), 'definition of the 2-norm')
          near = (r - 1 <= e) & (1 - r <= e)
          zero = r < P.const(1e-8)
          allunit.append(sq.eq(1))
        cl.append(('accepts-only-feasible:norm[u%d]' % u, ok.implies(near | zero)))
      cl = [c for c in cl if c[0] != 'accepts-all-feasible']
      cl.append(('accepts-all-feasible', (feas & E.ball(allunit)).implies(ok)))
    return cl


@H.register
class CategoricalAssert(AssertContract):
  module = 'categorical_calibration_lib'
  qualname = 'assert_constraints'

  def spec(self, weights, output_min, output_max, monotonicities, debug_tensors=None, eps=1e-6):
    a = tfc._t(weights).a
    cl = CLn.order_clauses(weights, [tuple(p) for p in monotonicities or []])
    for i in range(a.shape[0]):
      for u in range(a.shape[1]):
        if output_min is not None:
          cl.append(('bounds-min[%d,u%d]' % (i, u), P.lift(a[i, u]) >= output_min))
        if output_max is not None:
          cl.append(('bounds-max[%d,u%d]' % (i, u), P.lift(a[i, u]) <= output_max))
    return cl


@H.register
class KflAssert(AssertContract):
  """kronecker_factored_lattice_lib.assert_constraints: sign-directed ordering along monotone
  dimensions (slack eps), product of per-dimension maxima <= 1 when both bounds are set (slack eps),
  non-negative weights when one bound is set (exact), scale range / sign (exact)."""
  module = 'kronecker_factored_lattice_lib'
  qualname = 'assert_constraints'

  def clauses(self, weights, units, scale, monotonicities, output_min, output_max, slack):
    from props.C07 import W, dims_of
    L, U, D, T = dims_of(weights, units)
    w = W(weights, L, U, D, T)
    sc = tfc._t(scale).a
    cl = []
    for u in range(U):
      for t in range(T):
        s = P.lift(sc[u, t])
        for d, m in enumerate(monotonicities or []):
          if not m:
            continue
          for i in range(L - 1):
            a, b = w(i, u, d, t), w(i + 1, u, d, t)
            cl.append(('ordered[i%d,u%d,d%d,t%d]' % (i, u, d, t),
                       ((s > 0).implies(b - a >= -slack)) & ((s < 0).implies(a - b >= -slack))))
        if output_min is not None and output_max is not None:
          prod = P.const(1)
          for d in range(D):
            prod = prod * E.pmax(*[E.pabs(w(i, u, d, t)) for i in range(L)])
          cl.append(('product-of-maxima<=1[u%d,t%d]' % (u, t), prod <= 1 + slack))
          bound = (P.lift(output_max) - P.lift(output_min)) / 2
          cl.append(('|scale|<=half-range[u%d,t%d]' % (u, t), (s <= bound) & (s >= -bound)))
        elif output_min is not None or output_max is not None:
          for d in range(D):
            for i in range(L):
              cl.append(('weight>=0[i%d,u%d,d%d,t%d]' % (i, u, d, t), w(i, u, d, t) >= 0))
          cl.append(('scale-sign[u%d,t%d]' % (u, t), (s >= 0) if output_min is not None else (s <= 0)))
    return cl

  def post(self, out, weights, units, scale, monotonicities, output_min, output_max, eps=1e-6):
    ok = P.lift(out.a[()]).eq(1)
    e = P.lift(eps)
    cl = [('accepts-only-feasible:' + n, ok.implies(b))
          for n, b in self.clauses(weights, units, scale, monotonicities, output_min, output_max, e)]
    exact = self.clauses(weights, units, scale, monotonicities, output_min, output_max, P.const(0))
    cl.append(('accepts-all-feasible', H.conj(exact).implies(ok)))
    return cl


def _eps():
  rng = getattr(C.cur(), 'concrete_rng', None) if C.active() else None
  if rng is not None:
    return rng.choice([1e-6, 0.25, 1.5])
  return P.var('eps')


def _bound(cfg, which):
  kind = cfg.get('bounds', 'none')
  rng = getattr(C.cur(), 'concrete_rng', None) if C.active() else None
  if which == 'min' and kind in ('min', 'both'):
    return P.var('output_min') if rng is None else -1.0
  if which == 'max' and kind in ('max', 'both'):
    return P.var('output_max') if rng is None else 2.0
  return None


def _tuples(x):
  return [tuple(t) for t in (x or [])]


class LatticeCase(Case):
  contract_key = 'lattice_lib.assert_constraints'

  def build(self, cfg):
    n = int(np.prod(cfg['sizes']))
    return (tfc.sym([n, cfg['units']], 'w'), list(cfg['sizes']), list(cfg['monos']),
            _tuples(cfg.get('ew')), _tuples(cfg.get('tz')), _tuples(cfg.get('mono_dom')),
            _tuples(cfg.get('range_dom')), _tuples(cfg.get('joint_mono')), None), dict(
                output_min=_bound(cfg, 'min'), output_max=_bound(cfg, 'max'), eps=_eps())


class PwlCase(Case):
  contract_key = 'pwl_calibration_lib.assert_constraints'

  def build(self, cfg):
    return (tfc.sym([cfg['nk'], cfg['units']], 'y'), cfg['mono'], _bound(cfg, 'min'),
            _bound(cfg, 'max')), dict(clamp_min=cfg.get('clamp_min', False),
                                      clamp_max=cfg.get('clamp_max', False), eps=_eps())


class LinearCase(Case):
  contract_key = 'linear_lib.assert_constraints'

  def build(self, cfg):
    return (tfc.sym([cfg['n'], cfg['units']], 'w'), list(cfg['monos']), _tuples(cfg.get('mono_dom')) or None,
            _tuples(cfg.get('range_dom')) or None, cfg.get('input_min'), cfg.get('input_max'),
            cfg.get('norm')), dict(eps=_eps())


class CategoricalCase(Case):
  contract_key = 'categorical_calibration_lib.assert_constraints'

  def build(self, cfg):
    return (tfc.sym([cfg['n'], cfg['units']], 'w'), _bound(cfg, 'min'), _bound(cfg, 'max'),
            [list(p) for p in cfg['pairs']] or None), dict(eps=_eps())


class KflCase(Case):
  contract_key = 'kronecker_factored_lattice_lib.assert_constraints'

  def build(self, cfg):
    L, U, D, T = cfg['L'], cfg['units'], cfg['dims'], cfg['terms']
    return (tfc.sym([1, L, U * D, T], 'w'), U, tfc.sym([U, T], 'scale'), list(cfg['monos']),
            _bound(cfg, 'min'), _bound(cfg, 'max')), dict(eps=_eps())


class LayerAssertCase(Case):
  """Layer.assert_constraints(eps): the real method is executed on the layer built by the real build()
  with symbolic weights; the recorded conditions must be equivalent (both directions, as above) to the
  spec instantiated with the LAYER's hyperparameters (canonicalised here, not by the repository) -
  catches a layer that forwards other or fewer hyperparameters to the library assertion."""
  contract_key = None
  xcheck = False

  def setup(self, cfg, c):
    c.int_cast_range = (0, 3)

  def _layer(self, cfg, c):
    from vt import kerasc
    from vt import utils_shim
    m = load.mod(cfg['module'])
    kw = {}
    for k, v in cfg['kwargs'].items():
      if k in ('edgeworth_trusts', 'trapezoid_trusts', 'monotonic_dominances', 'range_dominances', 'joint_monotonicities',
               'monotonicities') and isinstance(v, list) and v and isinstance(v[0], list):
        v = [tuple(t) for t in v]
      kw[k] = v
    weights = {}

    def provider(layer, name, shape, dt, init, cons):
      if not getattr(layer, '_vt_adding_trainable', True):
        return None
      return weights.setdefault((layer.name, name), tfc.sym(shape, E.fresh_name('w_' + name)))
    kerasc.WEIGHT_PROVIDER[0] = provider
    try:
      layer = getattr(m, cfg['cls'])(**kw)
      shp = cfg['input_shape']
      if isinstance(shp, dict):
        x = {k: tfc.sym([1] + list(v[1:]), 'x_' + k) for k, v in shp.items()}
        for t in x.values():
          for v in t.a.flat:
            c.assume((P.lift(v) >= 0) & (P.lift(v) <= 1), 'inputs in the first cell')
        layer(x)      # RTL builds its lattices on the first call
      else:
        layer.build(tfc.TensorShape(shp))
    finally:
      kerasc.WEIGHT_PROVIDER[0] = None
    return layer

  def _spec(self, layer, slack):
    """(clauses relaxed by slack, exact clauses) for one layer, from ITS hyperparameters."""
    from vt import utils_shim
    name = type(layer).__name__
    if name == 'Lattice':
      n = len(layer.lattice_sizes)
      args = (layer.kernel, list(layer.lattice_sizes),
              utils_shim.canon_monotonicities(layer.monotonicities, n) if layer.monotonicities else [0] * n,
              utils_shim.canon_trusts(layer.edgeworth_trusts) if layer.edgeworth_trusts else [],
              utils_shim.canon_trusts(layer.trapezoid_trusts) if layer.trapezoid_trusts else [],
              layer.monotonic_dominances or [], layer.range_dominances or [], layer.joint_monotonicities or [], None)
      sp = LatticeAssert().spec(*args, output_min=layer.output_min, output_max=layer.output_max)
      return relax(sp, slack * SLACK_FACTOR), sp
    if name == 'PWLCalibration':
      ys = SP.outputs(layer.kernel)
      if layer.is_cyclic:
        ys = [col + [col[0]] for col in ys]
      out = tfc.Tensor(np.array([[ys[u][i] for u in range(len(ys))] for i in range(len(ys[0]))], dtype=object), tfc.float32)
      sp = PwlAssert().spec(out, utils_shim.canon_monotonicity(layer.monotonicity), layer.output_min, layer.output_max,
                            clamp_min=layer.clamp_min, clamp_max=layer.clamp_max)
      if layer.impute_missing and layer.missing_output_value is None:
        sp = sp + [('missing:' + n, b) for n, b in PwlAssert().spec(layer.missing_output, 0, layer.output_min, layer.output_max)]
      return relax(sp, slack * SLACK_FACTOR), sp
    if name == 'CategoricalCalibration':
      sp = CategoricalAssert().spec(layer.kernel, layer.output_min, layer.output_max, layer.monotonicities)
      return relax(sp, slack * SLACK_FACTOR), sp
    if name == 'KroneckerFactoredLattice':
      D = int(tfc._t(layer.kernel).a.shape[2]) // layer.units
      monos = utils_shim.canon_monotonicities(layer.monotonicities, D) if layer.monotonicities else []
      k = KflAssert()
      return (k.clauses(layer.kernel, layer.units, layer.scale, monos, layer.output_min, layer.output_max, slack),
              k.clauses(layer.kernel, layer.units, layer.scale, monos, layer.output_min, layer.output_max, P.const(0)))
    raise tfc.NoContract('no layer-level assertion spec for %s' % name)

  def body(self, cfg, c):
    layer = self._layer(cfg, c)
    eps = P.var('eps')
    c.assume(eps > 0, 'eps > 0')
    before = len(c.asserts)
    try:
      layer.assert_constraints(eps=eps)
      conds = [b for _, b in c.asserts[before:]]
      ok = E.ball(conds)
    except (ValueError, TypeError, AttributeError) as e:
      c.notes.append('raised %s: %s' % (type(e).__name__, e))
      ok = E.FALSE
    subs = [layer]
    if type(layer).__name__ == 'RTL':
      subs = list(layer._lattice_layers.values())
    cl = []
    exact_all = []
    for sub in subs:
      relaxed, exact = self._spec(sub, eps)
      exact_all += exact
      for n, b in relaxed:
        cl.append(('accepts-only-feasible[%s]:%s' % (sub.name, n), ok.implies(b)))
    cl.append(('accepts-all-feasible', H.conj(exact_all).implies(ok)))
    cl.append(('some-condition-recorded', B.const(ok is E.FALSE or len(c.asserts) > before or not exact_all)))
    return cl


CASES = {'lattice': LatticeCase(), 'pwl': PwlCase(), 'linear': LinearCase(),
         'categorical': CategoricalCase(), 'kfl': KflCase(),
         'layer': LayerAssertCase()}


def configs(tier, rng):
  import props.C01 as C01
  import props.C06 as C06
  jobs = []
  bk = ['none', 'min', 'max', 'both']
  # lattice: reuse C01's configuration space (+ dominances / joint monotonicity)
  space = list(C01.base_space('quick'))
  rng.shuffle(space)
  picked = [dict(c) for c in C01.CORNERS]
  seen = {}
  for c in space:
    key = (tuple(c['sizes']), len(c['ew']), len(c['tz']))
    if seen.get(key, 0) < (1 if tier == 'quick' else 4):
      seen[key] = seen.get(key, 0) + 1
      picked.append(c)
  for i, base in enumerate(picked):
    full = C01.extras(dict(base), rng)
    for k in ('unimodalities', 'joint_uni'):
      full.pop(k, None)
    for units in ((1, 2) if tier == 'thorough' else (1 + i % 2,)):
      jobs.append(('lattice', dict(full, units=units, bounds=bk[i % 4])))
  # pwl
  for mono in (1, -1, 0):
    for bounds in bk:
      for cmin, cmax in itertools.product([False, True], repeat=2):
        if (cmin and bounds not in ('min', 'both')) or (cmax and bounds not in ('max', 'both')):
          continue
        for nk in ((2, 3) if tier == 'quick' else (2, 3, 4, 5)):
          for units in (1, 2):
            jobs.append(('pwl', dict(mono=mono, bounds=bounds, clamp_min=cmin, clamp_max=cmax,
                                     nk=nk, units=units)))
  # linear and categorical: reuse C06's spaces
  for cn, cfg in C06.configs(tier, rng):
    if cn == 'lp':
      jobs.append(('linear', cfg))
    elif cn == 'cp':
      jobs.append(('categorical', cfg))
  # layer-level assert_constraints (hyperparameter forwarding)
  T = lambda *ts: [list(t) for t in ts]
  layer_jobs = [
      dict(module='lattice_layer', cls='Lattice', input_shape=[None, 2],
           kwargs=dict(lattice_sizes=[2, 3], monotonicities=['increasing', 'increasing'], edgeworth_trusts=T((0, 1, 'positive')),
                       trapezoid_trusts=T((0, 1, 'positive')), output_min=0.0, output_max=2.0)),
      dict(module='lattice_layer', cls='Lattice', input_shape=[None, 2, 2],
           kwargs=dict(lattice_sizes=[2, 2], units=2, monotonicities=[1, 1], monotonic_dominances=T((0, 1)),
                       joint_monotonicities=T((0, 1)), output_max=1.0)),
      dict(module='lattice_layer', cls='Lattice', input_shape=[None, 2],
           kwargs=dict(lattice_sizes=[3, 2], monotonicities=[1, 1], range_dominances=T((0, 1)), output_min=-1.0)),
      dict(module='pwl_calibration_layer', cls='PWLCalibration', input_shape=[None, 2],
           kwargs=dict(input_keypoints=[0.0, 1.0, 3.0], units=2, monotonicity='decreasing', output_min=0.0, output_max=1.0,
                       clamp_min=True, impute_missing=True)),
      dict(module='pwl_calibration_layer', cls='PWLCalibration', input_shape=[None, 1],
           kwargs=dict(input_keypoints=[0.0, 1.0, 3.0], monotonicity='increasing', output_max=1.0, clamp_max=True)),
      dict(module='pwl_calibration_layer', cls='PWLCalibration', input_shape=[None, 1],
           kwargs=dict(input_keypoints=[0.0, 1.0, 2.0, 3.0], is_cyclic=True, output_min=0.0, output_max=1.0, impute_missing=True,
                       missing_input_value=-1.0)),
      dict(module='pwl_calibration_layer', cls='PWLCalibration', input_shape=[None, 2],
           kwargs=dict(input_keypoints=[0.0, 1.0, 3.0], units=2, monotonicity='increasing', output_min=0.0, output_max=1.0,
                       split_outputs=True)),
      dict(module='pwl_calibration_layer', cls='PWLCalibration', input_shape=[None, 1],
           kwargs=dict(input_keypoints=[0.0, 1.0, 3.0], output_min=0.0, output_max=1.0, input_keypoints_type='learned_interior')),
      dict(module='categorical_calibration_layer', cls='CategoricalCalibration', input_shape=[None, 2],
           kwargs=dict(num_buckets=3, units=2, output_min=0.0, output_max=1.0, monotonicities=T((0, 1), (1, 2)))),
      dict(module='kronecker_factored_lattice_layer', cls='KroneckerFactoredLattice', input_shape=[None, 2],
           kwargs=dict(lattice_sizes=2, num_terms=2, monotonicities=['increasing', 'none'], output_min=0.0, output_max=1.0)),
      dict(module='kronecker_factored_lattice_layer', cls='KroneckerFactoredLattice', input_shape=[None, 2, 2],
           kwargs=dict(lattice_sizes=3, units=2, num_terms=1, monotonicities=[1, 1], output_min=0.0)),
      dict(module='rtl_layer', cls='RTL', input_shape={'unconstrained': [None, 1], 'increasing': [None, 2]},
           kwargs=dict(num_lattices=2, lattice_rank=2, output_min=0.0, output_max=1.0, random_seed=3)),
      # groups of lattices without any monotone input still carry the output bounds
      dict(module='rtl_layer', cls='RTL', input_shape={'unconstrained': [None, 3]},
           kwargs=dict(num_lattices=2, lattice_rank=2, output_min=0.0, output_max=1.0, random_seed=1)),
      dict(module='rtl_layer', cls='RTL', input_shape={'unconstrained': [None, 3], 'increasing': [None, 1]},
           kwargs=dict(num_lattices=3, lattice_rank=2, output_max=2.0, random_seed=2)),
  ]
  for lj in layer_jobs:
    jobs.append(('layer', lj))
  # Kronecker-factored lattice
  for L, D in (((2, 1), (2, 2), (3, 2)) if tier == 'quick' else ((2, 1), (2, 2), (3, 2), (2, 3), (3, 3))):
    for units in (1, 2):
      for terms in (1, 2):
        for monos in itertools.product([0, 1], repeat=D):
          for bounds in bk:
            if tier == 'quick' and units == 2 and terms == 2 and (L, D) != (2, 2):
              continue
            jobs.append(('kfl', dict(L=L, dims=D, units=units, terms=terms, monos=list(monos), bounds=bounds)))
  out, seen = [], set()
  for j in jobs:
    key = json.dumps(j, sort_keys=True)
    if key not in seen:
      seen.add(key)
      out.append(j)
  return out


EVIDENCE = {
    'level': 'proof',
    'explanation': (
        'The real assert_constraints functions of lattice_lib, pwl_calibration_lib, linear_lib and '
        'categorical_calibration_lib are executed on symbolic weights and a symbolic eps > 0; the recorded tf.Assert '
        'conditions are proved equivalent (in the two directions stated by the property) to the conjunction of the '
        'covered constraints written index by index from the property text, for ALL weight tensors, per discrete '
        'configuration. Level `other`: bounded configuration enumeration; the KroneckerFactoredLattice / RTL / '
        'layer-level PWL assertions are covered under C07/C05 when built.'),
    'rule': ('one obligation = (function, configuration, direction, constraint instance); non-trivial = needed a '
             'solver call; distinct by (function, configuration, clause, path)'),
    'bounds': 'lattice rank <= 3 sizes <= 3, PWL keypoints <= 3/5, linear dims <= 3/4, categorical DAGs <= 4 nodes, units <= 2',
    'exhaustive_tiers': {'quick': False, 'thorough': False},
    'trusted_base': ['vt operator contracts incl. tf.Assert (scalar boolean precondition), cross-checked against '
                     'TensorFlow on every run (accept/raise outcome on random weights)', 'z3 and cvc5'],
    'assumptions': ['float arithmetic treated as exact real arithmetic',
                    'eager-mode semantics of tf.Assert: the call fails iff some condition is false'],
}

if __name__ == '__main__':
  import sys
  from vt import prop
  sys.exit(prop.main(sys.modules[__name__]))
