"""C03 - premade and composed models stay monotone and bounded after any training history.

Assume/guarantee decomposition (every link is a contract; C03 itself discharges the links marked *):

  histories -> weight states   TRUSTED Keras contract: after every optimizer update each variable is
                               replaced by var.constraint(var).  Reachable weight states are therefore
                               images of the constraint objects the REAL layer code attaches in build().
  constraint image             the __call__ contracts of the constraint classes, proved against the real
                               projection code in C01 / C04 / C06 / C07 (only the clause families that are
                               proved there are assumed here: families listed as known findings of those
                               properties are NOT assumed for the configurations they concern).
* layer invariant              the abstract contract of each layer's call() needs "weights satisfy the
                               invariant of the LAYER's own hyperparameters"; obligation discharged from
                               the image of the CONSTRAINT's hyperparameters (catches a build() that wires
                               other hyperparameters into the constraint than the layer evaluates with).
* abstract call contracts      relational (two batch rows) contracts: bounded outputs, monotone in the
                               constrained inputs, equal outputs for equal inputs.  For PWLCalibration,
                               CategoricalCalibration and Linear they are verified here against the real
                               call() code; for Lattice and KroneckerFactoredLattice they are the lemmas of
                               C02 (call == interpolation, interpolation of a monotone / bounded kernel is
                               monotone / bounded) and C07, cited, with a mechanical size-coverage clause.
* composition                  the REAL premade.py / premade_lib.py / rtl_layer.py / parallel_combination
                               code is executed on a symbolic two-row batch with every layer call() replaced
                               by its abstract contract (callers are checked against callee contracts):
                               input-range preconditions (calibrator range inside lattice range) and the
                               end-to-end clauses of the property are obligations for ALL weights and inputs.

Right after construction = C10 (initializers satisfy the invariants); restored weights = C11.
"""
import itertools
import json

import numpy as np

from vt import ctx as C
from vt import expr as E
from vt import harness as H
from vt import kerasc
from vt import load
from vt import tfc
from vt import utils_shim
from vt.expr import P, B
from vt.prop import Case
import contracts.lattice as CLAT
import contracts.pwl as CPWL
import contracts.linear as CLIN
import spec.lattice as SL
import spec.pwl as SP
from props import C07 as PC07

PROPERTY = 'C03'
NORM_EPS = 1e-8      # linear_lib._NORMALIZATION_EPS (re-read from the source in _norm_eps())


def _norm_eps():
  return float(getattr(load.mod('linear_lib'), '_NORMALIZATION_EPS', NORM_EPS))


# ------------------------------------------------------------------ reachable weight states

_CONS_CONTRACT = {
    'LatticeConstraints': 'lattice_layer.LatticeConstraints.__call__',
    'PWLCalibrationConstraints': 'pwl_calibration_layer.PWLCalibrationConstraints.__call__',
    'NaiveBoundsConstraints': 'pwl_calibration_layer.NaiveBoundsConstraints.__call__',
    'LinearConstraints': 'linear_layer.LinearConstraints.__call__',
    'CategoricalCalibrationConstraints': 'categorical_calibration_layer.CategoricalCalibrationConstraints.__call__',
}


def _not_proved(cons, name):
  """Clause families of a constraint contract that are NOT proved on the unchanged tree (known
  findings of C01 / C04) or not needed here; they are not assumed."""
  if name == 'shape' or name.startswith('feasible=>unchanged') or name.startswith('clamp'):
    return True
  cn = type(cons).__name__
  if cn == 'PWLCalibrationConstraints':
    mono = utils_shim.canon_monotonicity(cons.monotonicity)
    conv = utils_shim.canon_convexity(cons.convexity)
    bounded = cons.output_min is not None or cons.output_max is not None
    if mono != 0 and conv != 0 and bounded and name.startswith('bounds-'):
      return True    # F-C04a
  if cn == 'LatticeConstraints':
    monos = utils_shim.canon_monotonicities(cons.monotonicities, len(cons.lattice_sizes)) if cons.monotonicities else []
    ew = utils_shim.canon_trusts(cons.edgeworth_trusts) if cons.edgeworth_trusts else []
    tz = utils_shim.canon_trusts(cons.trapezoid_trusts) if cons.trapezoid_trusts else []
    if ew and any(monos[t[1]] == 1 for t in tz) and name.startswith('mono['):
      return True    # F-C01
  return False


def reachable(c, layer, name, shape, dt, cons, notes):
  """A symbolic weight in the image of the variable's own constraint (its proved contract)."""
  tag = '%s/%s' % (layer.name, name)
  if cons is None:
    return tfc.sym(shape, E.fresh_name('w_' + name))
  cn = type(cons).__name__
  if cn in ('KroneckerFactoredLatticeConstraints', 'ScaleConstraints'):
    # the KFL invariant is cited from C07 as a whole (see KflCall); the weights stay free here
    return tfc.sym(shape, E.fresh_name('w_' + name))
  if cn == 'NonNeg':
    w = tfc.sym(shape, E.fresh_name('w_' + name))
    for v in w.a.flat:
      c.assume(P.lift(v) >= 0, 'NonNeg image')
    return w
  key = _CONS_CONTRACT.get(cn)
  if key is None or key not in H.REGISTRY:
    raise tfc.NoContract('no contract for weight constraint %s of %s' % (cn, tag))
  ct = H.REGISTRY[key]
  w0 = tfc.sym(shape, E.fresh_name('h_' + name))
  for nm, b in ct.pre(cons, w0):
    c.oblige('constraint-precondition[%s]:%s' % (tag, nm), b, 'pre')
  out = ct.fresh_out(cons, w0)
  for nm, b in ct.post(out, cons, w0):
    if _not_proved(cons, nm):
      if not (nm == 'shape' or nm.startswith('feasible=>unchanged')):
        notes.add('%s: clause family %s of %s is not assumed (not proved in its own property)' % (tag, nm.split('[')[0], cn))
      continue
    c.assume(b, 'image of %s: %s' % (cn, nm))
  return out


# ------------------------------------------------------------------ abstract call contracts

def _rows_pairs(n):
  return [(r, s) for r in range(n) for s in range(n) if r != s]


class AbstractCall(object):
  """pre(layer, inputs) -> obligations; out(layer, inputs) -> fresh outputs; post(...) -> facts."""
  cls = None


def _conj(bs):
  bs = list(bs)
  return E.ball(bs) if bs else E.TRUE


class LatticeCall(AbstractCall):
  module, cls = 'lattice_layer', 'Lattice'

  def view(self, layer, inputs):
    """X[r][u][d] polynomials."""
    rank, U = len(layer.lattice_sizes), layer.units
    if isinstance(inputs, list):
      if len(inputs) != rank:
        raise ValueError('lattice expects %d inputs' % rank)
      ts = [tfc._t(t) for t in inputs]
      nb = ts[0].a.shape[0]
      return [[[P.lift(ts[d].a[r, u if ts[d].a.shape[1] > 1 else 0]) for d in range(rank)] for u in range(U)]
              for r in range(nb)]
    x = tfc._t(inputs)
    nb = x.a.shape[0]
    if x.a.ndim == 2:
      return [[[P.lift(x.a[r, d]) for d in range(rank)] for u in range(U)] for r in range(nb)]
    return [[[P.lift(x.a[r, u, d]) for d in range(rank)] for u in range(U)] for r in range(nb)]

  def monos(self, layer):
    n = len(layer.lattice_sizes)
    return utils_shim.canon_monotonicities(layer.monotonicities, n) if layer.monotonicities else [0] * n

  def invariant(self, layer):
    sizes = list(layer.lattice_sizes)
    cl = SL.mono(layer.kernel, sizes, self.monos(layer), tag='kernel-monotone')
    cl += SL.in_bounds(layer.kernel, sizes, layer.output_min, layer.output_max, tag='kernel-in-bounds')
    return cl

  def pre(self, layer, inputs):
    cl = list(self.invariant(layer))
    X = self.view(layer, inputs)
    if not layer.clip_inputs:
      for r, row in enumerate(X):
        for u, xs in enumerate(row):
          for d, x in enumerate(xs):
            cl.append(('input-inside-lattice-range[r%d,u%d,d%d]' % (r, u, d),
                       (x >= 0) & (x <= layer.lattice_sizes[d] - 1)))
    return cl

  def out(self, layer, inputs):
    X = self.view(layer, inputs)
    return tfc.sym([len(X), layer.units], E.fresh_name('lat_out'))

  def post(self, layer, inputs, out):
    X = self.view(layer, inputs)
    monos = self.monos(layer)
    cl = []
    for r in range(len(X)):
      for u in range(layer.units):
        o = P.lift(out.a[r, u])
        if layer.output_min is not None:
          cl.append(('out>=min', o >= layer.output_min))
        if layer.output_max is not None:
          cl.append(('out<=max', o <= layer.output_max))
    for r, s in _rows_pairs(len(X)):
      for u in range(layer.units):
        le = _conj([(X[r][u][d] <= X[s][u][d]) if monos[d] == 1 else X[r][u][d].eq(X[s][u][d])
                    for d in range(len(monos))])
        cl.append(('monotone', le.implies(P.lift(out.a[r, u]) <= P.lift(out.a[s, u]))))
    return cl

  def cited(self, layer):
    """Sizes for which C02 proves call == interpolation and the monotone / bounds lemmas."""
    from props import C02
    sizes = list(layer.lattice_sizes)
    import random
    jobs = C02.configs('thorough', random.Random(0))
    have_lemma = any(n == 'lemma' and j.get('lemma') in ('monotone-hypercube', 'monotone-simplex') and j.get('sizes') == sizes
                     for n, j in jobs)
    return [('cited:C02-covers-lattice-sizes%s' % (sizes,), B.const(have_lemma or not any(self.monos(layer))))]


class KflCall(LatticeCall):
  module, cls = 'kronecker_factored_lattice_layer', 'KroneckerFactoredLattice'

  def view(self, layer, inputs):
    rank, U = layer.dims if hasattr(layer, 'dims') else None, layer.units
    if isinstance(inputs, list):
      ts = [tfc._t(t) for t in inputs]
      rank = len(ts)
      nb = ts[0].a.shape[0]
      return [[[P.lift(ts[d].a[r, u if ts[d].a.shape[1] > 1 else 0]) for d in range(rank)] for u in range(U)]
              for r in range(nb)]
    x = tfc._t(inputs)
    nb, rank = x.a.shape[0], x.a.shape[-1]
    if x.a.ndim == 2:
      return [[[P.lift(x.a[r, d]) for d in range(rank)] for u in range(U)] for r in range(nb)]
    return [[[P.lift(x.a[r, u, d]) for d in range(rank)] for u in range(U)] for r in range(nb)]

  def rank(self, layer, inputs):
    return len(self.view(layer, inputs)[0][0])

  def pre(self, layer, inputs):
    X = self.view(layer, inputs)
    rank = len(X[0][0])
    monos = utils_shim.canon_monotonicities(layer.monotonicities, rank) if layer.monotonicities else [0] * rank
    cl = []
    # the C07 invariant is "kernel and scale constraints of THESE hyperparameters have been applied"
    kc, sc = getattr(layer.kernel, 'constraint', None), getattr(layer.scale, 'constraint', None)
    need_k = any(monos) or layer.output_min is not None or layer.output_max is not None
    need_s = layer.output_min is not None or layer.output_max is not None
    ok_k = (not need_k) or (type(kc).__name__ == 'KroneckerFactoredLatticeConstraints' and kc.units == layer.units and
                            (utils_shim.canon_monotonicities(kc.monotonicities, rank) if kc.monotonicities else [0] * rank) == monos
                            and kc.output_min == layer.output_min and kc.output_max == layer.output_max and kc.scale is layer.scale)
    ok_s = (not need_s) or (type(sc).__name__ == 'ScaleConstraints' and sc.output_min == layer.output_min and
                            sc.output_max == layer.output_max)
    cl.append(('kernel-constraint-has-the-layer-hyperparameters', B.const(bool(ok_k))))
    cl.append(('scale-constraint-has-the-layer-hyperparameters', B.const(bool(ok_s))))
    if not layer.clip_inputs:
      for r, row in enumerate(X):
        for u, xs in enumerate(row):
          for d, x in enumerate(xs):
            cl.append(('input-inside-lattice-range[r%d,u%d,d%d]' % (r, u, d), (x >= 0) & (x <= layer.lattice_sizes - 1)))
    return cl

  def monos(self, layer):
    return self._monos

  def post(self, layer, inputs, out):
    rank = self.rank(layer, inputs)
    self._monos = utils_shim.canon_monotonicities(layer.monotonicities, rank) if layer.monotonicities else [0] * rank
    return LatticeCall.post(self, layer, inputs, out)

  def cited(self, layer):
    return [('cited:C07-covers-kfl-size[%d]' % layer.lattice_sizes, B.const(layer.lattice_sizes in (2, 3)))]


class PwlCall(AbstractCall):
  module, cls = 'pwl_calibration_layer', 'PWLCalibration'

  def view(self, layer, inputs):
    if isinstance(inputs, (list, tuple)):
      raise tfc.NoContract('PWLCalibration with an is_missing tensor is not used by the composed models')
    x = tfc._t(inputs)
    nb = x.a.shape[0]
    return [[P.lift(x.a[r, u if x.a.shape[1] > 1 else 0]) for u in range(layer.units)] for r in range(nb)]

  def missing(self, layer, x):
    if layer.impute_missing and layer.missing_input_value is not None:
      return x.eq(layer.missing_input_value)
    return E.FALSE

  def mono(self, layer):
    return utils_shim.canon_monotonicity(layer.monotonicity)

  def invariant(self, layer):
    # learned interior keypoints: same invariant; the contract then rests on C05 (keypoints ordered for any
    # logits, call == hat form through them, hat form monotone / bounded for ANY ordered keypoints)
    k = layer.kernel
    if layer.is_cyclic:
      raise tfc.NoContract('cyclic calibrators are not used by the composed models')
    cl = SP.monotone(k, self.mono(layer), tag='keypoint-outputs-monotone')
    cl += SP.in_bounds(k, layer.output_min, layer.output_max, tag='keypoint-outputs-in-bounds')
    if layer.impute_missing:
      mo = layer.missing_output if layer.missing_output_value is None else None
      for u in range(layer.units):
        v = P.lift(tfc._t(mo).a[0, u]) if mo is not None else P.lift(layer.missing_output_value)
        if layer.output_min is not None:
          cl.append(('missing-output>=min[u%d]' % u, v >= layer.output_min))
        if layer.output_max is not None:
          cl.append(('missing-output<=max[u%d]' % u, v <= layer.output_max))
    return cl

  def pre(self, layer, inputs):
    self.view(layer, inputs)
    return self.invariant(layer)

  def out(self, layer, inputs):
    X = self.view(layer, inputs)
    t = tfc.sym([len(X), layer.units], E.fresh_name('pwl_out'))
    return t

  def shape_out(self, layer, t):
    if layer.split_outputs and layer.units > 1:
      return tfc.split(t, layer.units, axis=1)
    return t

  def post(self, layer, inputs, out):
    X = self.view(layer, inputs)
    m = self.mono(layer)
    cl = []
    for r in range(len(X)):
      for u in range(layer.units):
        o = P.lift(out.a[r, u])
        if layer.output_min is not None:
          cl.append(('out>=min', o >= layer.output_min))
        if layer.output_max is not None:
          cl.append(('out<=max', o <= layer.output_max))
    for r, s in _rows_pairs(len(X)):
      for u in range(layer.units):
        a, b = X[r][u], X[s][u]
        oa, ob = P.lift(out.a[r, u]), P.lift(out.a[s, u])
        cl.append(('function', a.eq(b).implies(oa.eq(ob))))
        if m != 0:
          ok = ~self.missing(layer, a) & ~self.missing(layer, b)
          cl.append(('monotone', (ok & (a <= b)).implies((oa <= ob) if m == 1 else (oa >= ob))))
    return cl


class CatCall(AbstractCall):
  module, cls = 'categorical_calibration_layer', 'CategoricalCalibration'

  def view(self, layer, inputs):
    x = tfc._t(inputs)
    nb = x.a.shape[0]
    ids = []
    for r in range(nb):
      row = []
      for u in range(layer.units):
        v = P.lift(x.a[r, u if x.a.shape[1] > 1 else 0])
        if not v.is_const:
          raise tfc.NoContract('categorical inputs are enumerated, not symbolic')
        i = int(v.cval)
        if layer.default_input_value is not None and i == int(layer.default_input_value):
          i = layer.num_buckets - 1
        if not 0 <= i < layer.num_buckets:
          raise ValueError('categorical id outside the vocabulary (outside the property\'s input domain)')
        row.append(i)
      ids.append(row)
    return ids

  def closure(self, layer):
    n = layer.num_buckets
    le = [[i == j for j in range(n)] for i in range(n)]
    for a, b in layer.monotonicities or []:
      le[a][b] = True
    for k in range(n):
      for i in range(n):
        for j in range(n):
          if le[i][k] and le[k][j]:
            le[i][j] = True
    return le

  def invariant(self, layer):
    k = tfc._t(layer.kernel).a
    cl = []
    for u in range(layer.units):
      for (a, b) in layer.monotonicities or []:
        cl.append(('bucket-order[%d<=%d,u%d]' % (a, b, u), P.lift(k[a, u]) <= P.lift(k[b, u])))
      for i in range(layer.num_buckets):
        if layer.output_min is not None:
          cl.append(('bucket>=min[%d,u%d]' % (i, u), P.lift(k[i, u]) >= layer.output_min))
        if layer.output_max is not None:
          cl.append(('bucket<=max[%d,u%d]' % (i, u), P.lift(k[i, u]) <= layer.output_max))
    return cl

  def pre(self, layer, inputs):
    self.view(layer, inputs)
    return self.invariant(layer)

  def out(self, layer, inputs):
    ids = self.view(layer, inputs)
    return tfc.sym([len(ids), layer.units], E.fresh_name('cat_out'))

  def shape_out(self, layer, t):
    if layer.split_outputs and layer.units > 1:
      return tfc.split(t, layer.units, axis=1)
    return t

  def post(self, layer, inputs, out):
    ids = self.view(layer, inputs)
    le = self.closure(layer)
    cl = []
    for r in range(len(ids)):
      for u in range(layer.units):
        o = P.lift(out.a[r, u])
        if layer.output_min is not None:
          cl.append(('out>=min', o >= layer.output_min))
        if layer.output_max is not None:
          cl.append(('out<=max', o <= layer.output_max))
    for r, s in _rows_pairs(len(ids)):
      for u in range(layer.units):
        a, b = ids[r][u], ids[s][u]
        oa, ob = P.lift(out.a[r, u]), P.lift(out.a[s, u])
        if a == b:
          cl.append(('function', oa.eq(ob)))
        elif le[a][b]:
          cl.append(('ordered', oa <= ob))
    return cl


class LinearCall(AbstractCall):
  module, cls = 'linear_layer', 'Linear'

  def view(self, layer, inputs):
    x = tfc._t(inputs)
    n, U = layer.num_input_dims, layer.units
    nb = x.a.shape[0]
    if x.a.ndim == 2:
      return [[[P.lift(x.a[r, i]) for i in range(n)] for u in range(U)] for r in range(nb)]
    return [[[P.lift(x.a[r, u, i]) for i in range(n)] for u in range(U)] for r in range(nb)]

  def monos(self, layer):
    return utils_shim.canon_monotonicities(layer.monotonicities, layer.num_input_dims) if layer.monotonicities else [0] * layer.num_input_dims

  def averaging(self, layer):
    return (layer.normalization_order == 1 and all(m == 1 for m in self.monos(layer)) and not layer.use_bias and
            layer.clip_value_min is None and layer.clip_value_max is None)

  def invariant(self, layer):
    k = tfc._t(layer.kernel).a
    cl = []
    for u in range(layer.units):
      for i, m in enumerate(self.monos(layer)):
        if m == 1:
          cl.append(('weight>=0[%d,u%d]' % (i, u), P.lift(k[i, u]) >= 0))
        elif m == -1:
          cl.append(('weight<=0[%d,u%d]' % (i, u), P.lift(k[i, u]) <= 0))
      if self.averaging(layer):
        tot = sum((P.lift(k[i, u]) for i in range(k.shape[0])), P.const(0))
        cl.append(('weights-sum-to-one-or-are-numerically-zero[u%d]' % u, tot.eq(1) | (tot < _norm_eps())))
    return cl

  def pre(self, layer, inputs):
    return self.invariant(layer)

  def out(self, layer, inputs):
    X = self.view(layer, inputs)
    return tfc.sym([len(X), layer.units], E.fresh_name('lin_out'))

  def post(self, layer, inputs, out):
    X = self.view(layer, inputs)
    monos = self.monos(layer)
    eps = _norm_eps()
    cl = []
    if self.averaging(layer):
      for r in range(len(X)):
        for u in range(layer.units):
          o = P.lift(out.a[r, u])
          lo, hi = E.pmin(*X[r][u]) if len(X[r][u]) > 1 else X[r][u][0], E.pmax(*X[r][u]) if len(X[r][u]) > 1 else X[r][u][0]
          avg = (o >= lo) & (o <= hi)
          zero = (o >= E.pmin(lo, 0) * eps) & (o <= E.pmax(hi, 0) * eps)
          cl.append(('weighted-average-or-numerically-zero-weights', avg | zero))
          # ghost flag: 1 = the weights were normalised (the weighted-average case); used to state the
          # end-to-end bound clause outside the region of known finding F-C03a
          if C.active():
            gv = P.var(E.fresh_name('normalised'))
            C.cur().__dict__.setdefault('_c03_normalised', []).append(gv)
            cl.append(('ghost', (gv.eq(1) | gv.eq(0)) & (gv.eq(1).implies(avg))))
    for r, s in _rows_pairs(len(X)):
      for u in range(layer.units):
        le = _conj([(X[r][u][i] <= X[s][u][i]) if monos[i] == 1 else
                    ((X[r][u][i] >= X[s][u][i]) if monos[i] == -1 else X[r][u][i].eq(X[s][u][i]))
                    for i in range(len(monos))])
        cl.append(('monotone', le.implies(P.lift(out.a[r, u]) <= P.lift(out.a[s, u]))))
    return cl


ABSTRACT = [LatticeCall(), KflCall(), PwlCall(), CatCall(), LinearCall()]


class _Stubs(object):
  """Replaces call() of the five layer classes by assert-pre / havoc / assume-post."""

  def __init__(self, c, log):
    self.c, self.log, self.saved = c, log, []

  def __enter__(self):
    for ac in ABSTRACT:
      cls = getattr(load.mod(ac.module), ac.cls)
      self.saved.append((cls, cls.__dict__['call']))
      setattr(cls, 'call', self._make(ac))
    return self

  def __exit__(self, *a):
    for cls, real in self.saved:
      setattr(cls, 'call', real)

  def _make(self, ac):
    c, log = self.c, self.log

    def call(layer, inputs, *a, **k):
      n = len(log)
      for nm, b in ac.pre(layer, inputs):
        c.oblige('%s(%s)#%d:pre:%s' % (ac.cls, layer.name, n, nm), b, 'pre')
      out = ac.out(layer, inputs)
      for nm, b in ac.post(layer, inputs, out):
        c.assume(b, 'post %s(%s):%s' % (ac.cls, layer.name, nm))
      log.append((ac, layer, inputs, out))
      return ac.shape_out(layer, out) if hasattr(ac, 'shape_out') else out
    return call


# ------------------------------------------------------------------ model specifications (JSON)

def feature_configs(cf, feats):
  out = []
  for f in feats:
    kw = dict(name=f['name'], lattice_size=f.get('lattice_size', 2))
    if f['kind'] == 'cat':
      kw.update(num_buckets=f['buckets'], monotonicity=[tuple(p) for p in f.get('pairs') or []] or None,
                default_value=f.get('default'))
    else:
      kw.update(monotonicity=f.get('mono', 'none'), pwl_calibration_input_keypoints=list(f.get('keypoints', [0.0, 1.0, 2.0])),
                pwl_calibration_num_keypoints=len(f.get('keypoints', [0.0, 1.0, 2.0])), default_value=f.get('default'),
                pwl_calibration_convexity=f.get('convexity', 'none'),
                pwl_calibration_always_monotonic=f.get('always_monotonic', False),
                pwl_calibration_clamp_min=f.get('clamp_min', False), pwl_calibration_clamp_max=f.get('clamp_max', False),
                pwl_calibration_input_keypoints_type=f.get('keypoints_type', 'fixed'))
      if f.get('unimodality'):
        kw['unimodality'] = f['unimodality']
      if f.get('trust'):
        kw['reflects_trust_in'] = [cf.TrustConfig(feature_name=t[0], trust_type=t[1], direction=t[2]) for t in f['trust']]
      if f.get('dominates'):
        kw['dominates'] = [cf.DominanceConfig(feature_name=n, dominance_type='monotonic') for n in f['dominates']]
    out.append(cf.FeatureConfig(**kw))
  return out


def model_config(cf, spec):
  fcs = feature_configs(cf, spec['features'])
  kw = dict(spec.get('model', {}))
  kw['feature_configs'] = fcs
  kind = spec['kind']
  if kind == 'linear':
    return cf.CalibratedLinearConfig(**kw)
  if kind == 'lattice':
    return cf.CalibratedLatticeConfig(**kw)
  if kind == 'ensemble':
    return cf.CalibratedLatticeEnsembleConfig(**kw)
  raise ValueError(kind)


def build_model(pm, cf, spec):
  mc = model_config(cf, spec)
  cls = {'linear': pm.CalibratedLinear, 'lattice': pm.CalibratedLattice, 'ensemble': pm.CalibratedLatticeEnsemble}[spec['kind']]
  return cls(mc)


def build_stack(tfl_mods, spec, inputs):
  """Calibrators -> Lattice / Linear assembled by hand from the layers (README pattern)."""
  pwl, cat, lat, lin, par = tfl_mods
  feats = spec['features']
  cals = []
  sizes = [f.get('lattice_size', 2) for f in feats]
  to_lattice = spec['top'] == 'lattice'
  for f in feats:
    hi = float(f.get('lattice_size', 2) - 1) if to_lattice else 1.0
    hi = f.get('cal_max', hi)
    if f['kind'] == 'cat':
      cals.append(cat.CategoricalCalibration(num_buckets=f['buckets'], output_min=0.0, output_max=hi,
                                             monotonicities=[tuple(p) for p in f.get('pairs') or []] or None,
                                             default_input_value=f.get('default')))
    else:
      cals.append(pwl.PWLCalibration(input_keypoints=list(f.get('keypoints', [0.0, 1.0, 2.0])), output_min=0.0, output_max=hi,
                                     monotonicity=f.get('mono', 'none'), impute_missing=f.get('default') is not None,
                                     missing_input_value=f.get('default')))
  if spec.get('parallel', True):
    comb = par.ParallelCombination(cals, single_output=True)
    z = comb(inputs)
  else:
    z = tfc.concat([cl(x) for cl, x in zip(cals, inputs)], axis=1)
  monos = ['increasing' if (f['kind'] == 'cat' and f.get('pairs')) or f.get('mono', 'none') != 'none' else 'none' for f in feats]
  if to_lattice:
    top = lat.Lattice(lattice_sizes=sizes, monotonicities=monos, output_min=spec.get('output_min'), output_max=spec.get('output_max'),
                      clip_inputs=spec.get('clip_inputs', True), interpolation=spec.get('interpolation', 'hypercube'))
  else:
    top = lin.Linear(num_input_dims=len(feats), monotonicities=monos, use_bias=spec.get('use_bias', True),
                     normalization_order=spec.get('normalization_order'))
  return top(z)


# ------------------------------------------------------------------ symbolic execution of a model

def _inputs_for(spec, vary, cat_ids, c):
  """Two batch rows per feature: the varied feature differs (ordered), all others are equal."""
  tensors = {}
  for f in spec['features']:
    nm = f['name']
    if f['kind'] == 'cat':
      if vary and vary[0] == nm:
        a, b = vary[1]
      else:
        a = b = cat_ids.get(nm, 0)
      tensors[nm] = tfc.convert_to_tensor([[a], [b]], dtype=tfc.int32)
    else:
      x0 = P.var('x_' + nm)
      if vary and vary[0] == nm:
        x1 = P.var('x2_' + nm)
        d = vary[1]
        c.assume((x0 <= x1) if d == 1 else (x0 >= x1), 'the varied feature is ordered')
        if f.get('default') is not None:
          c.assume(x0.ne(f['default']) & x1.ne(f['default']), 'the varied feature is not missing')
      else:
        x1 = x0
      tensors[nm] = tfc.Tensor(np.array([[x0], [x1]], dtype=object), tfc.float32)
  return tensors


def run_model(spec, vary, cat_ids, c, want_layers=False):
  """Executes the real model-building code on the symbolic batch; returns (output tensor, log, layers, notes)."""
  pm, cf = load.mod('premade'), load.mod('configs')
  notes = set()
  tensors = _inputs_for(spec, vary, cat_ids, c)

  def provider(layer, name, shape, dt, init, cons):
    if not getattr(layer, '_vt_adding_trainable', True):
      return None     # never updated by an optimizer: stays at its initial value
    return reachable(c, layer, name, shape, dt, cons, notes)

  def inp(name, shape, dt):
    for f in spec['features']:
      if name is not None and name.endswith('_' + f['name']):
        return tensors[f['name']]
    raise tfc.NoContract('unexpected keras.Input %r' % (name,))
  layers, log = [], []
  kerasc.WEIGHT_PROVIDER[0], kerasc.INPUT_PROVIDER[0], kerasc.LAYER_RECORDER[0] = provider, inp, layers
  try:
    with _Stubs(c, log):
      if spec['kind'] == 'stack':
        mods = [load.mod(m) for m in ('pwl_calibration_layer', 'categorical_calibration_layer', 'lattice_layer', 'linear_layer',
                                      'parallel_combination_layer')]
        out = build_stack(mods, spec, [tensors[f['name']] for f in spec['features']])
      else:
        out = build_model(pm, cf, spec).outputs
  finally:
    kerasc.WEIGHT_PROVIDER[0] = kerasc.INPUT_PROVIDER[0] = kerasc.LAYER_RECORDER[0] = None
  return tfc._t(out), log, layers, notes


def _bounds_of(spec):
  if spec['kind'] == 'stack':
    if spec['top'] == 'lattice':
      return spec.get('output_min'), spec.get('output_max')
    return None, None
  m = spec.get('model', {})
  return m.get('output_min'), m.get('output_max')


_NATIVE_SEARCH = '''
import itertools, json
import numpy as np
spec, vary, cat_ids = args
pm = mod('premade'); cf = mod('configs')
@@HELPERS@@
keras = mod('lattice_layer').keras
rng = np.random.RandomState(3)
if spec['kind'] == 'stack':
  mods = [mod(m) for m in ('pwl_calibration_layer', 'categorical_calibration_layer', 'lattice_layer', 'linear_layer',
                           'parallel_combination_layer')]
  ins = [keras.Input(shape=(1,), dtype=('int32' if f['kind'] == 'cat' else 'float32')) for f in spec['features']]
  class _T(object):
    @staticmethod
    def concat(xs, axis): return keras.layers.Concatenate(axis=axis)(xs)
  tfc = _T
  model = keras.Model(ins, build_stack(mods, spec, ins))
else:
  model = build_model(pm, cf, spec)
lo = spec.get('output_min') if spec['kind'] == 'stack' else spec.get('model', {}).get('output_min')
hi = spec.get('output_max') if spec['kind'] == 'stack' else spec.get('model', {}).get('output_max')
feats = spec['features']

def points(n):
  cols = []
  for f in feats:
    if f['kind'] == 'cat':
      ids = list(range(f['buckets'] - (1 if f.get('default') is not None else 0))) + ([f['default']] if f.get('default') is not None else [])
      cols.append(rng.choice(ids, size=n).astype('int32').reshape(-1, 1))
    else:
      kp = f.get('keypoints', [0.0, 1.0, 2.0])
      v = rng.uniform(kp[0] - 1.0, kp[-1] + 1.0, size=n)
      if f.get('default') is not None:
        v[rng.rand(n) < 0.15] = f['default']
      cols.append(v.astype('float32').reshape(-1, 1))
  return cols

worst = {}
def note(kind, amount, detail):
  if kind not in worst or amount > worst[kind]['amount']:
    worst[kind] = {'kind': kind, 'amount': float(amount), 'detail': detail}

states = [('all weights -5', lambda s: -5.0 * np.ones(s)), ('all weights +5', lambda s: 5.0 * np.ones(s)),
          ('normal*10', lambda s: 10.0 * rng.standard_normal(s)), ('normal*10 (2)', lambda s: 10.0 * rng.standard_normal(s)),
          ('alternating +-20', lambda s: 20.0 * np.resize([1.0, -1.0], int(np.prod(s))).reshape(s)), ('initial', None),
          ('first row +40, rest normal*10', lambda s: np.concatenate([40.0 * np.ones((1,) + tuple(s[1:])), 10.0 * rng.standard_normal((s[0] - 1,) + tuple(s[1:]))]) if len(s) == 2 and s[0] > 1 else 40.0 * np.ones(s)),
          ('first row -40, rest normal*10', lambda s: np.concatenate([-40.0 * np.ones((1,) + tuple(s[1:])), 10.0 * rng.standard_normal((s[0] - 1,) + tuple(s[1:]))]) if len(s) == 2 and s[0] > 1 else -40.0 * np.ones(s))]
states += [('normal*%g (%d)' % (k, i), (lambda k: (lambda s: k * rng.standard_normal(s)))(k)) for k in (0.3, 1, 3, 30) for i in range(3)]
for sname, gen in states:
  for v in model.trainable_variables:
    if gen is not None:
      v.assign(gen(tuple(v.shape)).astype('float32'))
  # one "optimizer step" = the hostile assignment above followed by Keras re-applying every constraint
  for v in model.trainable_variables:
    if gen is not None and getattr(v, 'constraint', None) is not None:
      v.assign(v.constraint(v))
  n = 400
  base = points(n)
  out0 = model.predict(base, verbose=0).reshape(-1)
  tol = 1e-4
  if lo is not None and float(out0.min()) < lo - tol:
    k = int(np.argmin(out0)); note('below output_min', lo - float(out0.min()), {'state': sname, 'inputs': [c[k].tolist() for c in base], 'output': float(out0[k])})
  if hi is not None and float(out0.max()) > hi + tol:
    k = int(np.argmax(out0)); note('above output_max', float(out0.max()) - hi, {'state': sname, 'inputs': [c[k].tolist() for c in base], 'output': float(out0[k])})
  for j, f in enumerate(feats):
    if f['kind'] == 'cat':
      for a, b in f.get('pairs') or []:
        pa = [c.copy() for c in base]; pb = [c.copy() for c in base]
        pa[j][:] = a; pb[j][:] = b
        d = model.predict(pa, verbose=0).reshape(-1) - model.predict(pb, verbose=0).reshape(-1)
        if float(d.max()) > tol:
          k = int(np.argmax(d)); note('categorical pair (%d,%d) of %s out of order' % (a, b, f['name']), float(d.max()), {'state': sname, 'inputs': [c[k].tolist() for c in pa]})
    elif f.get('mono', 'none') != 'none':
      sgn = 1.0 if f['mono'] in (1, 'increasing') else -1.0
      pa = [c.copy() for c in base]; pb = [c.copy() for c in base]
      delta = rng.uniform(0.0, 1.5, size=(n, 1)).astype('float32')
      pb[j] = pa[j] + delta
      if f.get('default') is not None:
        ok = (pa[j] != f['default']) & (pb[j] != f['default'])
      else:
        ok = np.ones_like(pa[j], dtype=bool)
      d = sgn * (model.predict(pa, verbose=0).reshape(-1) - model.predict(pb, verbose=0).reshape(-1))
      d = np.where(ok.reshape(-1), d, -1.0)
      if float(d.max()) > tol:
        k = int(np.argmax(d)); note('not monotone in %s' % f['name'], float(d.max()), {'state': sname, 'lower': [c[k].tolist() for c in pa], 'upper': [c[k].tolist() for c in pb]})
result = worst
'''


def _native_search_desc(spec, vary, cat_ids):
  import inspect
  helpers = '\n'.join(inspect.getsource(f) for f in (feature_configs, model_config, build_model, build_stack))
  return {'kind': 'script', 'code': _NATIVE_SEARCH.replace('@@HELPERS@@', helpers), 'floatx': 'float32',
          'args': [spec, vary, cat_ids], 'kwargs': {}}


class ModelCase(Case):
  """End-to-end obligations of one model specification and one varied feature (or bounds only)."""
  contract_key = None
  xcheck = False

  def replay_desc(self, cfg, model, g):
    return _native_search_desc(cfg['spec'], None, {})   # one search per model specification

  def replay_eval(self, cfg, model, g, desc, nat):
    failing = []
    if 'error' in nat:
      return {'native': {k: v for k, v in nat.items() if k != 'trace'}, 'failing': [],
              'note': 'native search could not run: ' + nat['error'][:200]}
    name = g.get('name', '')
    for kind, w in sorted((nat.get('ok') or {}).items()):
      relevant = (('output_min' in name and kind == 'below output_min') or ('output_max' in name and kind == 'above output_max') or
                  (name.startswith('monotone-in[') and kind == 'not monotone in ' + name[len('monotone-in['):].split(',')[0]) or
                  (name.startswith('categorical-pair-ordered[') and kind.startswith('categorical pair') and
                   kind.endswith('of %s out of order' % name[len('categorical-pair-ordered['):].split(':')[0])) or
                  ':pre:' in name)
      if relevant:
        failing.append('%s by %g' % (kind, w['amount']))
    return {'native': nat, 'failing': failing,
            'note': 'bounded native search: hostile weight assignments followed by the real constraints, 400 random input pairs each'}

  def body(self, cfg, c):
    spec, vary = cfg['spec'], cfg.get('vary')
    vary_t = None
    if vary:
      vary_t = (vary[0], tuple(vary[1]) if isinstance(vary[1], list) else vary[1])
    try:
      out, log, layers, notes = run_model(spec, vary_t, cfg.get('cat_ids') or {}, c)
    except ValueError as e:
      if cfg.get('expect_rejected'):
        return [('rejected-up-front: %s' % str(e)[:60], E.TRUE)]
      raise
    cl = [('output-shape', B.const(tuple(out.a.shape) == (2, 1)))]
    for ac, layer, _, _ in log:
      if hasattr(ac, 'cited'):
        cl += ac.cited(layer)
    for n in sorted(notes):
      c.notes.append(n) if hasattr(c, 'notes') and isinstance(c.notes, list) else None
    o0, o1 = P.lift(out.a[0, 0]), P.lift(out.a[1, 0])
    lo, hi = _bounds_of(spec)
    if vary_t is None:
      if lo is not None:
        cl.append(('model-output>=output_min', o0 >= lo))
      if hi is not None:
        cl.append(('model-output<=output_max', o0 <= hi))
      flags = c.__dict__.get('_c03_normalised', [])
      if flags and (lo is not None or hi is not None):
        # outside the region of F-C03a (every averaging layer has normalised weights) the bounds must hold
        allnorm = E.ball([g.eq(1) for g in flags])
        inb = E.ball(([o0 >= lo] if lo is not None else []) + ([o0 <= hi] if hi is not None else []))
        cl.append(('model-output-in-range-when-averaging-weights-are-normalised', allnorm.implies(inb)))
      cl.append(('deterministic: equal inputs give equal outputs', o0.eq(o1)))
    elif isinstance(vary_t[1], tuple):
      cl.append(('categorical-pair-ordered[%s:%d<=%d]' % (vary_t[0], vary_t[1][0], vary_t[1][1]), o0 <= o1))
    else:
      # rows are ordered in the configured direction of the feature: the output must not decrease
      cl.append(('monotone-in[%s,%s]' % (vary_t[0], 'increasing' if vary_t[1] == 1 else 'decreasing'), o0 <= o1))
    return cl


class LayerContractCase(Case):
  """The abstract call contract of PWLCalibration / CategoricalCalibration / Linear is verified against
  the REAL call() of the k-th such layer the model-building code creates (weights: layer invariant assumed)."""
  contract_key = None
  xcheck = False

  def body(self, cfg, c):
    spec = cfg['spec']
    c0 = C.Ctx()
    with C.use(c0):
      _, log, layers, _ = run_model(spec, None, cfg.get('cat_ids') or {}, c0)
    cand = [l for l in layers if type(l).__name__ in ('PWLCalibration', 'CategoricalCalibration', 'Linear')]
    if cfg['index'] >= len(cand):
      return [('no-such-layer', E.TRUE)]
    layer = cand[cfg['index']]
    ac = [a for a in ABSTRACT if a.cls == type(layer).__name__][0]
    # fresh weights satisfying the LAYER invariant
    for v in layer.weights:
      if getattr(v, 'trainable', True):
        v.assign(tfc.sym(list(v.shape), E.fresh_name('k_' + v.name.split('/')[-1])))
    for nm, b in ac.invariant(layer):
      c.assume(b, 'layer invariant ' + nm)
    if isinstance(ac, CatCall):
      ids = list(range(layer.num_buckets - (1 if layer.default_input_value is not None else 0)))
      if layer.default_input_value is not None:
        ids.append(int(layer.default_input_value))
      cl = []
      for a, b in itertools.product(ids, ids):
        x = tfc.convert_to_tensor([[a] * 1, [b] * 1], dtype=tfc.int32)
        y = layer.call(x)
        y = tfc.concat(y, axis=1) if isinstance(y, list) else y
        for nm, f in ac.post(layer, x, y):
          cl.append(('%s[%s](%d,%d):%s' % (ac.cls, layer.name, a, b, nm), f))
      return cl
    if isinstance(ac, PwlCall) and layer.input_keypoints_type != 'fixed':
      return [('cited:C05-learned-keypoint-lemmas[%s]' % layer.name, E.TRUE)]
    if isinstance(ac, PwlCall):
      x = tfc.sym([2, 1], 'x')
    else:
      x = tfc.sym([2, layer.num_input_dims], 'x')
    y = layer.call(x)
    y = tfc.concat(y, axis=1) if isinstance(y, list) else y
    # 'ghost' facts introduce an existential flag (witness 0): nothing to prove about them here
    return [('%s[%s]:%s' % (ac.cls, layer.name, nm), f) for nm, f in ac.post(layer, x, y) if nm != 'ghost']


class LayerWiringCase(Case):
  """build() of each layer class attaches, to every trainable variable, a constraint whose proved contract implies
  the invariant of the LAYER's own hyperparameters (the premise of the abstract call contracts), for enumerated
  hyperparameters incl. one-sided, zero and absent bounds."""
  contract_key = None
  xcheck = False

  def body(self, cfg, c):
    notes = set()
    cls = getattr(load.mod(cfg['module']), cfg['cls'])
    kw = {}
    for k, v in cfg['kw'].items():
      if isinstance(v, list) and v and isinstance(v[0], list) and k != 'input_keypoints':
        v = [tuple(t) for t in v]
      kw[k] = v

    def provider(layer, name, shape, dt, init, cons):
      if not getattr(layer, '_vt_adding_trainable', True):
        return None
      return reachable(c, layer, name, shape, dt, cons, notes)
    kerasc.WEIGHT_PROVIDER[0] = provider
    try:
      layer = cls(**kw)
      layer.build(tfc.TensorShape(cfg['input_shape']))
    except ValueError as e:
      return [('configuration-rejected-up-front (C16): %s' % str(e)[:60], E.TRUE)]
    finally:
      kerasc.WEIGHT_PROVIDER[0] = None
    ac = [a for a in ABSTRACT if a.cls == cfg['cls']][0]
    if isinstance(ac, KflCall):
      x = tfc.sym([1] + list(cfg['input_shape'][1:]), 'x')
      for v in x.a.flat:
        c.assume((P.lift(v) >= 0) & (P.lift(v) <= layer.lattice_sizes - 1), 'in range')
      return [('layer-invariant:' + n, b) for n, b in ac.pre(layer, x) if 'constraint-has' in n]
    return [('layer-invariant:' + n, b) for n, b in ac.invariant(layer)] + [('has-obligations', E.TRUE)]


CASES = {'model': ModelCase(), 'layer_contract': LayerContractCase(), 'layer_wiring': LayerWiringCase()}


# ------------------------------------------------------------------ configurations

def NUM(name, mono='none', **kw):
  return dict(name=name, kind='num', mono=mono, **kw)


def CAT(name, buckets=3, pairs=None, **kw):
  return dict(name=name, kind='cat', buckets=buckets, pairs=pairs or [], **kw)


def model_specs(tier):
  A, Bd, N = NUM('a', 'increasing'), NUM('b', 'decreasing', keypoints=[-1.0, 0.0, 2.0]), NUM('n', 'none')
  Am = NUM('a', 'increasing', default=-1.0)
  Cc = CAT('c', 3, [[0, 1]])
  Cd = CAT('c', 3, [[0, 1]], default=-1)
  specs = []
  # calibrated linear
  specs.append(dict(kind='linear', features=[A, Bd, N], model=dict(use_bias=True, output_initialization=[0.0, 1.0])))
  specs.append(dict(kind='linear', features=[A, Bd, Cc], model=dict(use_bias=False, output_min=0.0, output_max=1.0,
                                                                      output_initialization=[0.0, 1.0])))
  specs.append(dict(kind='linear', features=[Am, Cd], model=dict(output_min=-1.0, output_max=2.0, output_initialization=[-1.0, 2.0],
                                                                 use_bias=False)))
  specs.append(dict(kind='linear', features=[A, Bd], model=dict(use_bias=False, output_min=1.0, output_max=2.0,
                                                                  output_initialization=[1.0, 2.0])))
  specs.append(dict(kind='linear', features=[A, Cc], model=dict(use_bias=False, output_calibration=True,
                                                                  output_calibration_num_keypoints=3, output_min=0.0, output_max=4.0,
                                                                  output_initialization=[0.0, 2.0, 4.0])))
  # calibrated lattice
  specs.append(dict(kind='lattice', features=[A, Bd], model=dict(output_min=0.0, output_max=1.0, output_initialization=[0.0, 1.0])))
  specs.append(dict(kind='lattice', features=[Am, Cd], model=dict(output_min=-1.0, output_max=1.0, output_initialization=[-1.0, 1.0])))
  specs.append(dict(kind='lattice', features=[A, N], model=dict(output_initialization=[0.0, 1.0])))
  specs.append(dict(kind='lattice', features=[dict(A, lattice_size=3), Cc], model=dict(interpolation='simplex', output_min=0.0,
                                                                                      output_max=1.0, output_initialization=[0.0, 1.0])))
  specs.append(dict(kind='lattice', features=[A, Bd], model=dict(output_calibration=True, output_calibration_num_keypoints=3,
                                                                   output_min=0.0, output_max=2.0, output_initialization=[0.0, 1.0, 2.0])))
  specs.append(dict(kind='lattice', features=[A, Bd], model=dict(parameterization='kronecker_factored', num_terms=2, output_min=0.0,
                                                                   output_max=1.0, output_initialization=[0.0, 1.0])))
  specs.append(dict(kind='lattice', features=[dict(A, keypoints_type='learned_interior'), Bd],
                    model=dict(output_min=0.0, output_max=1.0, output_initialization=[0.0, 1.0])))
  # monotone + convex calibrator feeding a lattice (the calibrator bound clauses are not proved: F-C04a)
  specs.append(dict(kind='lattice', features=[NUM('a', 'increasing', convexity='convex'), N],
                    model=dict(output_min=1.0, output_max=2.0, output_initialization=[1.0, 2.0])))
  # lattice ensembles
  specs.append(dict(kind='ensemble', features=[A, Bd, Cc], model=dict(lattices=[['a', 'b'], ['b', 'c']], output_min=2.0, output_max=3.0,
                                                                        output_initialization=[2.0, 3.0])))
  specs.append(dict(kind='ensemble', features=[A, Bd, N], model=dict(lattices=[['a', 'n'], ['b', 'n']], separate_calibrators=False,
                                                                       use_linear_combination=True, output_min=0.0, output_max=1.0,
                                                                       output_initialization=[0.0, 1.0])))
  specs.append(dict(kind='ensemble', features=[A, Bd, N], model=dict(lattices='rtl_layer', num_lattices=2, lattice_rank=2, random_seed=1,
                                                                       output_min=0.0, output_max=1.0, output_initialization=[0.0, 1.0])))
  # falsy zeros as default (missing) values of a numeric and of a categorical feature
  specs.append(dict(kind='lattice', features=[NUM('a', 'increasing', default=0.0, keypoints=[-1.0, 1.0, 2.0]), CAT('c', 3, [[1, 2]], default=0)],
                    model=dict(output_min=0.0, output_max=1.0, output_initialization=[0.0, 1.0])))
  # RTL: the arrangement of monotone and unconstrained inputs inside a lattice depends on the seed
  for seed, nl in ((2, 2), (3, 3), (5, 3)):
    specs.append(dict(kind='ensemble', features=[A, Bd, N, NUM('m', 'none')],
                      model=dict(lattices='rtl_layer', num_lattices=nl, lattice_rank=2, random_seed=seed, output_min=0.0,
                                 output_max=1.0, output_initialization=[0.0, 1.0])))
  # one-sided output bounds (each builder decides "bounded" on its own)
  specs.append(dict(kind='ensemble', features=[A, Bd, Cc], model=dict(lattices=[['a', 'b'], ['b', 'c']], use_linear_combination=True,
                                                                        use_bias=False, output_min=-1.0, output_initialization=[-1.0, 1.0])))
  specs.append(dict(kind='ensemble', features=[A, Bd], model=dict(lattices=[['a', 'b'], ['b', 'a']], use_linear_combination=True,
                                                                    use_bias=False, output_max=2.0, output_initialization=[0.0, 2.0])))
  specs.append(dict(kind='linear', features=[A, Cc], model=dict(use_bias=False, output_min=-1.0, output_initialization=[-1.0, 1.0])))
  specs.append(dict(kind='lattice', features=[A, Bd], model=dict(output_max=2.0, output_initialization=[0.0, 2.0])))
  if tier == 'thorough':
    specs.append(dict(kind='ensemble', features=[A, Bd, N, NUM('m', 'increasing')],
                      model=dict(lattices='rtl_layer', num_lattices=3, lattice_rank=2, random_seed=4, separate_calibrators=True,
                                 output_calibration=True, output_calibration_num_keypoints=2, output_min=0.0, output_max=1.0,
                                 output_initialization=[0.0, 1.0])))
    specs.append(dict(kind='ensemble', features=[A, Bd, N], model=dict(lattices='rtl_layer', num_lattices=2, lattice_rank=2, random_seed=2,
                                                                         parameterization='kronecker_factored', num_terms=2, output_min=0.0,
                                                                         output_max=1.0, output_initialization=[0.0, 1.0])))
    specs.append(dict(kind='ensemble', features=[A, Bd, Cc], model=dict(lattices=[['a', 'b'], ['a', 'c'], ['b', 'c']], use_linear_combination=True,
                                                                          use_bias=True, output_initialization=[0.0, 1.0])))
  # stacks assembled from the layers
  specs.append(dict(kind='stack', top='lattice', features=[dict(A, lattice_size=3), Bd, Cd], output_min=0.0, output_max=1.0))
  specs.append(dict(kind='stack', top='lattice', features=[A, N], clip_inputs=False, interpolation='simplex'))
  specs.append(dict(kind='stack', top='linear', features=[A, Bd, N], use_bias=True))
  # a stack whose calibrator range exceeds the lattice range while the lattice does not clip: must be flagged
  return specs


def jobs_for(spec):
  jobs = []
  cats = [f for f in spec['features'] if f['kind'] == 'cat']

  def cat_choices():
    opts = []
    for f in cats:
      ids = list(range(f['buckets'] - (1 if f.get('default') is not None else 0)))
      if f.get('default') is not None:
        ids.append(f['default'])
      opts.append([(f['name'], i) for i in ids])
    return [dict(ch) for ch in itertools.product(*opts)] if opts else [{}]
  for ids in cat_choices():
    jobs.append(('model', dict(spec=spec, vary=None, cat_ids=ids)))
  for f in spec['features']:
    if f['kind'] == 'cat':
      others = [dict((k, v) for k, v in ch.items() if k != f['name']) for ch in cat_choices()]
      seen = []
      for ch in others:
        if ch in seen:
          continue
        seen.append(ch)
        for a, b in f.get('pairs') or []:
          if f.get('default') is not None and f['default'] in (a, b):
            continue     # an id equal to the default value is a MISSING input: the property orders non-missing points
          jobs.append(('model', dict(spec=spec, vary=[f['name'], [a, b]], cat_ids=ch)))
    elif f.get('mono', 'none') != 'none':
      d = 1 if f['mono'] in (1, 'increasing') else -1
      for ch in cat_choices():
        jobs.append(('model', dict(spec=spec, vary=[f['name'], d], cat_ids=ch)))
  for k in range(8):
    jobs.append(('layer_contract', dict(spec=spec, index=k)))
  return jobs


def configs(tier, rng):
  jobs = []
  for spec in model_specs(tier):
    jobs += jobs_for(spec)
  bounds = ((None, None), (0.0, None), (None, 1.0), (-1.0, 2.0), (0.0, 0.0))
  for (lo, hi) in bounds:
    b = dict(output_min=lo, output_max=hi)
    for units in (1, 2):
      jobs.append(('layer_wiring', dict(module='lattice_layer', cls='Lattice', input_shape=[None, 2] if units == 1 else [None, units, 2],
                                        kw=dict(b, lattice_sizes=[2, 3], units=units, monotonicities=['increasing', 'none']))))
      jobs.append(('layer_wiring', dict(module='lattice_layer', cls='Lattice', input_shape=[None, 2] if units == 1 else [None, units, 2],
                                        kw=dict(b, lattice_sizes=[3, 2], units=units, monotonicities=[0, 1], edgeworth_trusts=[[1, 0, -1]]))))
      for missing in (False, True):
        kw = dict(b, input_keypoints=[0.0, 1.0, 3.0], units=units, monotonicity='decreasing')
        if missing:
          kw.update(impute_missing=True, missing_input_value=0.0)
        jobs.append(('layer_wiring', dict(module='pwl_calibration_layer', cls='PWLCalibration', input_shape=[None, units], kw=kw)))
      jobs.append(('layer_wiring', dict(module='categorical_calibration_layer', cls='CategoricalCalibration', input_shape=[None, units],
                                        kw=dict(b, num_buckets=3, units=units, monotonicities=[[0, 1], [1, 2]], default_input_value=0))))
      jobs.append(('layer_wiring', dict(module='kronecker_factored_lattice_layer', cls='KroneckerFactoredLattice',
                                        input_shape=[None, 2] if units == 1 else [None, units, 2],
                                        kw=dict(b, lattice_sizes=2, units=units, num_terms=2, monotonicities=['increasing', 'none']))))
  for units in (1, 2):
    for kw in (dict(num_input_dims=3, monotonicities=['increasing', 'decreasing', 'none']),
               dict(num_input_dims=2, monotonicities=[1, 1], normalization_order=1, use_bias=False),
               dict(num_input_dims=2, monotonicities=[1, 1], monotonic_dominances=[[0, 1]])):
      jobs.append(('layer_wiring', dict(module='linear_layer', cls='Linear', input_shape=[None, kw['num_input_dims']] if units == 1 else
                                        [None, units, kw['num_input_dims']], kw=dict(kw, units=units))))
  return jobs


EVIDENCE = {
    'level': 'other',
    'explanation': (
        'Composition by contracts: the real premade.py / premade_lib.py / rtl_layer.py / parallel_combination_layer.py code is '
        'executed on a symbolic two-row batch with each layer call() replaced by its abstract relational contract (bounded, '
        'monotone in constrained inputs, functional); weights are arbitrary members of the image of the constraint object the '
        'real build() attaches (constraint contracts proved in C01/C04/C06/C07; clause families that are known findings there are '
        'not assumed). Obligations for ALL weights and ALL inputs: layer invariants of the layer hyperparameters, input-range '
        'preconditions of non-clipping lattices, end-to-end monotonicity per constrained feature, categorical pair order, output '
        'bounds. Abstract contracts of PWLCalibration / CategoricalCalibration / Linear are verified against the real call(); those '
        'of Lattice / KroneckerFactoredLattice are cited from C02 / C07 with a size-coverage clause. NOT decided here: the Keras '
        'optimizer/constraint protocol (trusted), Crystals / random ensembles beyond their structure (C17), AggregateFunction '
        '(ragged inputs), learned keypoints, configurations outside the enumerated model specifications.'),
    'rule': 'one obligation = (model specification, varied feature or bounds, categorical ids, clause)',
    'bounds': '<= 4 features, lattice sizes 2-3, 3 keypoints, 3 buckets, <= 3 lattices per ensemble; 18 model specifications quick',
    'exhaustive_tiers': {'quick': False, 'thorough': False},
    'trusted_base': ['Keras: optimizers re-apply var.constraint after every update', 'Keras stub incl. eager functional API',
                     'operator contracts for tf.*', 'z3 / cvc5', 'reals for floats'],
    'assumptions': ['constraint contracts of C01/C04/C06/C07 (proved there)', 'Lattice/KFL call contracts from C02/C07 lemmas',
                    'multi-dimensional monotone step is chained from the per-dimension lemmas of C02'],
}

if __name__ == '__main__':
  import sys
  from vt import prop
  sys.exit(prop.main(sys.modules[__name__]))
