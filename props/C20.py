"""C20 - the Linear layer computes the clipped affine function its weights describe."""
import itertools
import json

import numpy as np

from vt import ctx as C
from vt import expr as E
from vt import harness as H
from vt import kerasc
from vt import load
from vt import tfc
from vt.expr import P, B
from vt.prop import Case
from contracts import linear as CLn

PROPERTY = 'C20'


def clip(x, lo, hi):
  r = P.lift(x)
  if lo is not None:
    r = E.pmax(r, lo)
  if hi is not None:
    r = E.pmin(r, hi)
  return r


def affine(kernel, bias, xrow, u, imin, imax):
  tot = P.const(0) if bias is None else P.lift(bias)
  for i, x in enumerate(xrow):
    tot = tot + P.lift(kernel.a[i, u]) * clip(x, imin[i], imax[i])
  return tot


def _bounds(this):
  n = this.num_input_dims

  def canon(b):
    if b is None:
      return [None] * n
    return [None if (v is None or (isinstance(v, str) and v.lower() == 'none')) else v for v in b]
  return canon(this.input_min), canon(this.input_max)


def _bias(this, u):
  if not this.use_bias:
    return None
  b = this.bias.a
  return b[()] if b.ndim == 0 else b[u]


@H.register
class LinearCall(H.Contract):
  module = 'linear_layer'
  qualname = 'Linear.call'
  inline = True

  def fresh_out(self, this, inputs):
    return tfc.sym((inputs.a.shape[0], this.units), E.fresh_name('lin'))

  def post(self, out, this, inputs):
    B_, U, n = inputs.a.shape[0], this.units, this.num_input_dims
    cl = [('shape', B.const(tuple(out.a.shape) == (B_, U)))]
    if tuple(out.a.shape) != (B_, U):
      return cl
    imin, imax = _bounds(this)
    for b in range(B_):
      for u in range(U):
        xrow = [inputs.a[b, i] if U == 1 else inputs.a[b, u, i] for i in range(n)]
        cl.append(('clipped-affine[%d,u%d]' % (b, u),
                   P.lift(out.a[b, u]).eq(affine(this.kernel, _bias(this, u), xrow, u, imin, imax))))
    return cl


def _layer(cfg):
  ly = load.mod('linear_layer')
  n, U = cfg['n'], cfg['units']
  K = tfc.sym([n, U], 'K')
  bias = tfc.sym([] if U == 1 else [U], 'b')
  kw = dict(num_input_dims=n, units=U, monotonicities=cfg.get('monos'), use_bias=cfg['use_bias'],
            input_min=cfg.get('input_min'), input_max=cfg.get('input_max'),
            monotonic_dominances=[tuple(p) for p in cfg.get('mono_dom') or []] or None,
            range_dominances=[tuple(p) for p in cfg.get('range_dom') or []] or None,
            normalization_order=cfg.get('norm'))

  def provider(layer, name, shape, dt, init, cons):
    return K if 'kernel' in name else bias
  kerasc.WEIGHT_PROVIDER[0] = provider
  try:
    layer = ly.Linear(**kw)
    layer.build(tfc.TensorShape([None, n] if U == 1 else [None, U, n]))
  finally:
    kerasc.WEIGHT_PROVIDER[0] = None
  w = {'kernel': K}
  if cfg['use_bias']:
    w['bias'] = bias
  layer._vt_native = {'kind': 'layer', 'module': 'linear_layer', 'cls': 'Linear', 'init': kw,
                      'weights': w, 'build_shape': [None, n] if U == 1 else [None, U, n]}
  return layer


class CallCase(Case):
  contract_key = 'linear_layer.Linear.call'

  def build(self, cfg):
    layer = _layer(cfg)
    n, U = cfg['n'], cfg['units']
    x = tfc.sym([cfg.get('batch', 1), n] if U == 1 else [cfg.get('batch', 1), U, n], 'x')
    return (layer, x), {}


class LemmaCase(Case):
  """Consequences for weights satisfying the layer's constraints, over the spec function."""
  contract_key = None
  xcheck = False

  def body(self, cfg, c):
    n = cfg['n']
    monos = cfg['monos']
    imin, imax = cfg.get('input_min') or [None] * n, cfg.get('input_max') or [None] * n
    K = tfc.sym([n, 1], 'K')
    b = P.var('b')
    feas = CLn.linear_clauses(K, monos, [tuple(p) for p in cfg.get('mono_dom') or []],
                              [tuple(p) for p in cfg.get('range_dom') or []], imin, imax, cfg.get('norm'))
    for nm, f in feas:
      c.assume(f, 'constraint ' + nm)
    x = [P.var('x%d' % i) for i in range(n)]
    cl = []
    fx = affine(K, b, x, 0, imin, imax)
    for i, m in enumerate(monos):
      if m == 0:
        continue
      y = list(x)
      y[i] = P.var('y%d' % i)
      fy = affine(K, b, y, 0, imin, imax)
      cl.append(('monotone[%d]' % i, (y[i] >= x[i]).implies((fy >= fx) if m == 1 else (fy <= fx))))
    for (dom, weak) in cfg.get('mono_dom') or []:
      # a unit step along the dominant input changes the output at least as much as one along the weak
      cl.append(('dominance-per-unit-step[%d>%d]' % (dom, weak),
                 P.lift(K.a[dom, 0]) >= P.lift(K.a[weak, 0])))
    for (dom, weak) in cfg.get('range_dom') or []:
      # sweeping the dominant input over its range moves the output at least as much as the weak one
      def sweep(i):
        lo = list(x); hi = list(x)
        lo[i] = P.const(imin[i]); hi[i] = P.const(imax[i])
        d = affine(K, b, hi, 0, imin, imax) - affine(K, b, lo, 0, imin, imax)
        return d if monos[i] == 1 else -d
      cl.append(('dominance-over-ranges[%d>%d]' % (dom, weak), sweep(dom) >= sweep(weak)))
    if cfg.get('norm') == 1 and all(m == 1 for m in monos):
      # weighted average: convex combination of the (clipped) inputs (no bias)
      xs = [clip(x[i], imin[i], imax[i]) for i in range(n)]
      nrm = CLn.norm_of(list(K.a[:, 0]), 1)
      c.assume(nrm.eq(1), 'unit 1-norm')
      f0 = affine(K, None, x, 0, imin, imax)
      cl.append(('weighted-average<=max', f0 <= E.pmax(*xs)))
      cl.append(('weighted-average>=min', f0 >= E.pmin(*xs)))
    return cl


CASES = {'call': CallCase(), 'lemma': LemmaCase()}
RANGES = [(-1.0, 2.0), (0.0, 0.5), (3.0, 10.0)]


def configs(tier, rng):
  jobs = []
  for n in ((1, 2, 3) if tier == 'quick' else (1, 2, 3, 4)):
    subsets = list(itertools.product([0, 1, 2, 3], repeat=n))   # 0 none, 1 min only, 2 max only, 3 both
    if tier == 'quick' and len(subsets) > 16:
      rng.shuffle(subsets)
      subsets = subsets[:16]
    for k, sub in enumerate(subsets):
      imin = [RANGES[(k + i) % 3][0] if s in (1, 3) else None for i, s in enumerate(sub)]
      imax = [RANGES[(k + i) % 3][1] if s in (2, 3) else None for i, s in enumerate(sub)]
      for units in (1, 2, 3):
        if tier == 'quick' and units == 3 and n > 2:
          continue
        for use_bias in (True, False):
          jobs.append(('call', dict(n=n, units=units, use_bias=use_bias,
                                    input_min=imin if any(v is not None for v in imin) else None,
                                    input_max=imax if any(v is not None for v in imax) else None,
                                    batch=1 + (k % 2))))
  import props.C06 as C06
  lin = []
  for n in (1, 2, 3):
    lin += list(C06.linear_space(n))
  rng.shuffle(lin)
  for k, c in enumerate(lin[:(150 if tier == 'quick' else 2000)]):
    n = c['n']
    need = {i for p in c['range_dom'] for i in p}
    imin = [None] * n
    imax = [None] * n
    for i in range(n):
      if i in need or (k + i) % 2 == 0:
        imin[i], imax[i] = RANGES[(k + i) % 3]
    c = dict(c, input_min=imin, input_max=imax)
    if not C06.valid_linear(dict(c, input_min=imin if any(v is not None for v in imin) else None,
                                 input_max=imax if any(v is not None for v in imax) else None)):
      continue
    jobs.append(('lemma', c))
  out, seen = [], set()
  for j in jobs:
    key = json.dumps(j, sort_keys=True)
    if key not in seen:
      seen.add(key)
      out.append(j)
  return out


EVIDENCE = {
    'level': 'proof',
    'explanation': (
        'The real Linear.build and Linear.call run under the Keras stub on symbolic kernel, bias and inputs; the output is '
        'proved equal to bias_u + sum_i kernel[i,u] * clip(x_i) (exact normal form over the min/max atoms, z3/cvc5 behind '
        'it), for units = 1 (matmul branch) and > 1 (transpose branch), every enumerated subset of bounded inputs, with and '
        'without bias. Monotonicity, the two dominance statements and the weighted-average statement are lemmas over this '
        'spec under the constraint set proved in C06.'),
    'rule': 'one obligation = (configuration, output element) or (configuration, lemma clause)',
    'bounds': 'input dims <= 3 (quick) / 4 (thorough), units <= 3, batch <= 2, concrete input bounds from three ranges',
    'exhaustive_tiers': {'quick': False, 'thorough': False},
    'trusted_base': ['vt operator contracts incl. clip_by_value with infinite bounds (cross-checked each run)',
                     'Keras stub (Layer.build/add_weight)', 'z3 and cvc5'],
    'assumptions': ['float arithmetic treated as exact real arithmetic'],
}

if __name__ == '__main__':
  import sys
  from vt import prop
  sys.exit(prop.main(sys.modules[__name__]))
