"""C04 - PWLCalibration weight constraint returns keypoint outputs meeting all its limits.

Functions under contract: pwl_calibration_lib._project_monotonicity,
_approximately_project_convexity, _squeeze_by_scaling, _approximately_project_bounds_only,
_project_bounds_considering_monotonicity, _finalize_constraints, project_all_constraints;
pwl_calibration_layer.PWLCalibrationConstraints.__call__, NaiveBoundsConstraints.__call__.
"""
import itertools
import json

from vt import ctx as C
from vt import expr as E
from vt import harness as H
from vt import load
from vt import tfc
from vt.expr import P, B
from vt.prop import Case
from contracts import pwl as CP
from spec import pwl as S

PROPERTY = 'C04'


def _enum(name):
  return getattr(load.mod('pwl_calibration_lib').BoundConstraintsType, name)


def _bounds(cfg):
  """(output_min, output_max, omc, oxc). Bounds symbolic; in cross-check mode random."""
  kind = cfg.get('bounds', 'none')
  omc = oxc = 'NONE'
  lo = hi = None
  rng = getattr(C.cur(), 'concrete_rng', None) if C.active() else None
  if rng is not None:
    a = rng.randint(-8, 4) / 2.0
    b = a + rng.randint(0, 8) / 2.0
  if kind in ('min', 'both'):
    lo = P.var('output_min') if rng is None else a
    omc = 'CLAMPED' if cfg.get('clamp_min') else 'BOUND'
  if kind in ('max', 'both'):
    hi = P.var('output_max') if rng is None else b
    oxc = 'CLAMPED' if cfg.get('clamp_max') else 'BOUND'
  return lo, hi, omc, oxc


def _lib_bounds(cfg):
  """The library-level calling convention (as produced by convert_all_constraints): a bound
  that is absent is passed as the value of the other one with constraint type NONE."""
  lo, hi, omc, oxc = _bounds(cfg)
  if lo is None and hi is None:
    lo = hi = 0.0
  elif lo is None:
    lo = hi
  elif hi is None:
    hi = lo
  return lo, hi, _enum(omc), _enum(oxc)


def _lengths(cfg):
  n = cfg['nk'] - 1
  rng = getattr(C.cur(), 'concrete_rng', None) if C.active() else None
  if rng is not None:
    return tfc.convert_to_tensor([rng.randint(1, 6) / 2.0 for _ in range(n)], dtype=tfc.float32)
  return tfc.sym([n], 'len')


def _ghost(cfg, c, lengths=None):
  c.ghost = dict(convexity=cfg.get('conv', 0), lengths=lengths)


class PmCase(Case):
  contract_key = 'pwl_calibration_lib._project_monotonicity'
  public = False
  lift_case = 'pac'

  def build(self, cfg):
    return (tfc.sym([cfg['nk'] - 1, cfg['units']], 'h'), cfg['mono']), {}


class ApcCase(Case):
  contract_key = 'pwl_calibration_lib._approximately_project_convexity'
  public = False
  lift_case = 'pac'

  def build(self, cfg):
    return (tfc.sym([cfg['nk'] - 1, cfg['units']], 'h'), _lengths(cfg), cfg['conv']), {}


class PcvCase(Case):
  contract_key = 'pwl_calibration_lib._project_convexity'
  public = False
  lift_case = 'pac'

  def build(self, cfg):
    return (tfc.sym([cfg['nk'] - 1, cfg['units']], 'h'), _lengths(cfg), cfg['conv'], cfg['group']), {}


class SqCase(Case):
  contract_key = 'pwl_calibration_lib._squeeze_by_scaling'
  public = False
  lift_case = 'pac'

  def build(self, cfg):
    lo, hi, omc, oxc = _lib_bounds(cfg)
    ln = _lengths(cfg)
    _ghost(cfg, C.cur(), ln)
    if cfg.get('conv'):
      for n_, b in S.positive(ln):
        C.cur().assume(b, 'ghost ' + n_)
    return (tfc.sym([1, cfg['units']], 'b'), tfc.sym([cfg['nk'] - 1, cfg['units']], 'h'),
            cfg['mono'], lo, hi, omc, oxc), {}


class BoCase(Case):
  contract_key = 'pwl_calibration_lib._approximately_project_bounds_only'
  public = False
  lift_case = 'pac'

  def build(self, cfg):
    lo, hi, omc, oxc = _lib_bounds(cfg)
    return (tfc.sym([1, cfg['units']], 'b'), tfc.sym([cfg['nk'] - 1, cfg['units']], 'h'),
            lo, hi, omc, oxc), {}


class PbcmCase(Case):
  contract_key = 'pwl_calibration_lib._project_bounds_considering_monotonicity'
  public = False
  lift_case = 'pac'

  def build(self, cfg):
    lo, hi, omc, oxc = _lib_bounds(cfg)
    return (tfc.sym([1, cfg['units']], 'b'), tfc.sym([cfg['nk'] - 1, cfg['units']], 'h'),
            cfg['mono'], lo, hi, omc, oxc), {}


class FinCase(Case):
  contract_key = 'pwl_calibration_lib._finalize_constraints'
  public = False
  lift_case = 'pac'

  def build(self, cfg):
    lo, hi, omc, oxc = _lib_bounds(cfg)
    ln = _lengths(cfg)
    _ghost(cfg, C.cur(), ln)
    return (tfc.sym([1, cfg['units']], 'b'), tfc.sym([cfg['nk'] - 1, cfg['units']], 'h'),
            cfg['mono'], lo, hi, omc, oxc, cfg.get('conv', 0), ln), {}


def _loop_mode(cfg):
  it = cfg.get('iters', 1)
  if isinstance(it, str) and it.startswith('tail'):
    return ('tail', int(it[4:]))
  return ('unroll',)


def _iters_arg(cfg):
  it = cfg.get('iters', 1)
  if isinstance(it, str):
    if C.active() and getattr(C.cur(), 'for_native', False):
      return int(it[4:]) + 2   # a concrete count >= k for the native replay
    return 10 ** 6     # any count >= k: the loop contract ignores the counter
  return it


class PacCase(Case):
  contract_key = 'pwl_calibration_lib.project_all_constraints'

  def loop_mode(self, cfg):
    return _loop_mode(cfg)

  def build(self, cfg):
    lo, hi, omc, oxc = _lib_bounds(cfg)
    ln = _lengths(cfg)
    _ghost(cfg, C.cur(), ln)
    rng = getattr(C.cur(), 'concrete_rng', None)
    iters = _iters_arg(cfg) if rng is None else (3 if isinstance(cfg.get('iters'), str) else cfg.get('iters', 1))
    return (tfc.sym([cfg['nk'], cfg['units']], 'w'), cfg['mono'], lo, hi, omc, oxc,
            cfg.get('conv', 0), ln, iters), {}


class ConstraintCallCase(Case):
  contract_key = 'pwl_calibration_layer.PWLCalibrationConstraints.__call__'
  lift_keep_stubs = ()

  def loop_mode(self, cfg):
    return _loop_mode(cfg)

  def build(self, cfg):
    ly = load.mod('pwl_calibration_layer')
    lo, hi, omc, oxc = _lib_bounds(cfg)
    ln = _lengths(cfg)
    _ghost(cfg, C.cur(), ln)
    for n_, b in CP._bounds_pre(lo, hi, omc, oxc):
      C.cur().assume(b, 'pre ' + n_)
    rng = getattr(C.cur(), 'concrete_rng', None)
    iters = _iters_arg(cfg) if rng is None else (3 if isinstance(cfg.get('iters'), str) else cfg.get('iters', 1))
    spell = {1: 'increasing', -1: 'decreasing', 0: 'none'}
    cspell = {1: 'convex', -1: 'concave', 0: 'none'}
    kw = dict(monotonicity=spell[cfg['mono']] if cfg.get('spell') else cfg['mono'],
              convexity=cspell[cfg.get('conv', 0)] if cfg.get('spell') else cfg.get('conv', 0),
              lengths=ln, output_min=lo, output_max=hi, output_min_constraints=omc,
              output_max_constraints=oxc, num_projection_iterations=iters)
    this = ly.PWLCalibrationConstraints(**kw)
    this._vt_native = {'module': 'pwl_calibration_layer', 'cls': 'PWLCalibrationConstraints', 'init': kw}
    return (this, tfc.sym([cfg['nk'], cfg['units']], 'w')), {}


class NaiveCase(Case):
  contract_key = 'pwl_calibration_layer.NaiveBoundsConstraints.__call__'

  def build(self, cfg):
    ly = load.mod('pwl_calibration_layer')
    lo, hi, _, _ = _bounds(cfg)
    kw = dict(lower_bound=lo, upper_bound=hi)
    this = ly.NaiveBoundsConstraints(**kw)
    this._vt_native = {'module': 'pwl_calibration_layer', 'cls': 'NaiveBoundsConstraints', 'init': kw}
    return (this, tfc.sym([1, cfg['units']], 'm')), {}


class LayerWiringCase(Case):
  """PWLCalibration.build attaches, to every trainable variable, a constraint whose (proved) contract
  implies the invariant of the LAYER's own hyperparameters: monotone keypoint outputs, keypoint outputs and
  the learned missing output inside the configured bounds - including one-sided bounds."""
  contract_key = None
  xcheck = False

  def body(self, cfg, c):
    from vt import kerasc
    import props.C03 as C03
    ly = load.mod('pwl_calibration_layer')
    notes = set()

    def provider(layer, name, shape, dt, init, cons):
      if not getattr(layer, '_vt_adding_trainable', True):
        return None
      return C03.reachable(c, layer, name, shape, dt, cons, notes)
    kerasc.WEIGHT_PROVIDER[0] = provider
    try:
      layer = ly.PWLCalibration(**cfg['kw'])
      layer.build(tfc.TensorShape([None, cfg['kw'].get('units', 1)]))
    finally:
      kerasc.WEIGHT_PROVIDER[0] = None
    cl = [('layer-invariant:' + n, b) for n, b in C03.PwlCall().invariant(layer)]
    cl.append(('has-obligations', E.TRUE))
    return cl


CASES = {'pcv': PcvCase(), 'pm': PmCase(), 'apc': ApcCase(), 'sq': SqCase(), 'bo': BoCase(), 'pbcm': PbcmCase(),
         'fin': FinCase(), 'pac': PacCase(), 'constraint_call': ConstraintCallCase(),
         'naive_bounds': NaiveCase(), 'layer_wiring': LayerWiringCase()}


def base_space():
  for mono in (1, -1, 0):
    for conv in (0, 1, -1):
      for bounds in ('none', 'min', 'max', 'both'):
        clamps = [(False, False)]
        if mono != 0:
          if bounds in ('min', 'both'):
            clamps.append((True, False))
          if bounds in ('max', 'both'):
            clamps.append((False, True))
          if bounds == 'both':
            clamps.append((True, True))
        for cmin, cmax in clamps:
          yield dict(mono=mono, conv=conv, bounds=bounds, clamp_min=cmin, clamp_max=cmax)


def configs(tier, rng):
  jobs = []
  for mono in ('none', 'increasing', 'decreasing'):
    for (lo, hi) in ((None, None), (0.0, None), (None, 1.0), (-1.0, 2.0), (0.0, 0.0)):
      for units in (1, 2):
        for missing in (False, True):
          kw = dict(input_keypoints=[0.0, 1.0, 3.0], units=units, monotonicity=mono, output_min=lo, output_max=hi)
          if missing:
            kw.update(impute_missing=True, missing_input_value=-5.0)
          jobs.append(('layer_wiring', dict(kw=kw)))
  nks = [2, 3, 4, 5] if tier == 'quick' else [2, 3, 4, 5, 6]
  for i, base in enumerate(base_space()):
    for nk in nks:
      # the even / odd pair groups of the convexity projection exist or not depending on the number of heights:
      # every keypoint count 2..5 for convexity configurations; otherwise 4 for a third and no 5 in the quick tier
      if tier == 'quick' and base['conv'] == 0 and (nk == 5 or (nk == 4 and (i % 3))):
        continue
      if tier == 'quick' and base['conv'] != 0 and nk == 5 and (base['clamp_min'] or base['clamp_max']):
        continue
      for units in ((1, 2) if tier == 'thorough' or nk == 3 else (1 + (i + nk) % 2,)):
        cfg = dict(base, nk=nk, units=units)
        mono, conv, bounds = cfg['mono'], cfg['conv'], cfg['bounds']
        hb = dict(nk=nk, units=units)
        if mono:
          jobs.append(('pm', dict(hb, mono=mono)))
        if conv:
          jobs.append(('apc', dict(hb, conv=conv)))
          for grp in (0, 1):
            jobs.append(('pcv', dict(hb, conv=conv, group=grp)))
        if bounds != 'none':
          if mono and conv:
            jobs.append(('sq', cfg))
          if not (cfg['clamp_min'] or cfg['clamp_max']):
            jobs.append(('bo', dict(hb, bounds=bounds)))
          if mono:
            jobs.append(('pbcm', dict(hb, mono=mono, bounds=bounds, clamp_min=cfg['clamp_min'],
                                      clamp_max=cfg['clamp_max'])))
        jobs.append(('fin', cfg))
        for iters in (0, 1, 2, 'tail1'):
          if tier == 'quick' and iters == 2 and nk > 3:
            continue
          jobs.append(('pac', dict(cfg, iters=iters)))
        jobs.append(('constraint_call', dict(cfg, iters=rng.choice([0, 1, 'tail1']), spell=bool(i % 2))))
  for bounds in ('none', 'min', 'max', 'both'):
    for units in (1, 2):
      jobs.append(('naive_bounds', dict(bounds=bounds, units=units)))
  out, seen = [], set()
  for j in jobs:
    k = json.dumps(j, sort_keys=True)
    if k not in seen:
      seen.add(k)
      out.append(j)
  return out


EVIDENCE = {
    'level': 'other',
    'explanation': (
        'Deductive verification of the real bodies of pwl_calibration_lib / PWLCalibrationConstraints '
        'against contracts, per discrete configuration; every obligation holds for ALL real kernels, '
        'symbolic output bounds (min <= max) and symbolic positive keypoint spacings. Iteration counts: '
        '0, 1, 2 by exact unrolling of the real tf.while_loop body, and every count >= 1 by the '
        'last-iteration loop contract (exit state = body applied to an arbitrary state). Level `other`: '
        'known findings are refuted obligations on the unchanged tree, and the iteration-count/keypoint '
        'ranges are bounded.'),
    'rule': ('one obligation = (function under contract, discrete configuration, contract clause, '
             'keypoint / unit); non-trivial = needed a solver call; distinct by (function, '
             'configuration, clause, path)'),
    'bounds': 'keypoints 2..4 (quick) / 2..6 (thorough), units <= 2, iterations {0,1,2} exact and >=1 abstract',
    'exhaustive_tiers': {'quick': False, 'thorough': True},
    'trusted_base': [
        'vt operator contracts (vt/tfc.py) incl. the tf.while_loop contract, cross-checked against TensorFlow on every run',
        'z3 and cvc5',
    ],
    'assumptions': [
        'float arithmetic treated as exact real arithmetic',
        'per-configuration proof; configurations enumerated up to the stated bounds',
    ],
}

if __name__ == '__main__':
  import sys
  from vt import prop
  sys.exit(prop.main(sys.modules[__name__]))
