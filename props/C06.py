"""C06 - Linear / categorical weight constraints enforce signs, orderings, dominance, norm."""
import itertools
import json

import numpy as np

from vt import ctx as C
from vt import expr as E
from vt import harness as H
from vt import load
from vt import tfc
from vt.expr import P, B
from vt.prop import Case
from contracts import linear as CLn

PROPERTY = 'C06'


def _pairs(x):
  return [tuple(p) for p in (x or [])]


def _bounds(cfg):
  kind = cfg.get('bounds', 'none')
  lo = hi = None
  rng = getattr(C.cur(), 'concrete_rng', None) if C.active() else None
  if rng is not None:
    a = rng.randint(-8, 4) / 2.0
    b = a + rng.randint(0, 8) / 2.0
  if kind in ('min', 'both'):
    lo = P.var('output_min') if rng is None else a
  if kind in ('max', 'both'):
    hi = P.var('output_max') if rng is None else b
  return lo, hi


class PpmCase(Case):
  contract_key = 'internal_utils.approximately_project_categorical_partial_monotonicities'
  public = False
  lift_case = 'cp'

  def build(self, cfg):
    return (tfc.sym([cfg['n'], cfg['units']], 'w'), _pairs(cfg['pairs'])), {}


class CpCase(Case):
  contract_key = 'categorical_calibration_lib.project'

  def build(self, cfg):
    lo, hi = _bounds(cfg)
    return (tfc.sym([cfg['n'], cfg['units']], 'w'), lo, hi, [list(p) for p in cfg['pairs']]), {}


class CccCase(Case):
  contract_key = 'categorical_calibration_layer.CategoricalCalibrationConstraints.__call__'

  def build(self, cfg):
    ly = load.mod('categorical_calibration_layer')
    lo, hi = _bounds(cfg)
    if lo is not None and hi is not None and not isinstance(lo, float):
      C.cur().assume(lo <= hi, 'pre min<=max')
    kw = dict(output_min=lo, output_max=hi, monotonicities=[list(p) for p in cfg['pairs']] or None)
    this = ly.CategoricalCalibrationConstraints(**kw)
    this._vt_native = {'module': 'categorical_calibration_layer',
                       'cls': 'CategoricalCalibrationConstraints', 'init': kw}
    return (this, tfc.sym([cfg['n'], cfg['units']], 'w')), {}


def _linear_args(cfg):
  n = cfg['n']
  imin = cfg.get('input_min')
  imax = cfg.get('input_max')
  return (list(cfg['monos']), _pairs(cfg.get('mono_dom')) or None, _pairs(cfg.get('range_dom')) or None,
          imin, imax, cfg.get('norm'))


class LpCase(Case):
  contract_key = 'linear_lib.project'

  def build(self, cfg):
    monos, md, rd, imin, imax, norm = _linear_args(cfg)
    return (tfc.sym([cfg['n'], cfg['units']], 'w'), monos), dict(
        monotonic_dominances=md, range_dominances=rd, input_min=imin, input_max=imax,
        normalization_order=norm)


class LccCase(Case):
  contract_key = 'linear_layer.LinearConstraints.__call__'

  def build(self, cfg):
    ly = load.mod('linear_layer')
    monos, md, rd, imin, imax, norm = _linear_args(cfg)
    spell = {1: 'increasing', -1: 'decreasing', 0: 'none'}
    kw = dict(monotonicities=[spell[m] for m in monos] if cfg.get('spell') else monos,
              monotonic_dominances=md, range_dominances=rd, input_min=imin, input_max=imax,
              normalization_order=norm)
    this = ly.LinearConstraints(**kw)
    this._vt_native = {'module': 'linear_layer', 'cls': 'LinearConstraints', 'init': kw}
    return (this, tfc.sym([cfg['n'], cfg['units']], 'w')), {}


class LayerWiringCase(Case):
  """The weight constraint the real build() of Linear / CategoricalCalibration attaches is the constraint class under
  contract, configured with the layer's own hyperparameters: applied to a symbolic kernel it gives what a fresh constraint
  object built from the constructor arguments gives (so the contracts of `lcc` / `ccc` are statements about the LAYER)."""
  contract_key = None
  xcheck = False

  def body(self, cfg, c):
    try:
      return self._body(cfg, c)
    except (ValueError, TypeError, IndexError, KeyError, AssertionError, ZeroDivisionError) as e:
      if isinstance(e, (tfc.NoContract, E.SymbolicValueError)):
        raise
      # a valid configuration (its constraint object can be built from the same hyperparameters) must build
      return [('layer-builds-and-its-constraint-applies: raised %s: %s' % (type(e).__name__, str(e)[:80]), E.FALSE)]

  def _body(self, cfg, c):
    cl = []
    if cfg['layer'] == 'linear':
      ly = load.mod('linear_layer')
      monos, md, rd, imin, imax, norm = _linear_args(cfg)
      kw = dict(num_input_dims=cfg['n'], units=cfg['units'], monotonicities=monos, monotonic_dominances=md, range_dominances=rd,
                input_min=imin, input_max=imax, normalization_order=norm, use_bias=cfg.get('bias', True))
      layer = ly.Linear(**kw)
      layer.build(tfc.TensorShape([None, cfg['n']] if cfg['units'] == 1 else [None, cfg['units'], cfg['n']]))
      ref = ly.LinearConstraints(monotonicities=monos, monotonic_dominances=md, range_dominances=rd, input_min=imin,
                                 input_max=imax, normalization_order=norm)
      need = any(monos) or bool(md) or bool(rd) or bool(norm)
    else:
      ly = load.mod('categorical_calibration_layer')
      lo = {'none': None, 'min': 0.0, 'max': None, 'both': -1.0}[cfg['bounds']]
      hi = {'none': None, 'min': None, 'max': 0.0, 'both': 2.0}[cfg['bounds']]
      pairs = [tuple(p) for p in cfg['pairs']] or None
      layer = ly.CategoricalCalibration(num_buckets=cfg['n'], units=cfg['units'], output_min=lo, output_max=hi,
                                        monotonicities=pairs, kernel_initializer='constant')
      layer.build(tfc.TensorShape([None, cfg['units']]))
      ref = ly.CategoricalCalibrationConstraints(output_min=lo, output_max=hi, monotonicities=pairs)
      need = lo is not None or hi is not None or bool(pairs)
    kc = getattr(layer.kernel, 'constraint', None)
    cl.append(('constraint-attached-when-the-layer-has-constraints', B.const((kc is not None) or not need)))
    if kc is None:
      return cl
    w = tfc.sym(list(layer.kernel.a.shape), 'w')
    got, want = kc(w), ref(w)
    cl.append(('same-shape', B.const(tuple(got.a.shape) == tuple(want.a.shape))))
    if tuple(got.a.shape) == tuple(want.a.shape):
      for idx in np.ndindex(*got.a.shape):
        cl.append(('layer-constraint-is-the-constraint-of-its-hyperparameters%s' % (list(idx),),
                   P.lift(got.a[idx]).eq(P.lift(want.a[idx]))))
    return cl


class TopoCase(Case):
  """internal_utils._topological_sort on concrete pair sets: the result is a linear extension
  that contains every node of the pair set (evaluated, the input is concrete)."""
  contract_key = None
  xcheck = False
  public = False     # a private helper: when it is renamed or inlined the public projection (case ppm) still covers it

  def body(self, cfg, c):
    import collections
    iu = load.mod('internal_utils')
    if not hasattr(iu, '_topological_sort'):
      raise load.Missing('function internal_utils._topological_sort not found in the working tree')
    klv = collections.defaultdict(list)
    pairs = _pairs(cfg['pairs'])
    for i, j in pairs:
      klv[i].append(j)
    order = iu._topological_sort(klv)
    nodes = {i for p in pairs for i in p}
    pos = {v: k for k, v in enumerate(order)}
    cl = [('contains-every-node', B.const(set(order) == nodes and len(order) == len(nodes)))]
    for i, j in pairs:
      cl.append(('extension[%d<%d]' % (i, j), B.const(i in pos and j in pos and pos[i] < pos[j])))
    return cl


CASES = {'ppm': PpmCase(), 'cp': CpCase(), 'ccc': CccCase(), 'lp': LpCase(), 'lcc': LccCase(),
         'topo': TopoCase(), 'layer_wiring': LayerWiringCase()}


def all_dags(n):
  """All labelled DAGs on nodes 0..n-1 given as pair lists (non-empty edge sets)."""
  edges = [(i, j) for i in range(n) for j in range(n) if i != j]
  out = []
  for k in range(1, len(edges) + 1):
    for comb in itertools.combinations(edges, k):
      if CLn.is_dag(n, list(comb)):
        out.append([list(e) for e in comb])
  return out


NAMED = {
    'chain': [[0, 1], [1, 2], [2, 3]],
    'diamond': [[0, 1], [0, 2], [1, 3], [2, 3]],
    'forest': [[0, 1], [2, 3]],
    'shared-parent': [[0, 2], [1, 2], [2, 3]],
    'shared-child': [[0, 1], [0, 2], [0, 3]],
    'transitive': [[0, 1], [1, 2], [0, 2]],
    'reverse-labels': [[3, 2], [2, 1], [1, 0]],
}

RANGES = [(-1.0, 2.0), (0.0, 0.5), (3.0, 10.0), (-4.0, -1.0)]


def linear_space(n):
  for monos in itertools.product([1, -1, 0], repeat=n):
    monos = list(monos)
    inc = [i for i in range(n) if monos[i] == 1]
    md_opts = [[]] + [[[a, b]] for a in inc for b in inc if a != b]
    if len(inc) >= 3:
      md_opts.append([[inc[0], inc[1]], [inc[1], inc[2]]])
      md_opts.append([[inc[0], inc[2]], [inc[1], inc[2]]])
    same = [(a, b) for a in range(n) for b in range(n)
            if a != b and monos[a] == monos[b] and monos[a] != 0]
    rd_opts = [[]] + [[list(p)] for p in same]
    # a dimension taking part in SEVERAL range dominances (shared dominant, shared weak, chain), either direction
    for sgn in (1, -1):
      grp = [i for i in range(n) if monos[i] == sgn]
      if len(grp) >= 3:
        a, b, c_ = grp[:3]
        rd_opts += [[[a, b], [a, c_]], [[a, c_], [b, c_]], [[a, b], [b, c_]]]
    for md in md_opts:
      for rd in rd_opts:
        for norm in (None, 1, 2):
          yield dict(n=n, monos=monos, mono_dom=md, range_dom=rd, norm=norm)


def valid_linear(c):
  lib = load.mod('linear_lib')
  try:
    lib.verify_hyperparameters(monotonicities=list(c['monos']),
                               monotonic_dominances=_pairs(c['mono_dom']) or None,
                               range_dominances=_pairs(c['range_dom']) or None,
                               input_min=c['input_min'], input_max=c['input_max'])
    return True
  except ValueError:
    return False


def configs(tier, rng):
  jobs = []
  # categorical: DAGs
  dags = {2: all_dags(2), 3: all_dags(3)}
  d4 = all_dags(4)
  if tier == 'quick':
    rng.shuffle(d4)
    d4 = list(NAMED.values()) + d4[:24]
    d3 = dags[3][:]
    rng.shuffle(d3)
    dags[3] = d3[:10]
  dags[4] = d4
  bk = ['none', 'min', 'max', 'both']
  k = 0
  for n in (2, 3, 4):
    for pairs in dags[n]:
      k += 1
      units = 1 + k % 2 if tier == 'quick' else None
      for u in ((units,) if units else (1, 2)):
        jobs.append(('topo', dict(n=n, pairs=pairs)))
        jobs.append(('ppm', dict(n=n, units=u, pairs=pairs)))
        for b in (bk if tier == 'thorough' else [bk[k % 4]]):
          jobs.append(('cp', dict(n=n, units=u, pairs=pairs, bounds=b)))
          jobs.append(('ccc', dict(n=n, units=u, pairs=pairs, bounds=b)))
  for u in (1, 2):
    for b in bk:
      jobs.append(('cp', dict(n=3, units=u, pairs=[], bounds=b)))
      for (n_, pairs) in ((3, []), (3, [[0, 1], [1, 2]]), (4, [[0, 1], [0, 2], [1, 3], [2, 3]]), (2, [[1, 0]])):
        jobs.append(('layer_wiring', dict(layer='categorical', n=n_, units=u, pairs=pairs, bounds=b)))
  # linear
  lin = []
  for n in ((1, 2, 3) if tier == 'quick' else (1, 2, 3, 4)):
    lin += list(linear_space(n))
  if tier == 'quick':
    rng.shuffle(lin)
    multi = [c for c in lin if c['n'] == 3 and len(c['range_dom']) > 1]
    keep = [c for c in lin if c['n'] <= 2] + [c for c in lin if c['n'] == 3 and len(c['range_dom']) <= 1][:120] + multi
    lin = keep
  for k, c in enumerate(lin):
    n = c['n']
    need_range = {i for p in c['range_dom'] for i in p}
    imin = [None] * n
    imax = [None] * n
    for i in range(n):
      if i in need_range or (k + i) % 3 == 0:
        lo, hi = RANGES[(k + i) % len(RANGES)]
        imin[i], imax[i] = lo, hi
    c = dict(c, input_min=imin if any(v is not None for v in imin) else None,
             input_max=imax if any(v is not None for v in imax) else None)
    if c['range_dom'] and c['input_min'] is None:
      continue
    if not valid_linear(c):
      continue
    for u in ((1, 2) if tier == 'thorough' else (1 + k % 2,)):
      jobs.append(('lp', dict(c, units=u)))
      jobs.append(('lcc', dict(c, units=u, spell=bool(k % 2))))
      if k % (3 if tier == 'quick' else 1) == 0:
        jobs.append(('layer_wiring', dict(c, layer='linear', units=u, bias=bool(k % 2))))
  out, seen = [], set()
  for j in jobs:
    key = json.dumps(j, sort_keys=True)
    if key not in seen:
      seen.add(key)
      out.append(j)
  return out


EVIDENCE = {
    'level': 'proof',
    'explanation': (
        'Deductive verification of the real bodies of linear_lib.project, categorical_calibration_lib.project, '
        'internal_utils.approximately_project_categorical_partial_monotonicities and the two constraint classes '
        'against contracts, per discrete configuration, for ALL real weight matrices and symbolic output bounds; '
        '_topological_sort is evaluated on every enumerated pair set (concrete input). Level `other`: '
        'configurations (dimension, DAG, dominance sets) are enumerated up to the stated bounds, and any obligation '
        'listed under known findings is refuted on the unchanged tree.'),
    'rule': ('one obligation = (function, configuration, clause, weight/unit); non-trivial = needed a solver '
             'call; distinct by (function, configuration, clause, path)'),
    'bounds': 'categorical: every labelled DAG on <= 3 nodes, 4 nodes sampled (quick) / all 543 (thorough); linear: '
              'dims <= 3 (quick) / 4 (thorough), <= 2 dominance pairs, concrete input ranges; units <= 2',
    'exhaustive_tiers': {'quick': False, 'thorough': True},
    'trusted_base': ['vt operator contracts (cross-checked against TensorFlow every run)', 'z3 and cvc5',
                     'sqrt axiom r >= 0 and r^2 == x for the 2-norm'],
    'assumptions': ['float arithmetic treated as exact real arithmetic',
                    'per-configuration proof; configurations enumerated up to the stated bounds'],
}

if __name__ == '__main__':
  import sys
  from vt import prop
  sys.exit(prop.main(sys.modules[__name__]))
