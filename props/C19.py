"""C19 - gradients delivered to training equal the true derivatives of the layer functions.

custom_reduce_prod: the contract library's tf.custom_gradient hands over the real grad_fn; for every
pattern of exact zeros (oracle) it is proved equal to dy * prod_{j != i} t_j.  Lattice / PWL /
Categorical / KFL outputs are proved linear in the kernel with the interpolation weights as
coefficients (autodiff of a linear map returning its coefficients is the trusted step).
"""
import itertools
import json
from fractions import Fraction as Fr

import numpy as np

from vt import ctx as C
from vt import expr as E
from vt import harness as H
from vt import load
from vt import tfc
from vt.expr import P, B
from vt.prop import Case

PROPERTY = 'C19'


def _names(t):
  out = []
  for v in t.a.flat:
    (m, c), = v.t.items()
    out.append(E.ATOMS[m[0][0]].name)
  return out


_RP_SCRIPT = """
import numpy as np
spec = args[0]
kl = mod('kronecker_factored_lattice_lib')
t = tf.constant(np.array(spec['t'], dtype='float32'))
dy = np.array(spec['dy'], dtype='float32')
with tf.GradientTape() as tape:
  tape.watch(t)
  y = kl.custom_reduce_prod(t, spec['axis'])
  loss = tf.reduce_sum(y * tf.constant(dy))
g = tape.gradient(loss, t).numpy()
tn = np.array(spec['t'], dtype='float64')
ax = spec['axis'] % tn.ndim
want = np.zeros_like(tn)
for idx in np.ndindex(*tn.shape):
  o = idx[:ax] + idx[ax + 1:]
  p = float(dy[o])
  for k in range(tn.shape[ax]):
    if k != idx[ax]:
      p *= tn[idx[:ax] + (k,) + idx[ax + 1:]]
  want[idx] = p
result = {'gradient': g.tolist(), 'partial_products': want.tolist(), 'forward': y.numpy().tolist(),
          'max_abs_difference': float(np.max(np.abs(g - want)))}
"""


class ReduceProdCase(Case):
  contract_key = None
  xcheck = False

  def replay_desc(self, cfg, model, g):
    shape = cfg['shape']
    zeros = set(tuple(z) for z in cfg['zeros'])
    m = {k: float(Fr(v)) for k, v in (model or {}).items() if v is not None}
    t = np.zeros(shape)
    for idx in np.ndindex(*shape):
      if idx in zeros:
        t[idx] = 0.0
      else:
        v = m.get('t%s' % (list(idx),), 1.5)
        t[idx] = v if abs(v) > 1e-3 else 1.5      # the pattern says non-zero
    ax = cfg['axis'] % len(shape)
    out_shape = tuple(s_ for i, s_ in enumerate(shape) if i != ax)
    dy = np.ones(out_shape)
    for o in np.ndindex(*out_shape):
      v = m.get('dy%s' % (list(o),))
      if v is not None and abs(v) > 1e-3:
        dy[o] = v
    return {'kind': 'script', 'code': _RP_SCRIPT, 'floatx': 'float32',
            'args': [{'t': t.tolist(), 'dy': dy.tolist(), 'axis': cfg['axis']}], 'kwargs': {}}

  def replay_eval(self, cfg, model, g, desc, nat):
    failing = []
    if 'error' in nat:
      failing.append('raised ' + nat['error'][:200])
    elif nat['ok']['max_abs_difference'] > 1e-4 * (1 + float(np.max(np.abs(nat['ok']['partial_products'])))):
      failing.append('gradient differs from the partial products by %g' % nat['ok']['max_abs_difference'])
    return {'desc': {k: v for k, v in desc.items() if k != 'code'}, 'native': {k: v for k, v in nat.items() if k != 'trace'},
            'failing': failing}

  def body(self, cfg, c):
    kl = load.mod('kronecker_factored_lattice_lib')
    shape, axis = cfg['shape'], cfg['axis']
    t = tfc.sym(shape, 't')
    names = np.array(_names(t)).reshape(shape)
    zeros = set(tuple(z) for z in cfg['zeros'])
    bounds, nonzero = {}, set()
    for idx in np.ndindex(*shape):
      if idx in zeros:
        bounds[names[idx]] = (Fr(0), Fr(0))
      else:
        nonzero.add(names[idx])
    R = E.Region(bounds, nonzero)
    c.assume(R.formula(), 'zero pattern')
    fwd = kl.custom_reduce_prod(t, axis)
    recs = [r for r in c.custom_gradients]
    cl = [('custom-gradient-registered', B.const(len(recs) == 1))]
    if len(recs) != 1:
      return cl
    grad_fn = recs[0][4]
    ax = axis % len(shape)
    out_shape = tuple(s for i, s in enumerate(shape) if i != ax)
    dy = tfc.sym(out_shape, 'dy')
    g = grad_fn(dy)
    cl.append(('gradient-shape', B.const(tuple(g.a.shape) == tuple(shape))))
    if tuple(g.a.shape) != tuple(shape):
      return cl
    # forward value
    for o in np.ndindex(*out_shape):
      want = P.const(1)
      for k in range(shape[ax]):
        want = want * t.a[o[:ax] + (k,) + o[ax:]]
      d = R.simplify(P.lift(fwd.a[o]) - want)
      cl.append(('forward-is-product%s' % (list(o),),
                 E.TRUE if d.same(0) else P.lift(fwd.a[o]).eq(want)))
    # gradient: dy * product of the other factors along the axis
    for idx in np.ndindex(*shape):
      o = idx[:ax] + idx[ax + 1:]
      want = P.lift(dy.a[o])
      for k in range(shape[ax]):
        if k != idx[ax]:
          want = want * t.a[idx[:ax] + (k,) + idx[ax + 1:]]
      d = R.simplify(P.lift(g.a[idx]) - want)
      cl.append(('gradient-is-partial-product%s' % (list(idx),),
                 E.TRUE if d.same(0) else P.lift(g.a[idx]).eq(want)))
    return cl


def _linear_in(out_elems, kernel, label, expected):
  """Every output element is affine in the kernel entries with kernel-free coefficients equal to
  `expected[(out index, kernel index)]` (missing = 0)."""
  ids = {}
  for kidx in np.ndindex(*kernel.a.shape):
    (m, c), = kernel.a[kidx].t.items()
    ids[m[0][0]] = kidx
  cl = []
  for oidx, o in out_elems:
    sp = P.lift(o).split_linear(set(ids))
    if sp is None:
      cl.append(('%s:linear-in-kernel%s' % (label, list(oidx)), E.FALSE))
      continue
    coeff, rest = sp
    cl.append(('%s:linear-in-kernel%s' % (label, list(oidx)), E.TRUE))
    for aid, kidx in ids.items():
      got = coeff.get(aid, P.const(0))
      want = expected.get((oidx, kidx), P.const(0))
      d = got - P.lift(want)
      cl.append(('%s:d-out%s/d-kernel%s' % (label, list(oidx), list(kidx)),
                 E.TRUE if d.same(0) else got.eq(P.lift(want))))
  return cl


class LinearityCase(Case):
  contract_key = None
  xcheck = False

  def setup(self, cfg, c):
    c.int_cast_range = (0, 3)

  def body(self, cfg, c):
    kind = cfg['layer']
    cl = []
    if kind == 'lattice':
      ll = load.mod('lattice_lib')
      sizes, U = cfg['sizes'], cfg['units']
      n = int(np.prod(sizes))
      K = tfc.sym([n, U], 'K')
      x = tfc.sym([1] + ([U] if U > 1 else []) + [len(sizes)], 'x')
      if cfg.get('as_list'):
        # the same point given as a list of per-dimension tensors (a separate code path for clipping / bucketizing)
        x = [x[..., d:d + 1] for d in range(len(sizes))]
      w = ll.compute_interpolation_weights(x, sizes, True)
      out = ll.evaluate_with_hypercube_interpolation(x, K, U, sizes, True)
      exp = {}
      outs = []
      for u in range(U):
        oidx = (0, 0) if U == 1 else (0, u)
        outs.append((oidx, out.a[oidx]))
        for v in range(n):
          exp[(oidx, (v, u))] = w.a[(0, v)] if U == 1 else w.a[(0, u, v)]
      cl += _linear_in(outs, K, 'lattice', exp)
      # the coefficients are non-negative and sum to one (clipped inputs)
      for u in range(U):
        tot = P.const(0)
        for v in range(n):
          wv = P.lift(w.a[(0, v)] if U == 1 else w.a[(0, u, v)])
          tot = tot + wv
          cl.append(('lattice:weight>=0[u%d,v%d]' % (u, v), wv >= 0))
        cl.append(('lattice:weights-sum-to-one[u%d]' % u, tot.eq(1)))
    elif kind == 'pwl':
      import props.C05 as C05
      layer = C05._pwl_layer(dict(nk=cfg['nk'], kpset=cfg.get('kpset', 0), units=cfg['units']))
      K = layer.kernel
      x = tfc.sym([1, cfg['units']], 'x')
      out = layer.call(x)
      pl = load.mod('pwl_calibration_lib')
      exp, outs = {}, []
      for u in range(cfg['units']):
        wts = pl.compute_interpolation_weights(x[:, u:u + 1], layer._interpolation_keypoints, layer._lengths)
        outs.append(((0, u), out.a[0, u]))
        for i in range(K.a.shape[0]):
          exp[((0, u), (i, u))] = wts.a[0, i]
      cl += _linear_in(outs, tfc.Tensor(K.a, K.dtype), 'pwl', exp)
    elif kind == 'categorical':
      import props.C05 as C05
      nb, U = cfg['buckets'], cfg['units']
      case = C05.CASES['cat_call']
      ids = [[i % nb for _ in range(U)] for i in range(nb)]
      (layer, x), _ = case.build(dict(buckets=nb, units=U, split=False, default=None, in_cols=U,
                                      ids=ids, int_input=True))
      out = layer.call(x)
      exp, outs = {}, []
      for b in range(nb):
        for u in range(U):
          outs.append(((b, u), out.a[b, u]))
          exp[((b, u), (ids[b][u], u))] = P.const(1)
      cl += _linear_in(outs, tfc.Tensor(layer.kernel.a, tfc.float32), 'categorical', exp)
    return cl


CASES = {'reduce_prod': ReduceProdCase(), 'linearity': LinearityCase()}


def configs(tier, rng):
  jobs = []
  shapes = [[2], [3], [2, 2], [2, 3], [3, 2], [2, 3, 2]]
  if tier == 'thorough':
    shapes += [[4], [3, 3], [2, 2, 3]]
  for shape in shapes:
    n = int(np.prod(shape))
    idxs = list(np.ndindex(*shape))
    for axis in list(range(len(shape))) + [-1, -2][:len(shape)]:
      patterns = []
      if n <= 6 or tier == 'thorough':
        for k in range(n + 1):
          for comb in itertools.combinations(idxs, k):
            patterns.append(comb)
        if tier == 'quick' and len(patterns) > 40:
          rng.shuffle(patterns)
          patterns = [()] + patterns[:40]
      else:
        patterns = [()] + [(i,) for i in idxs]
        for _ in range(30):
          k = rng.randint(2, min(5, n))
          patterns.append(tuple(rng.sample(idxs, k)))
      for z in patterns:
        jobs.append(('reduce_prod', dict(shape=shape, axis=axis, zeros=[list(map(int, i)) for i in z])))
  for sizes in ([2], [3], [2, 2], [2, 3], [2, 2, 2], [3, 2], [2, 3, 2]):
    for U in (1, 2):
      jobs.append(('linearity', dict(layer='lattice', sizes=sizes, units=U)))
      if len(sizes) > 1:
        jobs.append(('linearity', dict(layer='lattice', sizes=sizes, units=U, as_list=True)))
  for nk in (2, 3, 4):
    for U in (1, 2):
      jobs.append(('linearity', dict(layer='pwl', nk=nk, units=U)))
  for nb in (2, 3):
    for U in (1, 2):
      jobs.append(('linearity', dict(layer='categorical', buckets=nb, units=U)))
  out, seen = [], set()
  for j in jobs:
    key = json.dumps(j, sort_keys=True)
    if key not in seen:
      seen.add(key)
      out.append(j)
  return out


EVIDENCE = {
    'level': 'proof',
    'explanation': (
        'kfl_lib.custom_reduce_prod is executed through the contract for tf.custom_gradient, which exposes the real '
        'grad_fn; for every enumerated pattern of exact zeros (the tf.equal(t, 0) tests are resolved by the pattern) the '
        'returned gradient is proved equal to dy * prod_{j != i} t_j and the forward value to the product, by exact '
        'normal form with x * (1/x) cancellation on the non-zero entries. The Lattice, PWLCalibration and '
        'CategoricalCalibration evaluation paths are proved affine in the kernel with kernel-free coefficients equal to '
        'the interpolation weights computed by the real weight functions (non-negative, summing to one for Lattice).'),
    'rule': 'one obligation = (tensor shape, axis, zero pattern, element) or (layer configuration, output, kernel entry)',
    'bounds': 'tensors up to 2x3x2, every axis, all zero patterns for <= 6 entries (sampled above in quick); lattices up to '
              '2x2x2 / 2x3, PWL 2-4 keypoints, categorical <= 3 buckets, units <= 2',
    'exhaustive_tiers': {'quick': False, 'thorough': False},
    'trusted_base': ['vt operator contracts incl. tf.custom_gradient and divide_no_nan', 'autodiff of standard TF ops '
                     '(chain rule, derivative of an affine map is its coefficient) - TensorFlow registered gradients',
                     'z3 and cvc5'],
    'assumptions': ['float arithmetic treated as exact real arithmetic'],
}

if __name__ == '__main__':
  import sys
  from vt import prop
  sys.exit(prop.main(sys.modules[__name__]))
