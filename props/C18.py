"""C18 - computed calibration keypoints are valid for every data sample.

Bounded stand-in only (labelled as such, never counted as proved): compute_keypoints and
_weighted_quantile are numpy-internal (np.unique, np.quantile, np.interp, np.rint, np.add.reduceat)
and return arrays of data-dependent length, which no contract within reach can express for all
arrays.  The postconditions of the property are attached to the real function and evaluated on a
complete small domain (values in {0..3}^n, weights, clip bounds, default value, both modes and
reductions), plus the config helpers.
"""
import itertools
import json

import numpy as np

from vt import ctx as C
from vt import expr as E
from vt import load
from vt.expr import P, B
from vt.prop import Case

PROPERTY = 'C18'


def postconditions(values, num_keypoints, keypoints, clip_min, clip_max, default_value, weights, kps):
  """Clauses of the property on a returned keypoint vector `kps` (None if the call raised)."""
  v = np.array(values, dtype=float)
  if default_value is not None:
    v = v[v != default_value]
  if clip_min is not None:
    v = np.append(np.maximum(v, clip_min), clip_min)
  if clip_max is not None:
    v = np.append(np.minimum(v, clip_max), clip_max)
  distinct = np.unique(v)
  cl = []
  k = np.asarray(kps, dtype=float)
  cl.append(('finite', bool(np.all(np.isfinite(k)))))
  if len(distinct) >= 2:
    cl.append(('strictly-increasing', bool(np.all(np.diff(k) > 0))))
    cl.append(('accepted-as-input_keypoints', len(k) >= 2 and bool(np.all(np.diff(k) > 0))))
  cl.append(('within-clipped-data-range', len(k) > 0 and k[0] >= distinct[0] and k[-1] <= distinct[-1]))
  cl.append(('first-is-lower-end', len(k) > 0 and k[0] == distinct[0]))
  cl.append(('last-is-upper-end', len(k) > 0 and k[-1] == distinct[-1]))
  if keypoints == 'quantiles':
    want = num_keypoints if len(distinct) >= num_keypoints else len(distinct)
    cl.append(('number-of-keypoints', len(k) == want))
    if len(distinct) < num_keypoints:
      cl.append(('falls-back-to-distinct-values', len(k) == len(distinct) and bool(np.all(k == distinct))))
    else:
      cl.append(('keypoints-are-data-values', bool(np.all(np.isin(k, distinct)))))
  else:
    cl.append(('number-of-keypoints', len(k) == num_keypoints))
  return cl


class KeypointsCase(Case):
  contract_key = None
  xcheck = False

  def _call(self, pl, cfg, values, weights):
    return pl.compute_keypoints(
        np.array(values, dtype=float), cfg['num_keypoints'], keypoints=cfg['mode'], clip_min=cfg.get('clip_min'),
        clip_max=cfg.get('clip_max'), default_value=cfg.get('default'),
        weights=None if weights is None else np.array(weights, dtype=float),
        weight_reduction=cfg.get('reduction', 'mean'))

  def body(self, cfg, c):
    pl = load.mod('premade_lib')
    cl = []
    n = cfg['n']
    bad = {}
    total = 0
    if cfg.get('skewed'):
      # distinct ascending values, all example weights positive, one or two heavy examples
      domain = []
      for m in cfg['ms']:
        vals = tuple(range(m))
        for heavy in cfg['heavy']:
          for pos in range(m):
            w = [1] * m
            w[pos] = heavy
            domain.append((vals, tuple(w)))
            if pos + 2 < m:
              w2 = list(w)
              w2[pos + 2] = heavy
              domain.append((vals, tuple(w2)))
    else:
      domain = None
    for values in (itertools.product(range(cfg['vmax'] + 1), repeat=n) if domain is None else [None]):
      if domain is not None:
        break
      if cfg.get('default') is not None and all(v == cfg['default'] for v in values):
        continue     # nothing left after removing the default value
      wlist = [None]
      if cfg.get('weighted'):
        wlist = [w for w in itertools.product(cfg['wvals'], repeat=n) if any(w)]
        if cfg.get('default') is not None:
          wlist = [w for w in wlist if any(wi for wi, vi in zip(w, values) if vi != cfg['default'])]
      for weights in wlist:
        total += 1
        # examples with weight zero are reported separately (see known finding F-C18b)
        tag = '' if weights is None or all(weights) else ' [some example weights are zero]'
        try:
          kps = self._call(pl, cfg, values, weights)
        except Exception as e:  # pylint: disable=broad-except
          bad.setdefault('returns-without-error%s (%s)' % (tag, type(e).__name__), (values, weights, str(e)[:80]))
          continue
        for nm, ok in postconditions(values, cfg['num_keypoints'], cfg['mode'], cfg.get('clip_min'),
                                     cfg.get('clip_max'), cfg.get('default'), weights, kps):
          if not ok:
            bad.setdefault(nm + tag, (values, weights, [float(x) for x in np.asarray(kps).ravel()]))
    for values, weights in (domain or []):
      total += 1
      try:
        kps = self._call(pl, cfg, values, weights)
      except Exception as e:  # pylint: disable=broad-except
        bad.setdefault('returns-without-error (%s)' % type(e).__name__, (values, weights, str(e)[:80]))
        continue
      for nm, ok in postconditions(values, cfg['num_keypoints'], cfg['mode'], cfg.get('clip_min'),
                                   cfg.get('clip_max'), cfg.get('default'), weights, kps):
        if not ok:
          bad.setdefault(nm, (values, weights, [float(x) for x in np.asarray(kps).ravel()]))
    c.notes.append('arrays evaluated: %d' % total)
    names = ['returns-without-error', 'finite', 'strictly-increasing', 'accepted-as-input_keypoints',
             'within-clipped-data-range', 'first-is-lower-end', 'last-is-upper-end', 'number-of-keypoints',
             'falls-back-to-distinct-values', 'keypoints-are-data-values']
    for nm in names:
      hit = [k for k in bad if k.startswith(nm)]
      if hit:
        for k in hit:
          cl.append(('%s: fails for values=%s weights=%s -> %s' % (k, list(bad[k][0]), None if bad[k][1] is None else list(bad[k][1]), bad[k][2]), E.FALSE))
      else:
        cl.append(('%s (all %d arrays)' % (nm, total), E.TRUE))
    return cl

  def replay_desc(self, cfg, model, g):
    import re
    m = re.search(r'values=(\[[^\]]*\]) weights=(None|\[[^\]]*\])', g.get('name', g.get('obligation', '')))
    if not m:
      return None
    spec = dict(cfg, values=json.loads(m.group(1)), weights=None if m.group(2) == 'None' else json.loads(m.group(2)))
    code = '''
import numpy as np
s = args[0]
pl = mod('premade_lib')
r = pl.compute_keypoints(np.array(s['values'], dtype=float), s['num_keypoints'], keypoints=s['mode'],
    clip_min=s.get('clip_min'), clip_max=s.get('clip_max'), default_value=s.get('default'),
    weights=None if s['weights'] is None else np.array(s['weights'], dtype=float), weight_reduction=s.get('reduction', 'mean'))
result = [float(x) for x in r]
'''
    return {'kind': 'script', 'code': code, 'args': [spec], 'kwargs': {}}

  def replay_eval(self, cfg, model, g, desc, nat):
    spec = desc['args'][0]
    failing = []
    if 'error' in nat:
      failing.append('raised ' + nat['error'][:200])
    else:
      for nm, ok in postconditions(spec['values'], spec['num_keypoints'], spec['mode'], spec.get('clip_min'),
                                   spec.get('clip_max'), spec.get('default'), spec['weights'], nat['ok']):
        if not ok:
          failing.append(nm)
    return {'desc': {k: v for k, v in desc.items() if k != 'code'},
            'native': {k: v for k, v in nat.items() if k != 'trace'}, 'failing': failing}


class HelpersCase(Case):
  """compute_feature_keypoints / compute_label_keypoints / set_*_keypoints fill configs with keypoints
  obeying the same rules (evaluated on small concrete data sets)."""
  contract_key = None
  xcheck = False

  def body(self, cfg, c):
    pl = load.mod('premade_lib')
    cf = load.mod('configs')
    data = {'a': np.array(cfg['a'], dtype=float), 'b': np.array(cfg['b'], dtype=float)}
    labels = np.array(cfg['labels'], dtype=float)
    fcs = [cf.FeatureConfig(name='a', pwl_calibration_num_keypoints=cfg['nk'], pwl_calibration_input_keypoints=cfg['mode']),
           cf.FeatureConfig(name='b', pwl_calibration_num_keypoints=cfg['nk'], pwl_calibration_input_keypoints=cfg['mode'],
                            default_value=cfg.get('default'))]
    cl = []
    try:
      kp = pl.compute_feature_keypoints(fcs, data)
      pl.set_feature_keypoints(fcs, kp, False)
      mc = cf.CalibratedLinearConfig(feature_configs=fcs, output_calibration=True,
                                     output_calibration_num_keypoints=cfg['nk'])
      lk = pl.compute_label_keypoints(mc, labels, False)
      pl.set_label_keypoints(mc, lk)
    except Exception as e:  # pylint: disable=broad-except
      return [('helpers-return-without-error: %s %s' % (type(e).__name__, str(e)[:80]), E.FALSE)]
    cl.append(('helpers-return-without-error', E.TRUE))
    for fc, vals, dv in ((fcs[0], data['a'], None), (fcs[1], data['b'], cfg.get('default'))):
      for nm, ok in postconditions(list(vals), cfg['nk'], cfg['mode'] if isinstance(cfg['mode'], str) else 'quantiles',
                                   None, None, dv, None, fc.pwl_calibration_input_keypoints):
        cl.append(('feature-%s:%s' % (fc.name, nm), B.const(bool(ok))))
    for nm, ok in postconditions(list(labels), cfg['nk'], 'quantiles', None, None, None, None,
                                 mc.output_initialization):
      cl.append(('label:%s' % nm, B.const(bool(ok))))
    return cl


class _Token(object):
  """A value the helper may only pass on."""

  def __init__(self, name):
    self.name = name

  def __repr__(self):
    return '<%s>' % self.name


_FWD_SCRIPT = """
import numpy as np
pl = mod('premade_lib'); cf = mod('configs')
found = []
cases = [([0.0, 1.0, 2.0, 3.0, 4.0], [0.0, 1.0, 1.0, 1.0, 1.0]), ([0.0, 1.0, 2.0, 3.0, 4.0], [1.0, 1.0, 1.0, 1.0, 0.0]),
         ([0.0, 1.0, 2.0, 3.0, 4.0], [1.0, 0.0, 1.0, 0.0, 1.0]), ([3.0, 3.0, 1.0, 2.0], [1.0, 1.0, 0.0, 0.0]),
         ([0.0, 1.0, 2.0, 3.0, 4.0], [2.0, 1.0, 1.0, 1.0, 5.0])]
for vals, w in cases:
  for mode in ('quantiles', 'uniform'):
    for nk in (2, 3, 5):
      fc = [cf.FeatureConfig(name='a', pwl_calibration_num_keypoints=nk, pwl_calibration_input_keypoints=mode)]
      try:
        got = pl.compute_feature_keypoints(fc, {'a': np.array(vals)}, weights=np.array(w))['a']
        want = pl.compute_keypoints(np.array(vals), num_keypoints=nk, keypoints=mode, weights=np.array(w))
        same = len(got) == len(want) and np.allclose(got, want)
      except Exception as e:
        got, want, same = 'raised %s' % type(e).__name__, None, False
      if not same:
        found.append('values=%s weights=%s mode=%s num_keypoints=%d: helper %s, compute_keypoints %s' % (
            vals, w, mode, nk, np.asarray(got).tolist() if not isinstance(got, str) else got, None if want is None else np.asarray(want).tolist()))
      if len(found) >= 3:
        break
result = found[:3]
"""


class ForwardingCase(Case):
  """compute_feature_keypoints against the contract of compute_keypoints (C18's main function): for every feature with
  a keypoint MODE the helper calls compute_keypoints exactly once with the feature's own data, the example weights and
  reduction it was given and the options of the feature config, and stores what that call returns; explicit keypoints
  are kept; categorical features are skipped.  Data and weights are opaque tokens - whatever the helper does with them
  it does for every data set (a helper that inspects them raises here and is then checked on concrete arrays,
  labelled bounded)."""
  contract_key = None
  xcheck = False

  def replay_desc(self, cfg, model, g):
    return {'kind': 'script', 'code': _FWD_SCRIPT, 'args': [], 'kwargs': {}}

  def replay_eval(self, cfg, model, g, desc, nat):
    failing = ['native comparison raised ' + nat['error'][:200]] if 'error' in nat else list(nat.get('ok') or [])
    return {'desc': {'kind': 'real compute_feature_keypoints against compute_keypoints on arrays with zero example weights'},
            'native': {k: v for k, v in nat.items() if k != 'trace'}, 'failing': failing}

  def _run(self, pl, cf, cfg, data, weights):
    fcs = [cf.FeatureConfig(name='a', pwl_calibration_num_keypoints=cfg['nk'], pwl_calibration_input_keypoints=cfg['mode'],
                            pwl_calibration_clip_min=cfg.get('clip_min'), pwl_calibration_clip_max=cfg.get('clip_max'),
                            default_value=cfg.get('default')),
           cf.FeatureConfig(name='b', pwl_calibration_num_keypoints=cfg['nk'] + 1, pwl_calibration_input_keypoints='uniform'),
           cf.FeatureConfig(name='c', num_buckets=3),
           cf.FeatureConfig(name='d', pwl_calibration_input_keypoints=[0.0, 0.5, 2.0])]
    calls = []
    saved = pl.compute_keypoints

    def recorder(values, num_keypoints, keypoints='quantiles', clip_min=None, clip_max=None, default_value=None,
                 weights=None, weight_reduction='mean', feature_name=''):
      tok = _Token('keypoints-of-call-%d' % len(calls))
      calls.append(dict(values=values, num_keypoints=num_keypoints, keypoints=keypoints, clip_min=clip_min, clip_max=clip_max,
                        default_value=default_value, weights=weights, weight_reduction=weight_reduction, result=tok))
      return tok
    pl.compute_keypoints = recorder
    try:
      kw = {}
      if cfg.get('weighted'):
        kw = dict(weights=weights, weight_reduction=cfg.get('reduction', 'mean'))
      out = pl.compute_feature_keypoints(fcs, data, **kw)
    finally:
      pl.compute_keypoints = saved
    return fcs, calls, out

  def body(self, cfg, c):
    pl = load.mod('premade_lib')
    cf = load.mod('configs')
    data = {k: _Token('data-' + k) for k in 'abcd'}
    weights = _Token('weights')
    tag = ''
    same = lambda x, y: x is y
    try:
      fcs, calls, out = self._run(pl, cf, cfg, data, weights)
    except Exception:  # pylint: disable=broad-except
      # the helper looks inside the data: concrete arrays with zero weights at the extremes instead
      tag = 'bounded:'
      data = {k: np.array([0.0, 1.0, 2.0, 3.0, 4.0]) + i for i, k in enumerate('abcd')}
      weights = np.array([0.0, 1.0, 2.0, 1.0, 0.0])
      same = lambda x, y: x is not None and y is not None and np.shape(x) == np.shape(y) and bool(np.all(np.asarray(x) == np.asarray(y)))
      try:
        fcs, calls, out = self._run(pl, cf, cfg, data, weights)
      except Exception as e:  # pylint: disable=broad-except
        return [('helper-returns-without-error: %s %s' % (type(e).__name__, str(e)[:80]), E.FALSE)]
    cl = [(tag + 'one-call-per-feature-with-a-keypoint-mode', B.const(len(calls) == 2))]
    by = {}
    for call in calls:
      for k in 'ab':
        if same(call['values'], data[k]):
          by[k] = call
    for k, fc in (('a', fcs[0]), ('b', fcs[1])):
      call = by.get(k)
      cl.append((tag + 'feature-%s:called-with-its-own-data-unchanged' % k, B.const(call is not None)))
      if call is None:
        continue
      cl.append((tag + 'feature-%s:num_keypoints-from-the-config' % k, B.const(call['num_keypoints'] == fc.pwl_calibration_num_keypoints)))
      cl.append((tag + 'feature-%s:mode-from-the-config' % k, B.const(call['keypoints'] == fc.pwl_calibration_input_keypoints)))
      for opt, want in (('clip_min', fc.pwl_calibration_clip_min), ('clip_max', fc.pwl_calibration_clip_max),
                        ('default_value', fc.default_value)):
        got = call[opt]
        cl.append((tag + 'feature-%s:%s-from-the-config' % (k, opt), B.const((got is None) == (want is None) and (want is None or got == want))))
      if cfg.get('weighted'):
        cl.append((tag + 'feature-%s:example-weights-passed-unchanged' % k, B.const(same(call['weights'], weights))))
        cl.append((tag + 'feature-%s:weight-reduction-passed' % k, B.const(call['weight_reduction'] == cfg.get('reduction', 'mean'))))
      else:
        cl.append((tag + 'feature-%s:no-example-weights' % k, B.const(call['weights'] is None)))
      cl.append((tag + 'feature-%s:result-is-what-compute_keypoints-returned' % k, B.const(out.get(k) is call['result'])))
    cl.append((tag + 'categorical-feature-skipped', B.const('c' not in out)))
    cl.append((tag + 'explicit-keypoints-kept', B.const(list(out.get('d', [])) == [0.0, 0.5, 2.0])))
    return cl


CASES = {'keypoints': KeypointsCase(), 'helpers': HelpersCase(), 'forwarding': ForwardingCase()}


def configs(tier, rng):
  jobs = []
  for mode in ('quantiles', 'uniform'):
    for nk in (2, 5):
      for (lo, hi, dv) in ((None, None, None), (0.0, 2.5, None), (None, 0.0, -1.0), (1.0, None, 0)):
        for weighted in (False, True):
          for reduction in (('mean', 'sum') if weighted else ('mean',)):
            jobs.append(('forwarding', dict(mode=mode, nk=nk, clip_min=lo, clip_max=hi, default=dv, weighted=weighted,
                                            reduction=reduction)))
  ns = (1, 2, 3, 4) if tier == 'quick' else (1, 2, 3, 4, 5)
  clips = [(None, None), (0.5, 2.5), (1.0, None), (None, 2.0), (1.0, 1.0), (0.0, 2.0)]   # 0.0: a falsy clip bound
  for n in ns:
    for mode in ('quantiles', 'uniform'):
      for nk in (2, 3, 4):
        for (lo, hi) in clips:
          for default in (None, 0):
            jobs.append(('keypoints', dict(n=n, vmax=3, mode=mode, num_keypoints=nk, clip_min=lo, clip_max=hi,
                                           default=default, weighted=False)))
            if n <= (3 if tier == 'quick' else 4):
              for red in ('mean', 'sum'):
                jobs.append(('keypoints', dict(n=n, vmax=3 if n <= 2 else 2, mode=mode, num_keypoints=nk, clip_min=lo,
                                               clip_max=hi, default=default, weighted=True, wvals=[0, 1, 2],
                                               reduction=red)))
  # strongly skewed positive example weights (several quantiles fall on the same example)
  for nk in (4, 5, 6, 8):
    for red in ('mean', 'sum'):
      for (lo, hi) in ((None, None), (0.5, None)):
        jobs.append(('keypoints', dict(n=0, vmax=0, skewed=True, ms=[nk, nk + 1, nk + 3], heavy=[10, 60], mode='quantiles',
                                       num_keypoints=nk, clip_min=lo, clip_max=hi, default=None, weighted=True, reduction=red)))
  for mode in ('quantiles', 'uniform'):
    for nk in (2, 3):
      for default in (None, -1.0):
        jobs.append(('helpers', dict(a=[0, 1, 2, 3, 3, 5], b=[-1, 2, 2, 4, -1, 7], labels=[0, 1, 0, 1, 1, 3], nk=nk,
                                     mode=mode, default=default)))
        jobs.append(('helpers', dict(a=[1, 1, 1, 2], b=[3, 3, -1, 3], labels=[0, 0, 1, 1], nk=nk, mode=mode,
                                     default=default)))
  out, seen = [], set()
  for j in jobs:
    key = json.dumps(j, sort_keys=True)
    if key not in seen:
      seen.add(key)
      out.append(j)
  return out


EVIDENCE = {
    'level': 'exploration',
    'explanation': (
        'BOUNDED stand-in only: no contract within reach decides this property for all arrays (numpy-internal code, result '
        'length depends on the data). The postconditions of the statement are evaluated on the REAL compute_keypoints for the '
        'complete domain values in {0..3}^n (n <= 4 quick / 5 thorough) x optional weights in {0,1,2}^n (not all zero) x clip '
        'bounds x default value x num_keypoints 2-4 x both modes x both reductions, and on the config helpers for small data '
        'sets. Nothing here is counted as proved. One modular obligation set is parametric rather than enumerated (case '
        'forwarding): compute_feature_keypoints is run with OPAQUE data and weight tokens against a recorder in place of '
        'compute_keypoints - it calls it once per feature with the data of that feature, the given example weights / reduction and '
        'the options of the feature config, and stores the result: whatever holds for compute_keypoints then holds for the '
        'configs the helper fills, for every data set.'),
    'rule': 'one evaluation = one (array, weights, options) call of the real function with all postconditions; non-trivial = '
            'arrays with at least two distinct clipped values; obligations are per (configuration, postcondition) summaries',
    'bounds': 'see explanation',
    'exhaustive_tiers': {'quick': True, 'thorough': True},
    'trusted_base': ['numpy'],
    'assumptions': ['bounded enumeration, not a proof; empty data (everything equal to the default value) is excluded'],
}

if __name__ == '__main__':
  import sys
  from vt import prop
  sys.exit(prop.main(sys.modules[__name__]))
