"""C18 - computed calibration keypoints are valid for every data sample.

Bounded stand-in only (labelled as such, never counted as proved): compute_keypoints and
_weighted_quantile are numpy-internal (np.unique, np.quantile, np.interp, np.rint, np.add.reduceat)
and return arrays of data-dependent length, which no contract within reach can express for all
arrays.  The postconditions of the property are attached to the real function and evaluated on a
complete small domain (values in {0..3}^n, weights, clip bounds, default value, both modes and
reductions), plus the config helpers.
"""
import itertools
import json

import numpy as np

from vt import ctx as C
from vt import expr as E
from vt import load
from vt.expr import P, B
from vt.prop import Case

PROPERTY = 'C18'


def postconditions(values, num_keypoints, keypoints, clip_min, clip_max, default_value, weights, kps):
  """Clauses of the property on a returned keypoint vector `kps` (None if the call raised)."""
  v = np.array(values, dtype=float)
  if default_value is not None:
    v = v[v != default_value]
  if clip_min is not None:
    v = np.append(np.maximum(v, clip_min), clip_min)
  if clip_max is not None:
    v = np.append(np.minimum(v, clip_max), clip_max)
  distinct = np.unique(v)
  cl = []
  k = np.asarray(kps, dtype=float)
  cl.append(('finite', bool(np.all(np.isfinite(k)))))
  if len(distinct) >= 2:
    cl.append(('strictly-increasing', bool(np.all(np.diff(k) > 0))))
    cl.append(('accepted-as-input_keypoints', len(k) >= 2 and bool(np.all(np.diff(k) > 0))))
  cl.append(('within-clipped-data-range', len(k) > 0 and k[0] >= distinct[0] and k[-1] <= distinct[-1]))
  cl.append(('first-is-lower-end', len(k) > 0 and k[0] == distinct[0]))
  cl.append(('last-is-upper-end', len(k) > 0 and k[-1] == distinct[-1]))
  if keypoints == 'quantiles':
    want = num_keypoints if len(distinct) >= num_keypoints else len(distinct)
    cl.append(('number-of-keypoints', len(k) == want))
    if len(distinct) < num_keypoints:
      cl.append(('falls-back-to-distinct-values', len(k) == len(distinct) and bool(np.all(k == distinct))))
    else:
      cl.append(('keypoints-are-data-values', bool(np.all(np.isin(k, distinct)))))
  else:
    cl.append(('number-of-keypoints', len(k) == num_keypoints))
  return cl


class KeypointsCase(Case):
  contract_key = None
  xcheck = False

  def _call(self, pl, cfg, values, weights):
    return pl.compute_keypoints(
        np.array(values, dtype=float), cfg['num_keypoints'], keypoints=cfg['mode'], clip_min=cfg.get('clip_min'),
        clip_max=cfg.get('clip_max'), default_value=cfg.get('default'),
        weights=None if weights is None else np.array(weights, dtype=float),
        weight_reduction=cfg.get('reduction', 'mean'))

  def body(self, cfg, c):
    pl = load.mod('premade_lib')
    cl = []
    n = cfg['n']
    bad = {}
    total = 0
    if cfg.get('skewed'):
      # distinct ascending values, all example weights positive, one or two heavy examples
      domain = []
      for m in cfg['ms']:
        vals = tuple(range(m))
        for heavy in cfg['heavy']:
          for pos in range(m):
            w = [1] * m
            w[pos] = heavy
            domain.append((vals, tuple(w)))
            if pos + 2 < m:
              w2 = list(w)
              w2[pos + 2] = heavy
              domain.append((vals, tuple(w2)))
    else:
      domain = None
    for values in (itertools.product(range(cfg['vmax'] + 1), repeat=n) if domain is None else [None]):
      if domain is not None:
        break
      if cfg.get('default') is not None and all(v == cfg['default'] for v in values):
        continue     # nothing left after removing the default value
      wlist = [None]
      if cfg.get('weighted'):
        wlist = [w for w in itertools.product(cfg['wvals'], repeat=n) if any(w)]
        if cfg.get('default') is not None:
          wlist = [w for w in wlist if any(wi for wi, vi in zip(w, values) if vi != cfg['default'])]
      for weights in wlist:
        total += 1
        # examples with weight zero are reported separately (see known finding F-C18b)
        tag = '' if weights is None or all(weights) else ' [some example weights are zero]'
        try:
          kps = self._call(pl, cfg, values, weights)
        except Exception as e:  # pylint: disable=broad-except
          bad.setdefault('returns-without-error%s (%s)' % (tag, type(e).__name__), (values, weights, str(e)[:80]))
          continue
        for nm, ok in postconditions(values, cfg['num_keypoints'], cfg['mode'], cfg.get('clip_min'),
                                     cfg.get('clip_max'), cfg.get('default'), weights, kps):
          if not ok:
            bad.setdefault(nm + tag, (values, weights, [float(x) for x in np.asarray(kps).ravel()]))
    for values, weights in (domain or []):
      total += 1
      try:
        kps = self._call(pl, cfg, values, weights)
      except Exception as e:  # pylint: disable=broad-except
        bad.setdefault('returns-without-error (%s)' % type(e).__name__, (values, weights, str(e)[:80]))
        continue
      for nm, ok in postconditions(values, cfg['num_keypoints'], cfg['mode'], cfg.get('clip_min'),
                                   cfg.get('clip_max'), cfg.get('default'), weights, kps):
        if not ok:
          bad.setdefault(nm, (values, weights, [float(x) for x in np.asarray(kps).ravel()]))
    c.notes.append('arrays evaluated: %d' % total)
    names = ['returns-without-error', 'finite', 'strictly-increasing', 'accepted-as-input_keypoints',
             'within-clipped-data-range', 'first-is-lower-end', 'last-is-upper-end', 'number-of-keypoints',
             'falls-back-to-distinct-values', 'keypoints-are-data-values']
    for nm in names:
      hit = [k for k in bad if k.startswith(nm)]
      if hit:
        for k in hit:
          cl.append(('%s: fails for values=%s weights=%s -> %s' % (k, list(bad[k][0]), None if bad[k][1] is None else list(bad[k][1]), bad[k][2]), E.FALSE))
      else:
        cl.append(('%s (all %d arrays)' % (nm, total), E.TRUE))
    return cl

  def replay_desc(self, cfg, model, g):
    import re
    m = re.search(r'values=(\[[^\]]*\]) weights=(None|\[[^\]]*\])', g.get('name', g.get('obligation', '')))
    if not m:
      return None
    spec = dict(cfg, values=json.loads(m.group(1)), weights=None if m.group(2) == 'None' else json.loads(m.group(2)))
    code = '''
import numpy as np
s = args[0]
pl = mod('premade_lib')
r = pl.compute_keypoints(np.array(s['values'], dtype=float), s['num_keypoints'], keypoints=s['mode'],
    clip_min=s.get('clip_min'), clip_max=s.get('clip_max'), default_value=s.get('default'),
    weights=None if s['weights'] is None else np.array(s['weights'], dtype=float), weight_reduction=s.get('reduction', 'mean'))
result = [float(x) for x in r]
'''
    return {'kind': 'script', 'code': code, 'args': [spec], 'kwargs': {}}

  def replay_eval(self, cfg, model, g, desc, nat):
    spec = desc['args'][0]
    failing = []
    if 'error' in nat:
      failing.append('raised ' + nat['error'][:200])
    else:
      for nm, ok in postconditions(spec['values'], spec['num_keypoints'], spec['mode'], spec.get('clip_min'),
                                   spec.get('clip_max'), spec.get('default'), spec['weights'], nat['ok']):
        if not ok:
          failing.append(nm)
    return {'desc': {k: v for k, v in desc.items() if k != 'code'},
            'native': {k: v for k, v in nat.items() if k != 'trace'}, 'failing': failing}


class HelpersCase(Case):
  """compute_feature_keypoints / compute_label_keypoints / set_*_keypoints fill configs with keypoints
  obeying the same rules (evaluated on small concrete data sets)."""
  contract_key = None
  xcheck = False

  def body(self, cfg, c):
    pl = load.mod('premade_lib')
    cf = load.mod('configs')
    data = {'a': np.array(cfg['a'], dtype=float), 'b': np.array(cfg['b'], dtype=float)}
    labels = np.array(cfg['labels'], dtype=float)
    fcs = [cf.FeatureConfig(name='a', pwl_calibration_num_keypoints=cfg['nk'], pwl_calibration_input_keypoints=cfg['mode']),
           cf.FeatureConfig(name='b', pwl_calibration_num_keypoints=cfg['nk'], pwl_calibration_input_keypoints=cfg['mode'],
                            default_value=cfg.get('default'))]
    cl = []
    try:
      kp = pl.compute_feature_keypoints(fcs, data)
      pl.set_feature_keypoints(fcs, kp, False)
      mc = cf.CalibratedLinearConfig(feature_configs=fcs, output_calibration=True,
                                     output_calibration_num_keypoints=cfg['nk'])
      lk = pl.compute_label_keypoints(mc, labels, False)
      pl.set_label_keypoints(mc, lk)
    except Exception as e:  # pylint: disable=broad-except
      return [('helpers-return-without-error: %s %s' % (type(e).__name__, str(e)[:80]), E.FALSE)]
    cl.append(('helpers-return-without-error', E.TRUE))
    for fc, vals, dv in ((fcs[0], data['a'], None), (fcs[1], data['b'], cfg.get('default'))):
      for nm, ok in postconditions(list(vals), cfg['nk'], cfg['mode'] if isinstance(cfg['mode'], str) else 'quantiles',
                                   None, None, dv, None, fc.pwl_calibration_input_keypoints):
        cl.append(('feature-%s:%s' % (fc.name, nm), B.const(bool(ok))))
    for nm, ok in postconditions(list(labels), cfg['nk'], 'quantiles', None, None, None, None,
                                 mc.output_initialization):
      cl.append(('label:%s' % nm, B.const(bool(ok))))
    return cl


CASES = {'keypoints': KeypointsCase(), 'helpers': HelpersCase()}


def configs(tier, rng):
  jobs = []
  ns = (1, 2, 3, 4) if tier == 'quick' else (1, 2, 3, 4, 5)
  clips = [(None, None), (0.5, 2.5), (1.0, None), (None, 2.0), (1.0, 1.0), (0.0, 2.0)]   # 0.0: a falsy clip bound
  for n in ns:
    for mode in ('quantiles', 'uniform'):
      for nk in (2, 3, 4):
        for (lo, hi) in clips:
          for default in (None, 0):
            jobs.append(('keypoints', dict(n=n, vmax=3, mode=mode, num_keypoints=nk, clip_min=lo, clip_max=hi,
                                           default=default, weighted=False)))
            if n <= (3 if tier == 'quick' else 4):
              for red in ('mean', 'sum'):
                jobs.append(('keypoints', dict(n=n, vmax=3 if n <= 2 else 2, mode=mode, num_keypoints=nk, clip_min=lo,
                                               clip_max=hi, default=default, weighted=True, wvals=[0, 1, 2],
                                               reduction=red)))
  # strongly skewed positive example weights (several quantiles fall on the same example)
  for nk in (4, 5, 6, 8):
    for red in ('mean', 'sum'):
      for (lo, hi) in ((None, None), (0.5, None)):
        jobs.append(('keypoints', dict(n=0, vmax=0, skewed=True, ms=[nk, nk + 1, nk + 3], heavy=[10, 60], mode='quantiles',
                                       num_keypoints=nk, clip_min=lo, clip_max=hi, default=None, weighted=True, reduction=red)))
  for mode in ('quantiles', 'uniform'):
    for nk in (2, 3):
      for default in (None, -1.0):
        jobs.append(('helpers', dict(a=[0, 1, 2, 3, 3, 5], b=[-1, 2, 2, 4, -1, 7], labels=[0, 1, 0, 1, 1, 3], nk=nk,
                                     mode=mode, default=default)))
        jobs.append(('helpers', dict(a=[1, 1, 1, 2], b=[3, 3, -1, 3], labels=[0, 0, 1, 1], nk=nk, mode=mode,
                                     default=default)))
  out, seen = [], set()
  for j in jobs:
    key = json.dumps(j, sort_keys=True)
    if key not in seen:
      seen.add(key)
      out.append(j)
  return out


EVIDENCE = {
    'level': 'exploration',
    'explanation': (
        'BOUNDED stand-in only: no contract within reach decides this property for all arrays (numpy-internal code, result '
        'length depends on the data). The postconditions of the statement are evaluated on the REAL compute_keypoints for the '
        'complete domain values in {0..3}^n (n <= 4 quick / 5 thorough) x optional weights in {0,1,2}^n (not all zero) x clip '
        'bounds x default value x num_keypoints 2-4 x both modes x both reductions, and on the config helpers for small data '
        'sets. Nothing here is counted as proved.'),
    'rule': 'one evaluation = one (array, weights, options) call of the real function with all postconditions; non-trivial = '
            'arrays with at least two distinct clipped values; obligations are per (configuration, postcondition) summaries',
    'bounds': 'see explanation',
    'exhaustive_tiers': {'quick': True, 'thorough': True},
    'trusted_base': ['numpy'],
    'assumptions': ['bounded enumeration, not a proof; empty data (everything equal to the default value) is excluded'],
}

if __name__ == '__main__':
  import sys
  from vt import prop
  sys.exit(prop.main(sys.modules[__name__]))
