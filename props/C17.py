"""C17 - ensemble structures use every feature, fill each lattice, respect monotone slots.

The structure builders are pure Python over lists; randomness enters only through numpy's random
functions.  "For every seed" is replaced by "for every outcome of the random calls": the module's
`np` is rebound to a proxy whose random functions are driven by the path oracle (every outcome
enumerated for small sizes) or by a seeded sampler (larger sizes, labelled bounded).  The
postconditions are evaluated on the returned structure (the inputs are concrete).
"""
import itertools
import json
import random as _pyrandom

import numpy as np

from vt import ctx as C
from vt import expr as E
from vt import harness as H
from vt import load
from vt import tfc
from vt.expr import P, B
from vt.prop import Case

PROPERTY = 'C17'


class _RandomProxy(object):
  """numpy.random replacement: outcomes chosen by the oracle (mode 'all') or a sampler."""

  def __init__(self, mode, sample_seed=0):
    self.mode = mode
    self.rng = _pyrandom.Random(sample_seed)
    self.calls = 0

  def _pick(self, n, why):
    self.calls += 1
    if n <= 1:
      return 0
    if self.mode == 'all':
      return C.cur().choose(n, why)
    return self.rng.randrange(n)

  def seed(self, s):
    return None

  def RandomState(self, seed=None):  # pylint: disable=invalid-name
    return self

  def shuffle(self, lst):
    n = len(lst)
    items = list(lst)
    out = []
    # Fisher-Yates driven by the oracle: n * (n-1) * ... outcomes
    pool = list(range(n))
    for k in range(n):
      j = self._pick(len(pool), 'shuffle position %d' % k)
      out.append(items[pool.pop(j)])
    for i, v in enumerate(out):
      lst[i] = v

  def choice(self, a, size=None, replace=True):
    a = list(a)
    if size == 0:
      return []
    if not a:
      raise ValueError('a must be non-empty')
    if size is None:
      return a[self._pick(len(a), 'choice')]
    if replace:
      return [a[self._pick(len(a), 'choice')] for _ in range(size)]
    if size > len(a):
      raise ValueError('Cannot take a larger sample than population when replace=False')
    pool = list(a)
    out = []
    for _ in range(size):
      out.append(pool.pop(self._pick(len(pool), 'choice without replacement')))
    return out


class _NpProxy(object):

  def __init__(self, rnd):
    self.random = rnd

  def __getattr__(self, name):
    return getattr(np, name)


def _rtl_layer(cfg):
  rl = load.mod('rtl_layer')
  return rl.RTL(num_lattices=cfg['num_lattices'], lattice_rank=cfg['rank'], random_seed=cfg.get('seed', 0),
                avoid_intragroup_interaction=cfg.get('avoid', True))


def _rtl_shapes(cfg):
  shapes = {}
  if cfg.get('inc'):
    shapes['increasing'] = [(None, k) for k in cfg['inc']] if cfg.get('grouped') else (None, sum(cfg['inc']))
  if cfg.get('unc'):
    shapes['unconstrained'] = [(None, k) for k in cfg['unc']] if cfg.get('grouped') else (None, sum(cfg['unc']))
  return shapes


class RtlCase(Case):
  contract_key = None
  xcheck = False

  def body(self, cfg, c):
    rl = load.mod('rtl_layer')
    n_inc, n_unc = sum(cfg.get('inc') or []), sum(cfg.get('unc') or [])
    n = n_inc + n_unc
    mode = cfg.get('mode', 'real')
    saved = rl.np
    if mode != 'real':
      rl.np = _NpProxy(_RandomProxy(mode, cfg.get('sample', 0)))
    try:
      layer = _rtl_layer(cfg)
      structure = layer._get_rtl_structure(_rtl_shapes(cfg))
      if mode == 'real':
        again = _rtl_layer(cfg)._get_rtl_structure(_rtl_shapes(cfg))
    finally:
      rl.np = saved
    cl = []
    counts = [0] * n
    for monos, lattices in structure:
      for lat in lattices:
        cl.append(('lattice-has-exactly-rank-inputs', B.const(len(lat) == cfg['rank'] and len(monos) == cfg['rank'])))
        for k, idx in enumerate(lat):
          ok = 0 <= idx < n
          cl.append(('index-in-range', B.const(ok)))
          if ok:
            counts[idx] += 1
            # flattened order: sorted keys, 'increasing' before 'unconstrained'
            is_inc = idx < n_inc
            cl.append(('increasing-input-on-monotone-slot-only[%d]' % idx,
                       B.const(monos[k] == (1 if is_inc else 0))))
    n_lat = sum(len(l) for _, l in structure)
    cl.append(('number-of-lattices', B.const(n_lat == cfg['num_lattices'])))
    cl.append(('every-feature-used', B.const(all(v >= 1 for v in counts))))
    cl.append(('usage-counts-differ-by-at-most-one', B.const(max(counts) - min(counts) <= 1)))
    if mode == 'real':
      cl.append(('deterministic-in-the-seed', B.const(structure == again)))
    return cl


def _ensemble_config(cfg, lattices):
  cf = load.mod('configs')
  fc = [cf.FeatureConfig(name='f%d' % i) for i in range(cfg['features'])]
  return cf.CalibratedLatticeEnsembleConfig(feature_configs=fc, lattices=lattices,
                                            num_lattices=cfg['num_lattices'], lattice_rank=cfg['rank'],
                                            random_seed=cfg.get('seed', 0))


class RandomEnsembleCase(Case):
  contract_key = None
  xcheck = False

  def body(self, cfg, c):
    pl = load.mod('premade_lib')
    mode = cfg.get('mode', 'real')
    saved = pl.np
    if mode != 'real':
      pl.np = _NpProxy(_RandomProxy(mode, cfg.get('sample', 0)))
    try:
      mc = _ensemble_config(cfg, 'random')
      pl.set_random_lattice_ensemble(mc)
      lat = [list(map(str, l)) for l in mc.lattices]
      if mode == 'real':
        mc2 = _ensemble_config(cfg, 'random')
        pl.set_random_lattice_ensemble(mc2)
    finally:
      pl.np = saved
    names = ['f%d' % i for i in range(cfg['features'])]
    cl = [('number-of-lattices', B.const(len(lat) == cfg['num_lattices']))]
    for k, l in enumerate(lat):
      cl.append(('lattice-has-exactly-rank-inputs[%d]' % k, B.const(len(l) == cfg['rank'])))
      cl.append(('no-repeated-feature-in-lattice[%d]' % k, B.const(len(set(l)) == len(l))))
      cl.append(('only-known-features[%d]' % k, B.const(all(x in names for x in l))))
    cl.append(('every-feature-used', B.const(all(any(nm in l for l in lat) for nm in names))))
    if mode == 'real':
      cl.append(('deterministic-in-the-seed', B.const(lat == [list(map(str, l)) for l in mc2.lattices])))
    return cl


class PairsCoverCase(Case):
  contract_key = None
  xcheck = False

  def body(self, cfg, c):
    pl = load.mod('premade_lib')
    mode = cfg.get('mode', 'real')
    saved = pl.np
    if mode != 'real':
      pl.np = _NpProxy(_RandomProxy(mode, cfg.get('sample', 0)))
    try:
      mc = _ensemble_config(cfg, 'crystals')
      names = ['f%d' % i for i in range(cfg['features'])]
      pl._set_all_pairs_cover_lattices(mc, names)
      lat = [list(l) for l in mc.lattices]
    finally:
      pl.np = saved
    cl = []
    for a, b in itertools.combinations(names, 2):
      cl.append(('pair-together-in-some-lattice[%s,%s]' % (a, b), B.const(any(a in l and b in l for l in lat))))
    for k, l in enumerate(lat):
      cl.append(('lattice-not-larger-than-rank[%d]' % k, B.const(len(l) <= cfg['rank'])))
    return cl


_CRYSTALS_SCRIPT = '''
import itertools
spec = args[0]
pl = mod('premade_lib'); cf = mod('configs')
nf = spec['features']
tors = [[0.0] * nf for _ in range(nf)]
it = iter(spec['torsions'])
for i, j in itertools.combinations(range(nf), 2):
  v = next(it); tors[i][j] = tors[j][i] = v
pl._get_torsions_and_laplacians = lambda **kw: (tors, list(spec['laplacians']))
fc = [cf.FeatureConfig(name='f%d' % i) for i in range(nf)]
mc = cf.CalibratedLatticeEnsembleConfig(feature_configs=fc, lattices='crystals', num_lattices=spec['num_lattices'],
                                        lattice_rank=spec['rank'])
result = [[int(x) for x in l] for l in pl._get_final_crystal_lattices(mc, None, None, ['f%d' % i for i in range(nf)])]
'''


class CrystalsCase(Case):
  contract_key = None
  xcheck = False

  def replay_desc(self, cfg, model, g):
    return {'kind': 'script', 'code': _CRYSTALS_SCRIPT, 'args': [cfg], 'kwargs': {}}

  def replay_eval(self, cfg, model, g, desc, nat):
    failing = ['raised ' + nat['error'][:200]] if 'error' in nat else []
    return {'desc': {k: v for k, v in desc.items() if k != 'code'},
            'native': {k: v for k, v in nat.items() if k != 'trace'}, 'failing': failing}

  def body(self, cfg, c):
    pl = load.mod('premade_lib')
    nf = cfg['features']
    tors = [[0.0] * nf for _ in range(nf)]
    it = iter(cfg['torsions'])
    for i, j in itertools.combinations(range(nf), 2):
      v = next(it)
      tors[i][j] = tors[j][i] = v
    laps = list(cfg['laplacians'])
    saved = pl._get_torsions_and_laplacians
    pl._get_torsions_and_laplacians = lambda **kw: (tors, laps)
    try:
      mc = _ensemble_config(cfg, 'crystals')
      try:
        lat = pl._get_final_crystal_lattices(mc, None, None, ['f%d' % i for i in range(nf)])
      except (AssertionError, ValueError, ZeroDivisionError, FloatingPointError) as e:
        return [('returns-a-structure-for-these-scores: raised %s %s' % (type(e).__name__, str(e)[:60]), E.FALSE)]
    finally:
      pl._get_torsions_and_laplacians = saved
    cl = [('returns-a-structure-for-these-scores', E.TRUE),
          ('number-of-lattices', B.const(len(lat) == cfg['num_lattices']))]
    for k, l in enumerate(lat):
      cl.append(('lattice-has-exactly-rank-inputs[%d]' % k, B.const(len(l) == cfg['rank'])))
    cl.append(('every-feature-used', B.const(all(any(i in l for l in lat) for i in range(nf)))))
    return cl


CASES = {'rtl': RtlCase(), 'random_ensemble': RandomEnsembleCase(), 'pairs_cover': PairsCoverCase(),
         'crystals': CrystalsCase()}


def configs(tier, rng):
  jobs = []
  # RTL: (inc groups, unc groups, num_lattices, rank)
  rtl = [([1], [1], 1, 2), ([2], [], 1, 2), ([], [3], 2, 2), ([1], [2], 2, 2), ([2], [2], 2, 3), ([1, 1], [1], 2, 2),
         ([2], [3], 3, 2), ([3], [2], 4, 2), ([1], [4], 3, 3), ([2, 1], [1, 2], 4, 3), ([], [5], 5, 2), ([4], [], 2, 3)]
  for (inc, unc, nl, rk) in rtl:
    base = dict(inc=inc, unc=unc, num_lattices=nl, rank=rk)
    n = sum(inc) + sum(unc)
    if nl * rk < n:
      continue
    for grouped in (False, True):
      for seed in range(6 if tier == 'quick' else 40):
        jobs.append(('rtl', dict(base, grouped=grouped, seed=seed, mode='real')))
      if n <= 3 and nl * rk <= 4:
        jobs.append(('rtl', dict(base, grouped=grouped, mode='all')))
      for s in range(8 if tier == 'quick' else 200):
        jobs.append(('rtl', dict(base, grouped=grouped, mode='sample', sample=s)))
  ens = [(2, 1, 2), (3, 2, 2), (4, 2, 2), (4, 3, 2), (5, 3, 2), (5, 2, 3), (6, 3, 3), (3, 3, 3), (4, 4, 1)]
  for (nf, nl, rk) in ens:
    if nl * rk < nf or rk > nf:
      continue
    base = dict(features=nf, num_lattices=nl, rank=rk)
    for seed in range(5 if tier == 'quick' else 40):
      jobs.append(('random_ensemble', dict(base, seed=seed, mode='real')))
    if nf <= 4 and nl * rk <= 6:
      jobs.append(('random_ensemble', dict(base, mode='all')))
    for s in range(8 if tier == 'quick' else 200):
      jobs.append(('random_ensemble', dict(base, mode='sample', sample=s)))
  for (nf, rk) in ((3, 2), (4, 2), (4, 3), (5, 3), (5, 2), (6, 4)):
    base = dict(features=nf, num_lattices=2, rank=rk)
    if nf <= 4:
      jobs.append(('pairs_cover', dict(base, mode='all')))
    for s in range(8 if tier == 'quick' else 100):
      jobs.append(('pairs_cover', dict(base, mode='sample', sample=s)))
    for seed in range(3):
      jobs.append(('pairs_cover', dict(base, seed=seed, mode='real')))
  grid = [0.0, 0.5, 1.0, 3.0, 7.0]
  # shapes where a heavily used feature meets full lattices: more lattices of rank 3 than the features fill once
  for (nf, nl, rk) in ((3, 2, 2), (4, 2, 3), (4, 3, 2), (5, 3, 2), (4, 3, 3), (5, 4, 3), (6, 5, 3)):
    npairs = nf * (nf - 1) // 2
    for s in range((25 if rk == 2 or nl < 3 else 40) if tier == 'quick' else 300):
      r = _pyrandom.Random(1000 * nf + s)
      tors = [r.choice(grid) for _ in range(npairs)]
      laps = [r.choice(grid) for _ in range(nf)]
      if s == 0:
        tors, laps = [1.0] * npairs, [1.0] * nf     # all-equal prefit
      if s == 1:
        tors, laps = [0.0] * npairs, [0.0] * nf     # degenerate all-zero prefit
      imp = list(laps)
      it_ = iter(tors)
      for i, j in itertools.combinations(range(nf), 2):
        v = next(it_)
        imp[i] += v
        imp[j] += v
      jobs.append(('crystals', dict(features=nf, num_lattices=nl, rank=rk, torsions=tors, laplacians=laps,
                                    zero_importance_feature=any(v == 0 for v in imp))))
  out, seen = [], set()
  for j in jobs:
    key = json.dumps(j, sort_keys=True)
    if key not in seen:
      seen.add(key)
      out.append(j)
  return out


EVIDENCE = {
    'level': 'exploration',
    'explanation': (
        'BOUNDED stand-in (not a proof): the structure builders RTL._get_rtl_structure, set_random_lattice_ensemble, '
        '_set_all_pairs_cover_lattices and _get_final_crystal_lattices are pure Python on concrete lists whose only '
        'non-determinism is numpy randomness. The module-level numpy is rebound to a proxy whose random functions are '
        'driven by a path oracle: every outcome of every random call is enumerated for the smallest sizes, larger sizes use '
        'a seeded sampler of outcomes plus real numpy seeds; Crystals scores come from a small grid incl. ties, all-equal and '
        'all-zero prefits. Postconditions of the property are evaluated on each returned structure; determinism in the seed '
        'is checked by building twice with the real generator. No contract within reach states these properties for all '
        'list lengths; the enumeration is exhaustive only inside the stated sizes.'),
    'rule': 'one obligation = (builder, configuration, random outcome / seed / score vector, postcondition instance)',
    'bounds': 'RTL <= 6 inputs, <= 5 lattices, rank <= 3; ensembles <= 6 features, <= 4 lattices; all oracle outcomes only for '
              '<= 3-4 inputs; Crystals scores in {0, 0.5, 1, 3}',
    'exhaustive_tiers': {'quick': False, 'thorough': False},
    'trusted_base': ['a seeded numpy generator is deterministic', 'the random proxy covers every numpy random call these builders make '
                     '(seed, RandomState.shuffle, shuffle, choice)'],
    'assumptions': ['evaluation of concrete structures, not symbolic proof'],
}

if __name__ == '__main__':
  import sys
  from vt import prop
  sys.exit(prop.main(sys.modules[__name__]))
