"""C17 - ensemble structures use every feature, fill each lattice, respect monotone slots.

The structure builders are pure Python over lists; randomness enters only through numpy's random
functions.  "For every seed" is replaced by "for every outcome of the random calls": the module's
`np` is rebound to a proxy whose random functions are driven by the path oracle (every outcome
enumerated for small sizes) or by a seeded sampler (larger sizes, labelled bounded).  The
postconditions are evaluated on the returned structure (the inputs are concrete).
"""
import itertools
import json
import random as _pyrandom

import numpy as np

from vt import ctx as C
from vt import expr as E
from vt import harness as H
from vt import load
from vt import tfc
from vt.expr import P, B
from vt.prop import Case

PROPERTY = 'C17'


class _RandomProxy(object):
  """numpy.random replacement: outcomes chosen by the oracle (mode 'all') or a sampler."""

  def __init__(self, mode, sample_seed=0):
    self.mode = mode
    self.rng = _pyrandom.Random(sample_seed)
    self.calls = 0

  def _pick(self, n, why):
    self.calls += 1
    if n <= 1:
      return 0
    if self.mode == 'all':
      return C.cur().choose(n, why)
    return self.rng.randrange(n)

  def seed(self, s):
    return None

  def RandomState(self, seed=None):  # pylint: disable=invalid-name
    return self

  def shuffle(self, lst):
    n = len(lst)
    items = list(lst)
    out = []
    # Fisher-Yates driven by the oracle: n * (n-1) * ... outcomes
    pool = list(range(n))
    for k in range(n):
      j = self._pick(len(pool), 'shuffle position %d' % k)
      out.append(items[pool.pop(j)])
    for i, v in enumerate(out):
      lst[i] = v

  def choice(self, a, size=None, replace=True):
    a = list(a)
    if size == 0:
      return []
    if not a:
      raise ValueError('a must be non-empty')
    if size is None:
      return a[self._pick(len(a), 'choice')]
    if replace:
      return [a[self._pick(len(a), 'choice')] for _ in range(size)]
    if size > len(a):
      raise ValueError('Cannot take a larger sample than population when replace=False')
    pool = list(a)
    out = []
    for _ in range(size):
      out.append(pool.pop(self._pick(len(pool), 'choice without replacement')))
    return out


class _NpProxy(object):

  def __init__(self, rnd):
    self.random = rnd

  def __getattr__(self, name):
    return getattr(np, name)


def _rtl_layer(cfg):
  rl = load.mod('rtl_layer')
  return rl.RTL(num_lattices=cfg['num_lattices'], lattice_rank=cfg['rank'], random_seed=cfg.get('seed', 0),
                avoid_intragroup_interaction=cfg.get('avoid', True))


def _rtl_shapes(cfg):
  shapes = {}
  if cfg.get('inc'):
    shapes['increasing'] = [(None, k) for k in cfg['inc']] if cfg.get('grouped') else (None, sum(cfg['inc']))
  if cfg.get('unc'):
    shapes['unconstrained'] = [(None, k) for k in cfg['unc']] if cfg.get('grouped') else (None, sum(cfg['unc']))
  return shapes


class RtlCase(Case):
  contract_key = None
  xcheck = False

  def body(self, cfg, c):
    return [('bounded:' + n, b) for n, b in self._body(cfg, c)]

  def _body(self, cfg, c):
    rl = load.mod('rtl_layer')
    n_inc, n_unc = sum(cfg.get('inc') or []), sum(cfg.get('unc') or [])
    n = n_inc + n_unc
    mode = cfg.get('mode', 'real')
    saved = rl.np
    if mode != 'real':
      rl.np = _NpProxy(_RandomProxy(mode, cfg.get('sample', 0)))
    try:
      layer = _rtl_layer(cfg)
      structure = layer._get_rtl_structure(_rtl_shapes(cfg))
      if mode == 'real':
        again = _rtl_layer(cfg)._get_rtl_structure(_rtl_shapes(cfg))
    finally:
      rl.np = saved
    cl = []
    counts = [0] * n
    for monos, lattices in structure:
      for lat in lattices:
        cl.append(('lattice-has-exactly-rank-inputs', B.const(len(lat) == cfg['rank'] and len(monos) == cfg['rank'])))
        for k, idx in enumerate(lat):
          ok = 0 <= idx < n
          cl.append(('index-in-range', B.const(ok)))
          if ok:
            counts[idx] += 1
            # flattened order: sorted keys, 'increasing' before 'unconstrained'
            is_inc = idx < n_inc
            cl.append(('increasing-input-on-monotone-slot-only[%d]' % idx,
                       B.const(monos[k] == (1 if is_inc else 0))))
    n_lat = sum(len(l) for _, l in structure)
    cl.append(('number-of-lattices', B.const(n_lat == cfg['num_lattices'])))
    cl.append(('every-feature-used', B.const(all(v >= 1 for v in counts))))
    cl.append(('usage-counts-differ-by-at-most-one', B.const(max(counts) - min(counts) <= 1)))
    if mode == 'real':
      cl.append(('deterministic-in-the-seed', B.const(structure == again)))
    return cl



# ----------------------------------------------------------------- RTL: deductive, for every seed
#
# `_get_rtl_structure` is cut MECHANICALLY (from the AST of the working tree, on every run) at its single
# top-level `while` statement into a prefix, the innermost loop body of the swap loop and a suffix; nothing is
# rewritten except `continue` -> `return locals()` inside the extracted body and an added `return locals()`.
#   prefix  - run on the real input description with `np.random.RandomState(...).shuffle` under its CONTRACT
#             ("the list is rearranged by an unknown permutation"): the shuffled list is refilled with fresh
#             opaque tokens, so whatever the code does afterwards it does for every permutation (= every seed).
#   body    - loop invariant of the swap loop (every lattice keeps its length, the slots are only exchanged),
#             proved on tokens whose group / monotonicity / index are symbolic; `==`, `in` on them fork the path.
#   suffix  - sort + grouping, on tokens with every monotonicity pattern and opaque input indices.
# The clauses of the property follow from prefix-post /\ invariant /\ suffix-post (composition argument in
# DESIGN.md section C17).

import ast as _ast
import collections as _collections


class _Sym(object):
  """Integer attribute of an input slot that the code may only compare."""
  __slots__ = ('p', 'name')

  def __init__(self, name):
    self.name = name
    self.p = P.var(E.fresh_name(name))

  def _other(self, o):
    return o.p if isinstance(o, _Sym) else P.lift(o)

  def __eq__(self, o):
    if o is self:
      return True
    return C.decide(B.cmp('eq', self.p - self._other(o)), '%s == %r' % (self.name, getattr(o, 'name', o)))

  def __ne__(self, o):
    return not self.__eq__(o)

  def __lt__(self, o):
    return C.decide(self.p < self._other(o), '%s < %r' % (self.name, getattr(o, 'name', o)))

  def __gt__(self, o):
    return C.decide(self._other(o) < self.p, '%s > %r' % (self.name, getattr(o, 'name', o)))

  def __le__(self, o):
    return not self.__gt__(o)

  def __ge__(self, o):
    return not self.__lt__(o)

  def __hash__(self):
    raise tfc.NoContract('hash of a symbolic slot attribute (%s): set / dict use is outside the encoding' % self.name)

  def __repr__(self):
    return '<%s>' % self.name


class _Opaque(object):
  """A value the code may only move around."""
  __slots__ = ('name',)

  def __init__(self, name):
    self.name = name

  def __repr__(self):
    return '<%s>' % self.name


class _ExtractionError(Exception):
  pass


class _Unbound(object):
  """Placeholder for a name the extracted segment assigns before it reads it (loop targets, temporaries); any use
  of it is an extraction error (the segment depends on state the harness does not provide)."""

  def __getattr__(self, name):
    raise _ExtractionError('the extracted segment reads a variable the harness does not provide')

  def __iter__(self):
    raise _ExtractionError('the extracted segment reads a variable the harness does not provide')

  __len__ = __getitem__ = __call__ = __iter__


_UNBOUND = _Unbound()


def _names(nodes, ctx):
  out = set()
  for n in nodes:
    for x in _ast.walk(n):
      if isinstance(x, _ast.Name) and isinstance(x.ctx, ctx):
        out.add(x.id)
      if ctx is _ast.Store and isinstance(x, _ast.arg):
        out.add(x.arg)
  return out


class _ContinueToReturn(_ast.NodeTransformer):

  def visit_Continue(self, node):
    return _ast.copy_location(_ast.Return(value=_ast.Call(func=_ast.Name(id='locals', ctx=_ast.Load()), args=[],
                                                          keywords=[])), node)

  def visit_Break(self, node):
    raise _ExtractionError('break inside the innermost swap-loop body')

  def visit_For(self, node):
    raise _ExtractionError('loop inside the innermost swap-loop body')

  visit_While = visit_For


def _make_fn(name, params, stmts, glob):
  fn = _ast.FunctionDef(name=name, args=_ast.arguments(posonlyargs=[], args=[_ast.arg(arg=p) for p in params],
                                                        kwonlyargs=[], kw_defaults=[], defaults=[]),
                        body=list(stmts) + [_ast.Return(value=_ast.Call(func=_ast.Name(id='locals', ctx=_ast.Load()),
                                                                       args=[], keywords=[]))],
                        decorator_list=[])
  m = _ast.Module(body=[fn], type_ignores=[])
  _ast.fix_missing_locations(m)
  ns = {}
  exec(compile(m, '<extracted from rtl_layer.RTL._get_rtl_structure: %s>' % name, 'exec'), glob, ns)  # pylint: disable=exec-used
  return ns[name]


_SEG_CACHE = {}


def _rtl_segments():
  """Cuts the working tree's RTL._get_rtl_structure; returns a dict of callables and AST facts."""
  if 'seg' in _SEG_CACHE:
    return _SEG_CACHE['seg']
  import copy, os
  rl = load.mod('rtl_layer')
  with open(os.path.join(load.PYDIR, 'rtl_layer.py')) as f:
    tree = _ast.parse(f.read())
  fn = None
  for cls in tree.body:
    if isinstance(cls, _ast.ClassDef) and cls.name == 'RTL':
      for x in cls.body:
        if isinstance(x, _ast.FunctionDef) and x.name == '_get_rtl_structure':
          fn = x
  if fn is None:
    raise _ExtractionError('RTL._get_rtl_structure not found')
  body = fn.body
  whiles = [i for i, st in enumerate(body) if isinstance(st, _ast.While)]
  if len(whiles) != 1:
    raise _ExtractionError('expected exactly one top-level while statement, found %d' % len(whiles))
  iw = whiles[0]
  prefix, loop, suffix = body[:iw], body[iw], body[iw + 1:]
  # the for-nest of the swap loop: a chain of for statements down to a loop-free innermost body
  fors = [st for st in loop.body if isinstance(st, _ast.For)]
  if len(fors) != 1 or loop.orelse:
    raise _ExtractionError('the while body must contain exactly one for statement')
  chain = [fors[0]]
  while True:
    inner = [st for st in chain[-1].body if isinstance(st, (_ast.For, _ast.While))]
    if not inner:
      break
    if len(inner) != 1 or len(chain[-1].body) != 1 or not isinstance(inner[0], _ast.For) or chain[-1].orelse:
      raise _ExtractionError('statements between the for headers of the swap loop')
    chain.append(inner[0])
  innermost = chain[-1]
  # state variable: the list of lattices - the name the outermost for iterates over
  outer_iter_names = _names([chain[0].iter], _ast.Load)
  params_all = {a.arg for a in fn.args.args}
  stored_prefix = _names(prefix, _ast.Store) | params_all
  state = sorted(n for n in outer_iter_names if n in stored_prefix and n in _names(suffix, _ast.Load))
  if len(state) != 1:
    raise _ExtractionError('cannot identify the list of lattices (candidates %s)' % state)
  state = state[0]
  targets = set()
  for f_ in chain:
    targets |= _names([f_.target], _ast.Store)
  # frame of the loop skeleton: outside the innermost body nothing writes to the state or to the loop targets' lists
  skeleton = []
  for x in _ast.walk(loop):
    skeleton.append(x)
  inner_nodes = set()
  for st in innermost.body:
    for x in _ast.walk(st):
      inner_nodes.add(id(x))
  frame_problems = []
  guarded = {state} | targets
  for x in skeleton:
    if id(x) in inner_nodes:
      continue
    if isinstance(x, _ast.Name) and isinstance(x.ctx, (_ast.Store, _ast.Del)) and x.id == state:
      frame_problems.append('rebinds %s at line %d' % (state, x.lineno))
    if isinstance(x, (_ast.Subscript, _ast.Attribute)) and isinstance(x.ctx, (_ast.Store, _ast.Del)):
      base = x.value
      while isinstance(base, (_ast.Subscript, _ast.Attribute)):
        base = base.value
      if isinstance(base, _ast.Name) and base.id in guarded:
        frame_problems.append('writes into %s at line %d' % (base.id, x.lineno))
    if isinstance(x, _ast.Call) and isinstance(x.func, _ast.Attribute) and isinstance(x.func.value, _ast.Name) \
        and x.func.value.id in guarded:
      frame_problems.append('calls %s.%s at line %d' % (x.func.value.id, x.func.attr, x.lineno))
  glob = rl.__dict__
  prefix_fn = _make_fn('prefix', [a.arg for a in fn.args.args], prefix, glob)
  body_stmts = [_ContinueToReturn().visit(copy.deepcopy(st)) for st in innermost.body]
  stored_fn = _names(body, _ast.Store) | params_all
  body_params = sorted((_names(innermost.body, _ast.Load) & stored_fn) | _names([innermost.target], _ast.Store))
  body_fn = _make_fn('swap_body', body_params, body_stmts, glob)
  header_fns = []
  for f_ in chain:
    e = _ast.Expression(body=copy.deepcopy(f_.iter))
    _ast.fix_missing_locations(e)
    header_fns.append((compile(e, '<for header>', 'eval'), f_.target))
  suffix_params = sorted(_names(suffix, _ast.Load) & stored_fn)
  suffix_stmts = copy.deepcopy(suffix)
  if not suffix_stmts or not isinstance(suffix_stmts[-1], _ast.Return):
    raise _ExtractionError('the function does not end with a return statement')
  suffix_stmts[-1] = _ast.Assign(targets=[_ast.Name(id='__vt_result', ctx=_ast.Store())], value=suffix_stmts[-1].value)
  for st in suffix_stmts[:-1]:
    for x in _ast.walk(st):
      if isinstance(x, _ast.Return):
        raise _ExtractionError('early return in the suffix')
  suffix_fn = _make_fn('suffix', suffix_params, suffix_stmts, glob)
  # random sources named in the whole function (determinism in the seed)
  rnd = []
  for x in _ast.walk(fn):
    if isinstance(x, _ast.Attribute) and isinstance(x.value, _ast.Attribute) and x.value.attr == 'random':
      rnd.append(x.attr)
    if isinstance(x, _ast.Name) and x.id == 'random':
      rnd.append('random-module')
  seg = dict(prefix=prefix_fn, body=body_fn, body_params=body_params, headers=header_fns, suffix=suffix_fn,
             suffix_params=suffix_params, state=state, frame_problems=frame_problems, random_names=sorted(set(rnd)),
             glob=glob, stmts=(len(prefix), len(innermost.body), len(suffix)))
  _SEG_CACHE['seg'] = seg
  return seg


class _ShuffleContract(object):
  """np.random under contract: RandomState(seed).shuffle(list) rearranges the list by an UNKNOWN permutation.
  The list is refilled with fresh opaque tokens (one per position); ghost state keeps the old contents."""

  def __init__(self):
    self.generations = []     # (old contents, new tokens)
    self.seeds = []
    self.other_calls = []

  def RandomState(self, seed=None):  # pylint: disable=invalid-name
    self.seeds.append(seed)
    return self

  def shuffle(self, lst):
    if not isinstance(lst, list):
      raise tfc.NoContract('shuffle of a %s' % type(lst).__name__)
    old = list(lst)
    g = len(self.generations)
    new = [_Opaque('slot%d.%d' % (g, i)) for i in range(len(old))]
    self.generations.append((old, new))
    lst[:] = new

  def __getattr__(self, name):
    def _other(*a, **k):
      self.other_calls.append(name)
      raise tfc.NoContract('np.random.%s has no contract here' % name)
    return _other


def _usage_profile(tokens, generations):
  """Usage count of every ORIGINAL element behind `tokens` (a list of shuffle tokens), valid for every
  permutation the shuffles may have applied; None when the counts depend on the permutation.

  Meta-argument (stated as an assumption of the evidence): a shuffle token stands for `old[sigma(p)]` with sigma an
  unknown bijection of positions.  (1) If the shuffled list held pairwise different original elements, the tokens
  are a bijective relabelling of them, so the multiset of usage counts of the originals is the multiset of usage
  counts of the tokens.  (2) If every token of a later shuffle is used equally often (k times), the originals
  behind them are used as often as in k copies of the shuffled list, whatever sigma is."""
  all_tokens = {id(t) for _, new in generations for t in new}
  cur = list(tokens)
  for old, new in reversed(generations):
    newset = {id(t) for t in new}
    if not any(id(t) in newset for t in cur):
      continue                                   # a shuffle of some other list
    if not all(id(t) in newset for t in cur):
      return None
    cnt = _collections.Counter(id(t) for t in cur)
    if not any(id(o) in all_tokens for o in old):
      if len({id(o) for o in old}) != len(old):
        return None
      return sorted(cnt.get(id(t), 0) for t in new)
    mult = {cnt.get(id(t), 0) for t in new}
    if len(mult) != 1:
      return None
    k = mult.pop()
    cur = [o for o in old for _ in range(k)]
  return None


_RTL_SEARCH = """
spec = args[0]
rl = mod('rtl_layer')
found = []
for cfg in spec['configs']:
  n_inc, n_unc = sum(cfg.get('inc') or []), sum(cfg.get('unc') or [])
  n = n_inc + n_unc
  shapes = {}
  if cfg.get('inc'):
    shapes['increasing'] = [(None, k) for k in cfg['inc']] if cfg.get('grouped') else (None, n_inc)
  if cfg.get('unc'):
    shapes['unconstrained'] = [(None, k) for k in cfg['unc']] if cfg.get('grouped') else (None, n_unc)
  for seed in range(spec['seeds']):
    def build():
      return rl.RTL(num_lattices=cfg['num_lattices'], lattice_rank=cfg['rank'], random_seed=seed,
                    avoid_intragroup_interaction=cfg.get('avoid', True))._get_rtl_structure(shapes)
    try:
      st = build()
      again = build()
    except Exception as e:
      found.append({'cfg': cfg, 'seed': seed, 'why': 'raised %s: %s' % (type(e).__name__, str(e)[:100])})
      break
    counts = [0] * n
    why = []
    nl = 0
    for monos, lats in st:
      for lat in lats:
        nl += 1
        if len(lat) != cfg['rank'] or len(monos) != cfg['rank']:
          why.append('a lattice with %d inputs' % len(lat))
        for k, idx in enumerate(lat):
          if not 0 <= idx < n:
            why.append('index out of range')
            continue
          counts[idx] += 1
          if k < len(monos) and monos[k] != (1 if idx < n_inc else 0):
            why.append('input %d on a slot with monotonicity %d' % (idx, monos[k]))
    if nl != cfg['num_lattices']:
      why.append('%d lattices' % nl)
    if counts and min(counts) < 1:
      why.append('unused input')
    if counts and max(counts) - min(counts) > 1:
      why.append('usage counts %s' % counts)
    if st != again:
      why.append('two builds with the same seed differ')
    if why:
      found.append({'cfg': cfg, 'seed': seed, 'why': sorted(set(why))[:4], 'structure': [[list(m), [list(x) for x in l]] for m, l in st]})
      break
  if len(found) >= 3:
    break
result = found
"""

_RTL_SEARCH_CONFIGS = [dict(inc=[2], unc=[3], num_lattices=3, rank=2, grouped=False), dict(inc=[2, 1], unc=[1, 2], num_lattices=4, rank=3, grouped=True),
                       dict(inc=[1], unc=[2], num_lattices=2, rank=2, grouped=False), dict(inc=[3], unc=[2], num_lattices=4, rank=2, grouped=True)]


class _RtlSearchReplay(object):
  """Replay of a failed deductive RTL obligation: bounded native search over real seeds for a structure that
  violates the property (the failed obligation itself is about every permutation and carries no input)."""

  def _search_cfgs(self, cfg):
    return _RTL_SEARCH_CONFIGS

  def replay_desc(self, cfg, model, g):
    return {'kind': 'script', 'code': _RTL_SEARCH, 'args': [{'configs': self._search_cfgs(cfg), 'seeds': 300}], 'kwargs': {}}

  def replay_eval(self, cfg, model, g, desc, nat):
    if 'error' in nat:
      failing = ['native search raised ' + nat['error'][:200]]
    else:
      failing = ['seed %s of %s: %s' % (f['seed'], json.dumps(f['cfg'], sort_keys=True), f['why']) for f in nat.get('ok') or []]
    return {'desc': {'kind': 'bounded native search over seeds 0..299 of the real _get_rtl_structure',
                     'configs': desc['args'][0]['configs']},
            'native': {k: v for k, v in nat.items() if k != 'trace'}, 'failing': failing}


class RtlPrefixCase(_RtlSearchReplay, Case):
  """Every seed at once: the real prefix of _get_rtl_structure under the shuffle contract."""
  contract_key = None
  xcheck = False

  def _search_cfgs(self, cfg):
    return [{k: v for k, v in cfg.items()}] + _RTL_SEARCH_CONFIGS[:1]

  def body(self, cfg, c):
    seg = _rtl_segments()
    rl = load.mod('rtl_layer')
    n_inc, n_unc = sum(cfg.get('inc') or []), sum(cfg.get('unc') or [])
    n = n_inc + n_unc
    L, R = cfg['num_lattices'], cfg['rank']
    seed = _Opaque('random_seed')
    layer = rl.RTL(num_lattices=L, lattice_rank=R, random_seed=0, avoid_intragroup_interaction=cfg.get('avoid', True))
    layer.random_seed = seed
    sc = _ShuffleContract()
    saved = rl.np
    rl.np = _NpProxy(sc)
    try:
      env = seg['prefix'](layer, _rtl_shapes(cfg))
    finally:
      rl.np = saved
    cl = [('swap-loop-skeleton-leaves-the-lattices-alone', B.const(not seg['frame_problems'])),
          ('only-the-seeded-generator-is-used', B.const(seg['random_names'] == ['RandomState'] and not sc.other_calls)),
          ('generator-seeded-with-random_seed', B.const(len(sc.seeds) == 1 and sc.seeds[0] is seed))]
    lattices = env.get(seg['state'])
    ok = isinstance(lattices, list) and len(lattices) == L and all(isinstance(l, list) for l in lattices)
    cl.append(('number-of-lattices', B.const(ok)))
    if not ok or not sc.generations:
      cl.append(('slots-come-from-the-shuffled-inputs', E.FALSE))
      return cl
    cl.append(('lattices-are-separate-lists', B.const(len({id(l) for l in lattices}) == L)))
    for k, l in enumerate(lattices):
      cl.append(('lattice-has-exactly-rank-inputs[%d]' % k, B.const(len(l) == R)))
    first_old = sc.generations[0][0]
    # the flattened inputs: one per input column, in the order of RTL.call (sorted keys: increasing first)
    good = len(first_old) == n and all(isinstance(t, rl._RTLInput) for t in first_old)
    if good:
      want_groups = []
      gi = 0
      for key, sizes in (('increasing', cfg.get('inc') or []), ('unconstrained', cfg.get('unc') or [])):
        if not sizes:
          continue
        if cfg.get('grouped'):
          for k_ in sizes:
            want_groups += [gi] * k_
            gi += 1
        else:
          for _ in range(sum(sizes)):
            want_groups.append(gi)
            gi += 1
      for i, t in enumerate(first_old):
        cl.append(('flattened-input[%d]-index' % i, B.const(t.input_index == i)))
        cl.append(('flattened-input[%d]-monotonicity' % i, B.const(t.monotonicity == (1 if i < n_inc else 0))))
        cl.append(('flattened-input[%d]-group' % i, B.const(t.group == want_groups[i])))
    else:
      cl.append(('flattened-inputs-are-one-per-column', E.FALSE))
    slots = [t for l in lattices for t in l]
    prof = _usage_profile(slots, sc.generations)
    if prof is None:
      # the arrangement depends on which permutation a shuffle applied (e.g. truncation after the last shuffle):
      # outside this encoding; the seeded / enumerated cases of 'rtl' remain
      cl.append(('undecided:usage-counts-depend-on-the-permutation', E.FALSE))
    else:
      cl.append(('every-feature-used', B.const(len(prof) == n and min(prof) >= 1)))
      cl.append(('usage-counts-differ-by-at-most-one', B.const(max(prof) - min(prof) <= 1)))
      cl.append(('all-slots-filled', B.const(sum(prof) == L * R)))
    return cl


def _bind(target, value, env):
  if isinstance(target, _ast.Name):
    env[target.id] = value
  elif isinstance(target, (_ast.Tuple, _ast.List)):
    vals = list(value)
    if len(vals) != len(target.elts):
      raise _ExtractionError('cannot unpack loop target')
    for t, v in zip(target.elts, vals):
      _bind(t, v, env)
  else:
    raise _ExtractionError('unsupported loop target')


class RtlSwapBodyCase(_RtlSearchReplay, Case):
  """Loop invariant of the swap loop: one execution of the innermost body, from ANY state, exchanges slots
  between lattices at most - lengths and the multiset of slots are preserved, other lattices untouched."""
  contract_key = None
  xcheck = False

  def body(self, cfg, c):
    seg = _rtl_segments()
    rl = load.mod('rtl_layer')
    R, L = cfg['rank'], cfg['lists']
    which = cfg['iteration']       # index of the (outer..inner) loop binding this case looks at
    lattices = [[rl._RTLInput(monotonicity=_Sym('mono%d_%d' % (a, k)), group=_Sym('group%d_%d' % (a, k)),
                              input_index=_Sym('index%d_%d' % (a, k))) for k in range(R)] for a in range(L)]
    before = [list(l) for l in lattices]
    ids = [id(l) for l in lattices]
    layer = rl.RTL(num_lattices=L, lattice_rank=R, avoid_intragroup_interaction=True)
    env0 = {seg['state']: lattices, 'self': layer, 'changed': False, 'iteration': 0}
    # enumerate the loop bindings with the real for headers (they depend on lengths only)
    bindings = []

    def rec(level, env):
      if level == len(seg['headers']):
        bindings.append(dict(env))
        return
      code, target = seg['headers'][level]
      for v in eval(code, seg['glob'], dict(env)):  # pylint: disable=eval-used
        e2 = dict(env)
        _bind(target, v, e2)
        rec(level + 1, e2)
    rec(0, env0)
    if which >= len(bindings):
      return [('loop-binding-exists', E.TRUE)]
    env = bindings[which]
    seg['body'](*[env.get(p, _UNBOUND) for p in seg['body_params']])
    now = env0[seg['state']]
    cl = [('the-list-of-lattices-is-kept', B.const(now is lattices and len(lattices) == L and
                                                   [id(l) for l in lattices] == ids))]
    for a, l in enumerate(lattices):
      cl.append(('lattice-keeps-its-length[%d]' % a, B.const(len(l) == R)))
    b_ids = sorted(id(t) for l in before for t in l)
    a_ids = sorted(id(t) for l in lattices for t in l)
    cl.append(('slots-are-only-exchanged', B.const(a_ids == b_ids)))
    touched = [a for a in range(L) if [id(t) for t in lattices[a]] != [id(t) for t in before[a]]]
    cl.append(('at-most-two-lattices-touched', B.const(len(touched) in (0, 2))))
    return cl


class RtlSuffixCase(_RtlSearchReplay, Case):
  """Sorting by monotonicity and grouping: slots stay in their lattice, every slot is reported once and its
  monotonicity label is the one of the input wired to it."""
  contract_key = None
  xcheck = False

  def body(self, cfg, c):
    seg = _rtl_segments()
    rl = load.mod('rtl_layer')
    R = cfg['rank']
    pats = cfg['patterns']
    L = len(pats)
    lattices = [[rl._RTLInput(monotonicity=pats[a][k], group=_Opaque('group'), input_index=_Opaque('index%d_%d' % (a, k)))
                 for k in range(R)] for a in range(L)]
    owner = {id(t.input_index): (a, t.monotonicity) for a, l in enumerate(lattices) for t in l}
    layer = rl.RTL(num_lattices=L, lattice_rank=R)
    env = {seg['state']: lattices, 'self': layer}
    res = seg['suffix'](*[env.get(p, _UNBOUND) for p in seg['suffix_params']])['__vt_result']
    cl = []
    seen = []
    keys = []
    for monos, lats in res:
      keys.append(tuple(monos))
      for lat in lats:
        cl.append(('lattice-has-exactly-rank-inputs', B.const(len(lat) == R and len(monos) == R)))
        owners = set()
        for k, idx in enumerate(lat):
          o = owner.get(id(idx))
          cl.append(('reported-index-is-a-slot', B.const(o is not None)))
          if o is None or k >= len(monos):
            continue
          seen.append(id(idx))
          owners.add(o[0])
          cl.append(('increasing-input-on-monotone-slot-only', B.const(monos[k] == o[1])))
        cl.append(('slots-stay-in-their-lattice', B.const(len(owners) == 1)))
        cl.append(('lattice-labelled-monotone-iff-it-has-a-monotone-input',
                   B.const((1 in monos) == any(owner[id(i)][1] == 1 for i in lat if id(i) in owner))))
    cl.append(('every-slot-reported-once', B.const(sorted(seen) == sorted(owner))))
    cl.append(('number-of-lattices', B.const(sum(len(l) for _, l in res) == L)))
    cl.append(('groups-have-different-monotonicities', B.const(len(set(keys)) == len(keys))))
    cl.append(('groups-are-sorted', B.const(keys == sorted(keys))))
    return cl


_RTL_CALL_SEARCH = """
import itertools
import numpy as np
cfg = args[0]
rl = mod('rtl_layer')
found = []
for seed in (1, 2, 3):
  layer = rl.RTL(num_lattices=cfg['num_lattices'], lattice_rank=cfg['rank'], random_seed=seed)
  xs = {}
  if cfg['n_unc']:
    xs['unconstrained'] = tf.constant(np.full((1, cfg['n_unc']), 0.5, dtype='float32'))
  if cfg['n_inc']:
    xs['increasing'] = tf.constant(np.full((1, cfg['n_inc']), 0.5, dtype='float32'))
  layer(xs)
  # kernels: +1 slope along monotone dimensions, -1 along the others
  for sub in layer._lattice_layers.values():
    monos = [1 if m in (1, 'increasing') else 0 for m in sub.monotonicities]
    verts = list(itertools.product([0, 1], repeat=len(monos)))
    col = np.array([sum((1.0 if m else -1.0) * v for m, v in zip(monos, vert)) for vert in verts], dtype='float32')
    sub.kernel.assign(np.tile(col[:, None], [1, sub.units]))
  base = np.asarray(layer(xs)).ravel()
  for j in range(cfg['n_inc']):
    x2 = dict(xs)
    a = np.full((1, cfg['n_inc']), 0.5, dtype='float32'); a[0, j] = 1.0
    x2['increasing'] = tf.constant(a)
    out = np.asarray(layer(x2)).ravel()
    if (out < base - 1e-6).any():
      found.append('seed %d: raising increasing column %d lowers lattice outputs %s -> %s' % (seed, j, base.tolist(), out.tolist()))
      break
result = found
"""


class RtlCallWiringCase(Case):
  """RTL.call against the structure its build() recorded: the real call runs on symbolic input columns with the
  sub-lattice layers replaced by recorders (their interpolation is C02's / C07's business).  Every column supplied
  under 'increasing' must arrive at lattice dimensions constrained monotone - and only those -, every column must
  arrive somewhere, and with separate_outputs the 'increasing' output collects exactly the lattices with a monotone
  input.  The flattening order of call() is thereby tied to the numbering of _get_rtl_structure."""
  contract_key = None
  xcheck = False

  def replay_desc(self, cfg, model, g):
    return {'kind': 'script', 'code': _RTL_CALL_SEARCH, 'floatx': 'float32',
            'args': [{k: cfg[k] for k in ('n_inc', 'n_unc', 'num_lattices', 'rank')}], 'kwargs': {}}

  def replay_eval(self, cfg, model, g, desc, nat):
    failing = ['native probe raised ' + nat['error'][:200]] if 'error' in nat else list(nat.get('ok') or [])
    return {'desc': {'kind': 'real RTL layer, kernels with slope +1 on monotone and -1 on other dimensions, one increasing '
                             'column raised at a time', 'cfg': desc['args'][0]},
            'native': {k: v for k, v in nat.items() if k != 'trace'}, 'failing': failing}

  def body(self, cfg, c):
    from vt import kerasc
    rl = load.mod('rtl_layer')
    n_inc, n_unc = cfg['n_inc'], cfg['n_unc']
    kerasc.WEIGHT_PROVIDER[0] = lambda layer, name, shape, dt, init, cons: tfc.sym(shape, E.fresh_name('K'))
    try:
      layer = rl.RTL(num_lattices=cfg['num_lattices'], lattice_rank=cfg['rank'], separate_outputs=cfg.get('separate', False),
                     random_seed=cfg.get('seed', 1), parameterization=cfg.get('param', 'all_vertices'))
      xs, shapes = {}, {}
      as_list = cfg.get('as_list', False)
      if n_unc:
        t = tfc.sym([1, n_unc], 'xu')
        xs['unconstrained'] = [t[:, i:i + 1] for i in range(n_unc)] if as_list else t
        shapes['unconstrained'] = [tfc.TensorShape([None, 1])] * n_unc if as_list else tfc.TensorShape([None, n_unc])
        unc_keys = {P.lift(t.a[0, i]).key(): i for i in range(n_unc)}
      else:
        unc_keys = {}
      if n_inc:
        t = tfc.sym([1, n_inc], 'xi')
        xs['increasing'] = [t[:, i:i + 1] for i in range(n_inc)] if as_list else t
        shapes['increasing'] = [tfc.TensorShape([None, 1])] * n_inc if as_list else tfc.TensorShape([None, n_inc])
        inc_keys = {P.lift(t.a[0, i]).key(): i for i in range(n_inc)}
      else:
        inc_keys = {}
      if cfg.get('reverse_dict'):
        xs = dict(reversed(list(xs.items())))
        shapes = dict(reversed(list(shapes.items())))
      layer.build(shapes)
    finally:
      kerasc.WEIGHT_PROVIDER[0] = None
    records = []
    outs = {}
    for key, sub in layer._lattice_layers.items():
      def rec(inputs, _sub=sub, _key=key):
        t = inputs if not isinstance(inputs, (list, tuple)) else tfc.concat(list(inputs), axis=-1)
        records.append((_sub, t))
        o = tfc.sym([1, _sub.units], E.fresh_name('lat_out'))
        for u in range(_sub.units):
          outs[P.lift(o.a[0, u]).key()] = _sub
        return o
      sub.call = rec
      sub.built = True
    out = layer.call(xs)
    cl = []
    seen_inc, seen_unc = set(), set()
    for sub, t in records:
      monos = list(sub.monotonicities)
      a = t.a.reshape((-1, len(monos)))
      for row in a:
        for k, e in enumerate(row):
          key = P.lift(e).key()
          if key in inc_keys:
            seen_inc.add(inc_keys[key])
            cl.append(('increasing-input-on-monotone-dimension-only[xi%d]' % inc_keys[key],
                       B.const(load.mod('utils').canonicalize_monotonicity(monos[k]) == 1)))
          elif key in unc_keys:
            seen_unc.add(unc_keys[key])
            cl.append(('unconstrained-input-on-unconstrained-dimension[xu%d]' % unc_keys[key],
                       B.const(load.mod('utils').canonicalize_monotonicity(monos[k]) == 0)))
          else:
            cl.append(('lattice-input-is-an-input-column', E.FALSE))
    cl.append(('every-increasing-column-reaches-a-lattice', B.const(seen_inc == set(range(n_inc)))))
    cl.append(('every-unconstrained-column-reaches-a-lattice', B.const(seen_unc == set(range(n_unc)))))
    cl.append(('all-lattices-evaluated', B.const(sum(s.units for s, _ in records) == cfg['num_lattices'])))
    if cfg.get('separate'):
      for okey, want in (('increasing', True), ('unconstrained', False)):
        if okey not in out:
          continue
        for e in out[okey].a.flat:
          sub = outs.get(P.lift(e).key())
          has_mono = sub is not None and any(load.mod('utils').canonicalize_monotonicity(m) == 1 for m in sub.monotonicities)
          cl.append(('output-labelled-%s-iff-the-lattice-has-a-monotone-input' % okey, B.const(sub is not None and has_mono == want)))
      n_out = sum(int(np.prod(out[k].a.shape)) for k in out)
      cl.append(('every-lattice-output-is-returned', B.const(n_out == cfg['num_lattices'])))
    return cl


class CountingLemmaCase(Case):
  """The counting lemmas behind `_usage_profile` (bijective relabelling; k copies of a shuffled list), proved in Lean 4
  against Mathlib (lean/Counting.lean) and re-checked by the Lean kernel on every run."""
  contract_key = None
  xcheck = False

  def body(self, cfg, c):
    import os, re, shutil, subprocess
    root = os.path.dirname(os.path.dirname(os.path.abspath(__file__)))
    src = os.path.join(root, 'lean', 'Counting.lean')
    text = open(src).read()
    cl = [('lean-file-has-no-sorry-axiom-or-admit', B.const(not re.search(r'\b(sorry|axiom|admit|native_decide)\b', text)))]
    wanted = ['count_relabel', 'count_shuffle', 'count_replicated', 'count_later']
    cl.append(('lean-file-states-the-lemmas', B.const(all(re.search(r'theorem\s+%s\b' % w, text) for w in wanted))))
    ml = '/opt/veriftools/mathlib4'
    if not (shutil.which('lake') and os.path.isdir(ml)):
      return cl + [('undecided:lean-toolchain-not-available', E.FALSE)]
    try:
      pr = subprocess.run(['lake', 'env', 'lean', src], cwd=ml, capture_output=True, text=True, timeout=600)
    except subprocess.TimeoutExpired:
      return cl + [('undecided:lean-timed-out', E.FALSE)]
    out = (pr.stdout or '') + (pr.stderr or '')
    ok = pr.returncode == 0 and 'error' not in out and 'sorry' not in out
    if not ok and ('object file' in out or 'unknown package' in out or 'could not' in out.lower()):
      return cl + [('undecided:lean-environment-problem: %s' % out.strip().splitlines()[-1][:100], E.FALSE)]
    cl.append(('counting-lemmas-accepted-by-the-lean-kernel%s' % ('' if ok else ': ' + out.strip().splitlines()[0][:120]), B.const(ok)))
    return cl


def _ensemble_config(cfg, lattices):
  cf = load.mod('configs')
  fc = [cf.FeatureConfig(name='f%d' % i) for i in range(cfg['features'])]
  return cf.CalibratedLatticeEnsembleConfig(feature_configs=fc, lattices=lattices,
                                            num_lattices=cfg['num_lattices'], lattice_rank=cfg['rank'],
                                            random_seed=cfg.get('seed', 0))


class RandomEnsembleCase(Case):
  contract_key = None
  xcheck = False

  def body(self, cfg, c):
    return [('bounded:' + n, b) for n, b in self._body(cfg, c)]

  def _body(self, cfg, c):
    pl = load.mod('premade_lib')
    mode = cfg.get('mode', 'real')
    saved = pl.np
    if mode != 'real':
      pl.np = _NpProxy(_RandomProxy(mode, cfg.get('sample', 0)))
    try:
      mc = _ensemble_config(cfg, 'random')
      pl.set_random_lattice_ensemble(mc)
      lat = [list(map(str, l)) for l in mc.lattices]
      if mode == 'real':
        mc2 = _ensemble_config(cfg, 'random')
        pl.set_random_lattice_ensemble(mc2)
    finally:
      pl.np = saved
    names = ['f%d' % i for i in range(cfg['features'])]
    cl = [('number-of-lattices', B.const(len(lat) == cfg['num_lattices']))]
    for k, l in enumerate(lat):
      cl.append(('lattice-has-exactly-rank-inputs[%d]' % k, B.const(len(l) == cfg['rank'])))
      cl.append(('no-repeated-feature-in-lattice[%d]' % k, B.const(len(set(l)) == len(l))))
      cl.append(('only-known-features[%d]' % k, B.const(all(x in names for x in l))))
    cl.append(('every-feature-used', B.const(all(any(nm in l for l in lat) for nm in names))))
    if mode == 'real':
      cl.append(('deterministic-in-the-seed', B.const(lat == [list(map(str, l)) for l in mc2.lattices])))
    return cl


class PairsCoverCase(Case):
  contract_key = None
  xcheck = False

  def body(self, cfg, c):
    return [('bounded:' + n, b) for n, b in self._body(cfg, c)]

  def _body(self, cfg, c):
    pl = load.mod('premade_lib')
    mode = cfg.get('mode', 'real')
    saved = pl.np
    if mode != 'real':
      pl.np = _NpProxy(_RandomProxy(mode, cfg.get('sample', 0)))
    try:
      mc = _ensemble_config(cfg, 'crystals')
      names = ['f%d' % i for i in range(cfg['features'])]
      pl._set_all_pairs_cover_lattices(mc, names)
      lat = [list(l) for l in mc.lattices]
    finally:
      pl.np = saved
    cl = []
    for a, b in itertools.combinations(names, 2):
      cl.append(('pair-together-in-some-lattice[%s,%s]' % (a, b), B.const(any(a in l and b in l for l in lat))))
    for k, l in enumerate(lat):
      cl.append(('lattice-not-larger-than-rank[%d]' % k, B.const(len(l) <= cfg['rank'])))
    return cl


_CRYSTALS_SCRIPT = '''
import itertools
spec = args[0]
pl = mod('premade_lib'); cf = mod('configs')
nf = spec['features']
tors = [[0.0] * nf for _ in range(nf)]
it = iter(spec['torsions'])
for i, j in itertools.combinations(range(nf), 2):
  v = next(it); tors[i][j] = tors[j][i] = v
pl._get_torsions_and_laplacians = lambda **kw: (tors, list(spec['laplacians']))
fc = [cf.FeatureConfig(name='f%d' % i) for i in range(nf)]
mc = cf.CalibratedLatticeEnsembleConfig(feature_configs=fc, lattices='crystals', num_lattices=spec['num_lattices'],
                                        lattice_rank=spec['rank'])
result = [[int(x) for x in l] for l in pl._get_final_crystal_lattices(mc, None, None, ['f%d' % i for i in range(nf)])]
'''


class CrystalsCase(Case):
  contract_key = None
  xcheck = False

  def replay_desc(self, cfg, model, g):
    return {'kind': 'script', 'code': _CRYSTALS_SCRIPT, 'args': [cfg], 'kwargs': {}}

  def replay_eval(self, cfg, model, g, desc, nat):
    failing = ['raised ' + nat['error'][:200]] if 'error' in nat else []
    return {'desc': {k: v for k, v in desc.items() if k != 'code'},
            'native': {k: v for k, v in nat.items() if k != 'trace'}, 'failing': failing}

  def body(self, cfg, c):
    return [('bounded:' + n, b) for n, b in self._body(cfg, c)]

  def _body(self, cfg, c):
    pl = load.mod('premade_lib')
    nf = cfg['features']
    tors = [[0.0] * nf for _ in range(nf)]
    it = iter(cfg['torsions'])
    for i, j in itertools.combinations(range(nf), 2):
      v = next(it)
      tors[i][j] = tors[j][i] = v
    laps = list(cfg['laplacians'])
    saved = pl._get_torsions_and_laplacians
    pl._get_torsions_and_laplacians = lambda **kw: (tors, laps)
    try:
      mc = _ensemble_config(cfg, 'crystals')
      try:
        lat = pl._get_final_crystal_lattices(mc, None, None, ['f%d' % i for i in range(nf)])
      except (AssertionError, ValueError, ZeroDivisionError, FloatingPointError) as e:
        return [('returns-a-structure-for-these-scores: raised %s %s' % (type(e).__name__, str(e)[:60]), E.FALSE)]
    finally:
      pl._get_torsions_and_laplacians = saved
    cl = [('returns-a-structure-for-these-scores', E.TRUE),
          ('number-of-lattices', B.const(len(lat) == cfg['num_lattices']))]
    for k, l in enumerate(lat):
      cl.append(('lattice-has-exactly-rank-inputs[%d]' % k, B.const(len(l) == cfg['rank'])))
    cl.append(('every-feature-used', B.const(all(any(i in l for l in lat) for i in range(nf)))))
    return cl


CASES = {'counting_lemma': CountingLemmaCase(), 'rtl_call_wiring': RtlCallWiringCase(), 'rtl_prefix': RtlPrefixCase(), 'rtl_swap_body': RtlSwapBodyCase(), 'rtl_suffix': RtlSuffixCase(),
         'rtl': RtlCase(), 'random_ensemble': RandomEnsembleCase(), 'pairs_cover': PairsCoverCase(),
         'crystals': CrystalsCase()}


def configs(tier, rng):
  jobs = []
  # RTL: (inc groups, unc groups, num_lattices, rank)
  rtl = [([1], [1], 1, 2), ([2], [], 1, 2), ([], [3], 2, 2), ([1], [2], 2, 2), ([2], [2], 2, 3), ([1, 1], [1], 2, 2),
         ([2], [3], 3, 2), ([3], [2], 4, 2), ([1], [4], 3, 3), ([2, 1], [1, 2], 4, 3), ([], [5], 5, 2), ([4], [], 2, 3)]
  for (inc, unc, nl, rk) in rtl:
    base = dict(inc=inc, unc=unc, num_lattices=nl, rank=rk)
    n = sum(inc) + sum(unc)
    if nl * rk < n:
      continue
    for grouped in (False, True):
      for seed in range(6 if tier == 'quick' else 40):
        jobs.append(('rtl', dict(base, grouped=grouped, seed=seed, mode='real')))
      if n <= 3 and nl * rk <= 4:
        jobs.append(('rtl', dict(base, grouped=grouped, mode='all')))
      for s in range(8 if tier == 'quick' else 200):
        jobs.append(('rtl', dict(base, grouped=grouped, mode='sample', sample=s)))
  # deductive part (every seed at once): prefix under the shuffle contract, swap-loop invariant, suffix
  jobs.append(('counting_lemma', dict(file='lean/Counting.lean')))
  big = [([5], [7], 6, 4), ([3, 2], [4, 1, 2], 8, 3), ([1], [1], 7, 2), ([], [9], 3, 3), ([6], [], 4, 5), ([2, 2, 2], [3], 5, 2)]
  for (inc, unc, nl, rk) in rtl + big:
    if nl * rk < sum(inc) + sum(unc):
      continue
    for grouped in (False, True):
      for avoid in (True, False):
        jobs.append(('rtl_prefix', dict(inc=inc, unc=unc, num_lattices=nl, rank=rk, grouped=grouped, avoid=avoid)))
  for (ni, nu, nl, rk) in ((1, 1, 1, 2), (2, 3, 3, 2), (3, 2, 4, 2), (1, 4, 3, 3), (2, 2, 2, 3), (4, 0, 2, 3), (0, 3, 2, 2)):
    for seed in (1, 2, 3):
      for separate in (False, True):
        for as_list in (False, True):
          jobs.append(('rtl_call_wiring', dict(n_inc=ni, n_unc=nu, num_lattices=nl, rank=rk, seed=seed, separate=separate,
                                               as_list=as_list, reverse_dict=bool(seed % 2))))
  for rk in ((2, 3) if tier == 'quick' else (2, 3, 4)):
    for lists in (2, 3):
      for it in range(lists * (lists - 1) // 2 * rk * rk + 1):
        jobs.append(('rtl_swap_body', dict(rank=rk, lists=lists, iteration=it)))
  for (nl, rk) in ((1, 2), (2, 2), (3, 2), (1, 3), (2, 3)) + (() if tier == 'quick' else ((3, 3), (1, 4), (2, 4))):
    for pats in itertools.product(itertools.product((0, 1), repeat=rk), repeat=nl):
      jobs.append(('rtl_suffix', dict(rank=rk, patterns=[list(p) for p in pats])))
  ens = [(2, 1, 2), (3, 2, 2), (4, 2, 2), (4, 3, 2), (5, 3, 2), (5, 2, 3), (6, 3, 3), (3, 3, 3), (4, 4, 1)]
  for (nf, nl, rk) in ens:
    if nl * rk < nf or rk > nf:
      continue
    base = dict(features=nf, num_lattices=nl, rank=rk)
    for seed in range(5 if tier == 'quick' else 40):
      jobs.append(('random_ensemble', dict(base, seed=seed, mode='real')))
    if nf <= 4 and nl * rk <= 6:
      jobs.append(('random_ensemble', dict(base, mode='all')))
    for s in range(8 if tier == 'quick' else 200):
      jobs.append(('random_ensemble', dict(base, mode='sample', sample=s)))
  for (nf, rk) in ((3, 2), (4, 2), (4, 3), (5, 3), (5, 2), (6, 4)):
    base = dict(features=nf, num_lattices=2, rank=rk)
    if nf <= 4:
      jobs.append(('pairs_cover', dict(base, mode='all')))
    for s in range(8 if tier == 'quick' else 100):
      jobs.append(('pairs_cover', dict(base, mode='sample', sample=s)))
    for seed in range(3):
      jobs.append(('pairs_cover', dict(base, seed=seed, mode='real')))
  grid = [0.0, 0.5, 1.0, 3.0, 7.0]
  # shapes where a heavily used feature meets full lattices: more lattices of rank 3 than the features fill once
  for (nf, nl, rk) in ((3, 2, 2), (4, 2, 3), (4, 3, 2), (5, 3, 2), (4, 3, 3), (5, 4, 3), (6, 5, 3)):
    npairs = nf * (nf - 1) // 2
    for s in range((25 if rk == 2 or nl < 3 else 40) if tier == 'quick' else 300):
      r = _pyrandom.Random(1000 * nf + s)
      tors = [r.choice(grid) for _ in range(npairs)]
      laps = [r.choice(grid) for _ in range(nf)]
      if s == 0:
        tors, laps = [1.0] * npairs, [1.0] * nf     # all-equal prefit
      if s == 1:
        tors, laps = [0.0] * npairs, [0.0] * nf     # degenerate all-zero prefit
      imp = list(laps)
      it_ = iter(tors)
      for i, j in itertools.combinations(range(nf), 2):
        v = next(it_)
        imp[i] += v
        imp[j] += v
      jobs.append(('crystals', dict(features=nf, num_lattices=nl, rank=rk, torsions=tors, laplacians=laps,
                                    zero_importance_feature=any(v == 0 for v in imp))))
  out, seen = [], set()
  for j in jobs:
    key = json.dumps(j, sort_keys=True)
    if key not in seen:
      seen.add(key)
      out.append(j)
  return out


EVIDENCE = {
    'level': 'other',
    'explanation': (
        'Two parts. (1) DEDUCTIVE, RTL._get_rtl_structure, every seed at once (cases rtl_prefix / rtl_swap_body / rtl_suffix): the '
        'function is cut mechanically, on every run, from the AST of the working tree at its single top-level while statement '
        '(nothing rewritten except continue -> return inside the extracted innermost body). The prefix runs on the real input '
        'description with RandomState.shuffle under its CONTRACT (unknown permutation: the list is refilled with fresh opaque '
        'tokens, ghost state keeps the old contents), so its postconditions - one flattened input per column with the index / '
        'monotonicity / group RTL.call uses, every lattice exactly lattice_rank slots, every feature used, usage counts differing '
        'by at most one - hold for every permutation. The swap loop is covered by a loop invariant proved on the innermost body '
        'from an arbitrary state (slots with symbolic group / monotonicity / index, every comparison forks the path, infeasible '
        'paths pruned by z3): lengths kept, slots only exchanged, other lattices untouched; an AST frame check shows the loop '
        'skeleton writes nothing else. The suffix (sort + grouping) is run on every monotonicity pattern with opaque indices: '
        'slots stay in their lattice, each is reported once, the reported monotonicity is the one of the input wired to the slot, '
        'a lattice is labelled monotone iff it has a monotone input. The property clauses follow by composition. Determinism: '
        'the only random source named in the function is RandomState, constructed once from self.random_seed. '
        '(2) BOUNDED stand-in (cases rtl / random_ensemble / pairs_cover / crystals, labelled bounded): set_random_lattice_ensemble, '
        '_set_all_pairs_cover_lattices and _get_final_crystal_lattices on concrete lists with numpy randomness replaced by a path '
        'oracle (every outcome for the smallest sizes) or a sampler, Crystals scores from a small grid; the whole RTL function '
        'on real seeds as a cross-check of the cut.'),
    'rule': 'one obligation = (segment or builder, configuration, path / random outcome / seed / score vector, postcondition instance)',
    'bounds': 'deductive part: per (input groups, num_lattices, lattice_rank) configuration, all seeds; swap body rank <= 3 (4 thorough) '
              'with 2 or 3 lattices (the body touches two); suffix <= 3 lattices of rank <= 3 (4 thorough). Bounded part: RTL <= 6 inputs, '
              '<= 5 lattices, rank <= 3; ensembles <= 6 features, <= 4 lattices; all oracle outcomes only for <= 3-4 inputs; Crystals '
              'scores in {0, 0.5, 1, 3, 7}',
    'exhaustive_tiers': {'quick': False, 'thorough': False},
    'trusted_base': ['numpy: RandomState(seed) is deterministic and shuffle applies a permutation in place',
                     'list.sort is a permutation ordered by the key; itertools.combinations / product as documented',
                     'the random proxy covers every numpy random call the bounded builders make (seed, RandomState.shuffle, shuffle, choice)'],
    'assumptions': ['the counting lemmas (bijective relabelling keeps usage counts; an evenly used later shuffle reproduces k times the '
                    'counts of the list it shuffled) are proved in Lean 4 / Mathlib (lean/Counting.lean, re-checked every run); their '
                    'APPLICATION to the ghost state in _usage_profile is Python code outside any prover',
                    'composition of prefix-post, loop invariant and suffix-post is argued in DESIGN.md, not machine-checked; the '
                    'suffix is checked for <= 3 lattices',
                    'random ensemble, pairs cover and Crystals: evaluation of concrete structures, not symbolic proof (bounded)'],
}

if __name__ == '__main__':
  import sys
  from vt import prop
  sys.exit(prop.main(sys.modules[__name__]))
