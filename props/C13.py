"""C13 - regularizers compute the documented Laplacian / torsion / Hessian / wrinkle penalties."""
import itertools
import json
import math as _pymath

import numpy as np

from vt import ctx as C
from vt import expr as E
from vt import harness as H
from vt import load
from vt import tfc
from vt.expr import P, B
from vt.prop import Case
from spec import regularizers as SR

PROPERTY = 'C13'


class _MathProxy(object):
  """`math` for lattice_lib: sqrt of a symbolic amount l is the non-negative root (s*s == l)."""

  def __getattr__(self, name):
    return getattr(_pymath, name)

  @staticmethod
  def sqrt(x):
    if isinstance(x, P):
      if x.is_const:
        return _pymath.sqrt(float(x.cval))
      C.cur().axiom('math.sqrt(l): s >= 0 and s*s == l (l >= 0)')
      r = E.fn('root2', x)
      C.cur().assume((r >= 0) & (x >= 0) & (x > 0).implies(r > 0) & x.eq(0).implies(r.eq(0)),
                     'axiom sqrt')
      return r
    return _pymath.sqrt(x)


def _install_math():
  ll = load.mod('lattice_lib')
  if not isinstance(ll.math, _MathProxy):
    ll.math = _MathProxy()


def _scalar(out):
  if isinstance(out, tfc.Tensor):
    if out.a.size != 1:
      raise ValueError('regularizer returned a non-scalar of shape %s' % (out.a.shape,))
    v = out.a.reshape(-1)[0]
  else:
    v = out
  a = np.empty((), dtype=object)
  a[()] = P.lift(v)
  return tfc.Tensor(a, tfc.float32)


class _RegContract(H.Contract):
  inline = True

  def fresh_out(self, *a, **k):
    return tfc.sym((), E.fresh_name('reg'))

  def view(self, out, *a, **k):
    return _scalar(out)

  def native_view(self, nat):
    v = nat['ok']
    if isinstance(v, dict) and '__t__' in v:
      v = v['__t__']
    return {'__t__': float(np.asarray(v, dtype=float).reshape(-1)[0]) if np.asarray(v).size == 1 else v}


@H.register
class LatticeLaplacian(_RegContract):
  module = 'lattice_lib'
  qualname = 'laplacian_regularizer'

  def post(self, out, weights, lattice_sizes, l1=0.0, l2=0.0):
    return [('equals-documented-laplacian',
             P.lift(out.a[()]).eq(SR.lattice_laplacian(weights, lattice_sizes, l1, l2)))]


@H.register
class LatticeTorsion(_RegContract):
  module = 'lattice_lib'
  qualname = 'torsion_regularizer'

  def post(self, out, weights, lattice_sizes, l1=0.0, l2=0.0):
    return [('equals-documented-torsion',
             P.lift(out.a[()]).eq(SR.lattice_torsion(weights, lattice_sizes, l1, l2)))]


@H.register
class LatticeLaplacianLayer(_RegContract):
  module = 'lattice_layer'
  qualname = 'LaplacianRegularizer.__call__'

  def post(self, out, this, x):
    return [('equals-documented-laplacian',
             P.lift(out.a[()]).eq(SR.lattice_laplacian(x, this.lattice_sizes, this.l1, this.l2)))]


@H.register
class LatticeTorsionLayer(_RegContract):
  module = 'lattice_layer'
  qualname = 'TorsionRegularizer.__call__'

  def post(self, out, this, x):
    return [('equals-documented-torsion',
             P.lift(out.a[()]).eq(SR.lattice_torsion(x, this.lattice_sizes, this.l1, this.l2)))]


def _pwl_contract(cls_name, order, label):
  class _C(_RegContract):
    module = 'pwl_calibration_layer'
    qualname = cls_name + '.__call__'

    def post(self, out, this, x):
      return [('equals-documented-' + label,
               P.lift(out.a[()]).eq(SR.pwl_penalty(x, order, this.l1, this.l2, this.is_cyclic)))]
  _C.__name__ = 'Pwl' + cls_name
  return H.register(_C)


_pwl_contract('LaplacianRegularizer', 1, 'laplacian')
_pwl_contract('HessianRegularizer', 2, 'hessian')
_pwl_contract('WrinkleRegularizer', 3, 'wrinkle')


def _amount(name, spec, rank):
  """spec: 'zero' | 'scalar' | list of 0/1 flags (per-dimension, 0 = exact zero)."""
  rng = getattr(C.cur(), 'concrete_rng', None) if C.active() else None

  def one(nm):
    if rng is not None:
      return rng.randint(1, 8) / 4.0
    v = P.var(nm)
    C.cur().assume(v > 0, 'amount > 0')
    return v
  if spec == 'zero':
    return 0.0
  if spec == 'scalar':
    return one(name)
  return [one('%s[%d]' % (name, i)) if f else 0.0 for i, f in enumerate(spec)]


class LatticeLibCase(Case):

  def __init__(self, key):
    self.contract_key = key

  def build(self, cfg):
    _install_math()
    n = int(np.prod(cfg['sizes']))
    rank = len(cfg['sizes'])
    return (tfc.sym([n, cfg['units']], 'w'), list(cfg['sizes'])), dict(
        l1=_amount('l1', cfg['l1'], rank), l2=_amount('l2', cfg['l2'], rank))


class LatticeLayerCase(Case):

  def __init__(self, key, cls):
    self.contract_key = key
    self.cls = cls

  def build(self, cfg):
    _install_math()
    ly = load.mod('lattice_layer')
    n = int(np.prod(cfg['sizes']))
    rank = len(cfg['sizes'])
    kw = dict(lattice_sizes=list(cfg['sizes']), l1=_amount('l1', cfg['l1'], rank),
              l2=_amount('l2', cfg['l2'], rank))
    this = getattr(ly, self.cls)(**kw)
    this._vt_native = {'module': 'lattice_layer', 'cls': self.cls, 'init': kw}
    return (this, tfc.sym([n, cfg['units']], 'w')), {}


class PwlCase(Case):

  def __init__(self, cls):
    self.contract_key = 'pwl_calibration_layer.%s.__call__' % cls
    self.cls = cls

  def build(self, cfg):
    ly = load.mod('pwl_calibration_layer')
    kw = dict(l1=_amount('l1', cfg['l1'], 0), l2=_amount('l2', cfg['l2'], 0),
              is_cyclic=cfg['cyclic'])
    this = getattr(ly, self.cls)(**kw)
    this._vt_native = {'module': 'pwl_calibration_layer', 'cls': self.cls, 'init': kw}
    return (this, tfc.sym([cfg['rows'], cfg['units']], 'w')), {}


class CorollaryCase(Case):
  """Consequences stated by the property, proved over the spec functions (lemmas)."""
  contract_key = None
  xcheck = False

  def body(self, cfg, c):
    kind = cfg['kind']
    cl = []
    if kind == 'lattice':
      sizes, units = cfg['sizes'], cfg['units']
      n = int(np.prod(sizes))
      rank = len(sizes)
      l = P.var('l')
      c.assume(l >= 0, 'amount >= 0')
      w = tfc.sym([n, units], 'w')
      lap1 = SR.lattice_laplacian(w, sizes, l, 0.0)
      lap2 = SR.lattice_laplacian(w, sizes, 0.0, l)
      tor1 = SR.lattice_torsion(w, sizes, l, 0.0)
      tor2 = SR.lattice_torsion(w, sizes, 0.0, l)
      # non-negativity: the penalty is a sum of terms amount*|d| and amount*d^2, each >= 0
      for nm, fn_, args in (('laplacian-l1', SR.lattice_laplacian, (l, 0.0)),
                            ('laplacian-l2', SR.lattice_laplacian, (0.0, l)),
                            ('torsion-l1', SR.lattice_torsion, (l, 0.0)),
                            ('torsion-l2', SR.lattice_torsion, (0.0, l))):
        terms = []
        tot = fn_(w, sizes, *args, terms=terms)
        ssum = P.const(0)
        for k, t in enumerate(terms):
          cl.append(('non-negative:%s:term[%d]' % (nm, k), t >= 0))
          ssum = ssum + t
        cl.append(('non-negative:%s:is-sum-of-terms' % nm, tot.eq(ssum)))
      # linear in the amounts
      a, b = P.var('a'), P.var('b')
      cl.append(('linear-in-l1-l2:laplacian',
                 SR.lattice_laplacian(w, sizes, a, b).eq(
                     a * SR.lattice_laplacian(w, sizes, 1, 0) + b * SR.lattice_laplacian(w, sizes, 0, 1))))
      cl.append(('linear-in-l1-l2:torsion',
                 SR.lattice_torsion(w, sizes, a, b).eq(
                     a * SR.lattice_torsion(w, sizes, 1, 0) + b * SR.lattice_torsion(w, sizes, 0, 1))))
      # constant kernel: Laplacian vanishes; additively separable kernel: torsion vanishes
      const = tfc.Tensor(np.frompyfunc(lambda _: P.var('c'), 1, 1)(np.empty((n, 1), dtype=object)), tfc.float32)
      cl.append(('laplacian-vanishes-on-constants', SR.lattice_laplacian(const, sizes, 1, 1).eq(0)))
      sep = np.empty((n, 1), dtype=object)
      from spec.lattice import vertices, flat
      for v in vertices(sizes):
        s = P.const(0)
        for d, i in enumerate(v):
          s = s + P.var('g%d_%d' % (d, i))
        sep[flat(sizes, v), 0] = s
      cl.append(('torsion-vanishes-on-separable', SR.lattice_torsion(tfc.Tensor(sep, tfc.float32), sizes, 1, 1).eq(0)))
    else:
      rows, cyc = cfg['rows'], cfg['cyclic']
      w = tfc.sym([rows, 1], 'w')
      for order, nm in ((1, 'laplacian'), (2, 'hessian'), (3, 'wrinkle')):
        if order == 3 and rows < 3:
          continue
        for tag, amounts in (('-l1', (1, 0)), ('-l2', (0, 1))):
          terms = []
          tot = SR.pwl_penalty(w, order, amounts[0], amounts[1], cyc, terms=terms)
          ssum = P.const(0)
          for k, t in enumerate(terms):
            cl.append(('non-negative:%s%s:term[%d]' % (nm, tag, k), t >= 0))
            ssum = ssum + t
          cl.append(('non-negative:%s%s:is-sum-of-terms' % (nm, tag), tot.eq(ssum)))
        a, b = P.var('a'), P.var('b')
        cl.append(('linear-in-l1-l2:' + nm, SR.pwl_penalty(w, order, a, b, cyc).eq(
            a * SR.pwl_penalty(w, order, 1, 0, cyc) + b * SR.pwl_penalty(w, order, 0, 1, cyc))))
      if not cyc:
        # outputs polynomial in the index of degree < order => the penalty vanishes
        for order, nm in ((1, 'laplacian-on-constants'), (2, 'hessian-on-linear'), (3, 'wrinkle-on-quadratic')):
          if rows <= order:
            continue
          coef = [P.var('p%d' % k) for k in range(order)]
          ys = [sum((coef[k] * (i ** k) for k in range(order)), P.const(0)) for i in range(rows)]
          ker = np.empty((rows, 1), dtype=object)
          ker[0, 0] = ys[0]
          for i in range(1, rows):
            ker[i, 0] = ys[i] - ys[i - 1]
          cl.append(('vanishes:' + nm, SR.pwl_penalty(tfc.Tensor(ker, tfc.float32), order, 1, 1, False).eq(0)))
    return cl


CASES = {
    'lat_laplacian': LatticeLibCase('lattice_lib.laplacian_regularizer'),
    'lat_torsion': LatticeLibCase('lattice_lib.torsion_regularizer'),
    'lat_laplacian_layer': LatticeLayerCase('lattice_layer.LaplacianRegularizer.__call__', 'LaplacianRegularizer'),
    'lat_torsion_layer': LatticeLayerCase('lattice_layer.TorsionRegularizer.__call__', 'TorsionRegularizer'),
    'pwl_laplacian': PwlCase('LaplacianRegularizer'),
    'pwl_hessian': PwlCase('HessianRegularizer'),
    'pwl_wrinkle': PwlCase('WrinkleRegularizer'),
    'corollaries': CorollaryCase(),
}


def configs(tier, rng):
  jobs = []
  sizes_list = [[2], [3], [2, 2], [2, 3], [3, 2], [2, 3, 2], [3, 2, 4], [2, 2, 2, 2]]
  if tier == 'thorough':
    sizes_list += [[4], [3, 3], [4, 3, 2], [2, 3, 4], [2, 3, 2, 3], [3, 2, 2, 2]]
  for sizes in sizes_list:
    rank = len(sizes)
    per_dim = [[1] * rank, [1] + [0] * (rank - 1), [0] * (rank - 1) + [1]]
    if rank >= 3:
      per_dim.append([1, 0, 1] + [1] * (rank - 3))
    amounts = [('scalar', 'zero'), ('zero', 'scalar'), ('scalar', 'scalar')]
    for pd in per_dim:
      amounts += [(pd, 'zero'), ('zero', pd), (pd, pd[::-1])]
    for units in (1, 2):
      if tier == 'quick' and units == 2 and rank > 3:
        continue
      for (l1, l2) in amounts:
        cfg = dict(sizes=sizes, units=units, l1=l1, l2=l2)
        for cn in ('lat_laplacian', 'lat_torsion'):
          jobs.append((cn, cfg))
        if units == 1 or rank <= 2:
          for cn in ('lat_laplacian_layer', 'lat_torsion_layer'):
            jobs.append((cn, cfg))
      jobs.append(('lat_laplacian', dict(sizes=sizes, units=units, l1='zero', l2='zero')))
    if rank <= 3:
      jobs.append(('corollaries', dict(kind='lattice', sizes=sizes, units=1)))
  for rows in ((2, 3, 4, 5) if tier == 'quick' else (2, 3, 4, 5, 6, 7)):
    for cyc in (False, True):
      for units in (1, 2):
        for (l1, l2) in (('scalar', 'zero'), ('zero', 'scalar'), ('scalar', 'scalar'), ('zero', 'zero')):
          cfg = dict(rows=rows, units=units, cyclic=cyc, l1=l1, l2=l2)
          jobs.append(('pwl_laplacian', cfg))
          jobs.append(('pwl_hessian', cfg))
          if rows >= 3:
            jobs.append(('pwl_wrinkle', cfg))
      jobs.append(('corollaries', dict(kind='pwl', rows=rows, cyclic=cyc)))
  out, seen = [], set()
  for j in jobs:
    key = json.dumps(j, sort_keys=True)
    if key not in seen:
      seen.add(key)
      out.append(j)
  return out


EVIDENCE = {
    'level': 'proof',
    'explanation': (
        'The real regularizer bodies are executed on symbolic kernels and symbolic amounts; the result is proved equal '
        'to the documented sums over adjacent differences / 2x2 twists / finite differences of keypoint outputs, written '
        'index by index from the docstrings. Equalities are decided by the exact polynomial normal form over |L| atoms '
        '(structural identity) with z3 behind it; corollaries (non-negativity, linearity in l1/l2, vanishing on '
        'constant / separable / linear / quadratic inputs) are lemmas over the spec functions.'),
    'rule': ('one obligation = (function, configuration, clause); non-trivial = not closed by constant folding '
             'alone is not measurable for normal-form identities, so the count is of obligations whose two sides are '
             'non-constant expressions; distinct by (function, configuration, clause, path)'),
    'bounds': 'lattice ranks 1-4 with unequal sizes <= 4, units <= 2, scalar and per-dimension amounts incl. exact zeros; '
              'PWL kernels of 2-5 (quick) / 2-7 (thorough) rows, cyclic or not, units <= 2',
    'exhaustive_tiers': {'quick': False, 'thorough': False},
    'trusted_base': ['vt operator contracts (cross-checked against TensorFlow every run)', 'z3 and cvc5',
                     'math.sqrt axiom: sqrt(l)^2 == l for l >= 0'],
    'assumptions': ['float arithmetic treated as exact real arithmetic', 'regularization amounts are >= 0'],
}

if __name__ == '__main__':
  import sys
  from vt import prop
  sys.exit(prop.main(sys.modules[__name__]))
