"""C07 - KroneckerFactoredLattice after its constraints gives monotone, bounded outputs.

Contracts establish per-term facts on the constrained kernel and scale; the real evaluation
function is proved equal to the Kronecker-factored spec; a lemma over that spec lifts the facts
to the function (monotone in the declared inputs, inside [output_min, output_max]).
Sign patterns of `scale` are explored through the tf.sign path oracle (<0, ==0, >0 per entry).
"""
import itertools
import json
from fractions import Fraction as Fr

import numpy as np

from vt import ctx as C
from vt import expr as E
from vt import harness as H
from vt import kerasc
from vt import load
from vt import tfc
from vt.expr import P, B
from vt.prop import Case
from spec import interp as SI

PROPERTY = 'C07'


def W(weights, L, U, D, T):
  """weights (1, L, U*D, T) -> accessor w(i, u, d, t)."""
  a = tfc._t(weights).a
  return lambda i, u, d, t: P.lift(a[0, i, u * D + d, t])


def dims_of(weights, units):
  a = tfc._t(weights).a
  _, L, UD, T = a.shape
  return L, units, UD // units, T


def _sign_formula(s, v):
  s = P.lift(s)
  return (s < 0) if v < 0 else (s.eq(0) if v == 0 else (s > 0))


def term_facts(w, scale, L, U, D, T, monotonicities, output_min, output_max, tag=''):
  """Per-term facts the constraints promise, with dir = sign(scale[u, t])."""
  cl = []
  sc = tfc._t(scale).a
  any_mono = any(monotonicities or [])
  one_sided = (output_min is None) != (output_max is None)
  both = output_min is not None and output_max is not None
  for u in range(U):
    for t in range(T):
      s = P.lift(sc[u, t])
      if any_mono or one_sided:
        for d in range(D):
          for i in range(L):
            # weights of a live term are >= 0 (a term with scale == 0 may hold anything that
            # multiplies out to zero: the code zeroes it)
            cl.append(('%sweight>=0[i%d,u%d,d%d,t%d]' % (tag, i, u, d, t), w(i, u, d, t) >= 0))
      for d, m in enumerate(monotonicities or []):
        if not m:
          continue
        for i in range(L - 1):
          a, b = w(i, u, d, t), w(i + 1, u, d, t)
          cl.append(('%sordered[i%d,u%d,d%d,t%d]' % (tag, i, u, d, t),
                     ((s > 0).implies(a <= b)) & ((s < 0).implies(a >= b))))
      if both:
        prod = P.const(1)
        for d in range(D):
          prod = prod * E.pmax(*[E.pabs(w(i, u, d, t)) for i in range(L)])
        cl.append(('%sproduct-of-maxima<=1[u%d,t%d]' % (tag, u, t), prod <= 1))
  return cl


def scale_facts(scale, output_min, output_max, tag=''):
  cl = []
  sc = tfc._t(scale).a
  for idx in np.ndindex(*sc.shape):
    s = P.lift(sc[idx])
    if output_min is not None and output_max is not None:
      bound = (P.lift(output_max) - P.lift(output_min)) / 2
      cl.append(('%s|scale|<=half-range%s' % (tag, list(idx)), (s <= bound) & (s >= -bound)))
    elif output_min is not None:
      cl.append(('%sscale>=0%s' % (tag, list(idx)), s >= 0))
    elif output_max is not None:
      cl.append(('%sscale<=0%s' % (tag, list(idx)), s <= 0))
  return cl


def fresh_like(t, prefix):
  t = tfc._t(t)
  return tfc.sym(t.a.shape, E.fresh_name(prefix), t.dtype)


@H.register
class KflMonotonicity(H.Contract):
  module = 'kronecker_factored_lattice_lib'
  qualname = '_approximately_project_monotonicity'

  def pre(self, weights, units, scale, monotonicities):
    return [('weights>=0%s' % (list(i),), P.lift(v) >= 0) for i, v in np.ndenumerate(tfc._t(weights).a)]

  def fresh_out(self, weights, units, scale, monotonicities):
    return fresh_like(weights, 'kpm')

  def post(self, out, weights, units, scale, monotonicities):
    if tuple(out.a.shape) != tuple(tfc._t(weights).a.shape):
      return [('shape', E.FALSE)]
    L, U, D, T = dims_of(weights, units)
    w = W(out, L, U, D, T)
    cl = term_facts(w, scale, L, U, D, T, monotonicities, None, None)
    cl += [('weight>=0[i%d,u%d,d%d,t%d]' % (i, u, d, t), w(i, u, d, t) >= 0)
           for i in range(L) for u in range(U) for d in range(D) for t in range(T)]
    return cl


@H.register
class KflBounds(H.Contract):
  module = 'kronecker_factored_lattice_lib'
  qualname = '_approximately_project_bounds'

  def fresh_out(self, weights, units, output_min, output_max):
    return fresh_like(weights, 'kpb')

  def post(self, out, weights, units, output_min, output_max):
    if tuple(out.a.shape) != tuple(tfc._t(weights).a.shape):
      return [('shape', E.FALSE)]
    L, U, D, T = dims_of(weights, units)
    w, w0 = W(out, L, U, D, T), W(weights, L, U, D, T)
    cl = []
    both = output_min is not None and output_max is not None
    one = (output_min is None) != (output_max is None)
    for u in range(U):
      for t in range(T):
        if both:
          prod = P.const(1)
          for d in range(D):
            prod = prod * E.pmax(*[E.pabs(w(i, u, d, t)) for i in range(L)])
          if D >= 2:
            # staged route (the direct nonlinear goal is slow for 2 dims and times out for 3): with M = prod_d max_i |w0|,
            # F = max(M, 1), r = F^(1/D): every |out| is |w0| / r, hence the product is M / r^D = M / F <= 1
            from vt import lemmas as LM
            ms = [E.pmax(*[E.pabs(w0(i, u, d, t)) for i in range(L)]) for d in range(D)]
            M = P.const(1)
            for m_ in ms:
              M = M * m_
            F = E.pmax(M, 1)
            r = tfc._root(F, D)
            LM.inverse(r)
            LM.inverse_power(r, D)
            ir = E.inv(r)
            cl.append(('have:root>0[u%d,t%d]' % (u, t), r > 0))
            for d in range(D):
              for i in range(L):
                cl.append(('have:|out|==|w|/r[i%d,u%d,d%d,t%d]' % (i, u, d, t),
                           E.pabs(w(i, u, d, t)).eq(E.pabs(w0(i, u, d, t)) * ir)))
              cl.append(('have:max|out|==max|w|/r[u%d,d%d,t%d]' % (u, d, t),
                         E.pmax(*[E.pabs(w(i, u, d, t)) for i in range(L)]).eq(ms[d] * ir)))
            LM.nonneg_product(F - M, ir ** D)
            cl.append(('have:product==M/r^D[u%d,t%d]' % (u, t), prod.eq(M * (ir ** D))))
          cl.append(('product-of-maxima<=1[u%d,t%d]' % (u, t), prod <= 1))
          # a common positive factor per (unit, term): signs and orderings survive
          for d in range(D):
            for i in range(L):
              cl.append(('keeps-sign[i%d,u%d,d%d,t%d]' % (i, u, d, t),
                         (w0(i, u, d, t) >= 0).implies(w(i, u, d, t) >= 0)))
            for i in range(L - 1):
              for sgn, nm in ((1, 'inc'), (-1, 'dec')):
                h = (w0(i, u, d, t) <= w0(i + 1, u, d, t)) if sgn == 1 else (w0(i, u, d, t) >= w0(i + 1, u, d, t))
                g = (w(i, u, d, t) <= w(i + 1, u, d, t)) if sgn == 1 else (w(i, u, d, t) >= w(i + 1, u, d, t))
                cl.append(('keeps-order-%s[i%d,u%d,d%d,t%d]' % (nm, i, u, d, t), h.implies(g)))
        elif one:
          for d in range(D):
            for i in range(L):
              cl.append(('non-negative-part[i%d,u%d,d%d,t%d]' % (i, u, d, t),
                         w(i, u, d, t).eq(E.pmax(w0(i, u, d, t), 0))))
        else:
          for d in range(D):
            for i in range(L):
              cl.append(('identity[i%d,u%d,d%d,t%d]' % (i, u, d, t), w(i, u, d, t).eq(w0(i, u, d, t))))
    return cl


@H.register
class KflFinalizeWeights(H.Contract):
  module = 'kronecker_factored_lattice_lib'
  qualname = 'finalize_weight_constraints'

  def fresh_out(self, weights, units, scale, monotonicities, output_min, output_max):
    return fresh_like(weights, 'kfw')

  def post(self, out, weights, units, scale, monotonicities, output_min, output_max):
    if tuple(out.a.shape) != tuple(tfc._t(weights).a.shape):
      return [('shape', E.FALSE)]
    L, U, D, T = dims_of(weights, units)
    return term_facts(W(out, L, U, D, T), scale, L, U, D, T, monotonicities, output_min, output_max)


@H.register
class KflFinalizeScale(H.Contract):
  module = 'kronecker_factored_lattice_lib'
  qualname = 'finalize_scale_constraints'

  def pre(self, scale, output_min, output_max):
    if output_min is not None and output_max is not None:
      return [('min<=max', P.lift(output_min) <= P.lift(output_max))]
    return []

  def fresh_out(self, scale, output_min, output_max):
    return fresh_like(scale, 'kfs')

  def post(self, out, scale, output_min, output_max):
    if tuple(out.a.shape) != tuple(tfc._t(scale).a.shape):
      return [('shape', E.FALSE)]
    cl = scale_facts(out, output_min, output_max)
    # never flips a sign (it may only move an entry to 0): the kernel projection depends on it
    for idx in np.ndindex(*out.a.shape):
      o, s = P.lift(out.a[idx]), P.lift(tfc._t(scale).a[idx])
      cl.append(('no-sign-flip%s' % (list(idx),), ((s >= 0).implies(o >= 0)) & ((s <= 0).implies(o <= 0))))
    return cl


@H.register
class KflConstraintsCall(H.Contract):
  module = 'kronecker_factored_lattice_layer'
  qualname = 'KroneckerFactoredLatticeConstraints.__call__'

  def fresh_out(self, this, w):
    return fresh_like(w, 'kcc')

  def post(self, out, this, w):
    if tuple(out.a.shape) != tuple(tfc._t(w).a.shape):
      return [('shape', E.FALSE)]
    from vt import utils_shim
    L, U, D, T = dims_of(w, this.units)
    monos = utils_shim.canon_monotonicities(this.monotonicities, D) if this.monotonicities else []
    return term_facts(W(out, L, U, D, T), this.scale, L, U, D, T, monos, this.output_min,
                      this.output_max)


@H.register
class KflScaleConstraintsCall(H.Contract):
  module = 'kronecker_factored_lattice_layer'
  qualname = 'ScaleConstraints.__call__'

  def pre(self, this, scale):
    return KflFinalizeScale().pre(scale, this.output_min, this.output_max)

  def fresh_out(self, this, scale):
    return fresh_like(scale, 'ksc')

  def post(self, out, this, scale):
    return KflFinalizeScale().post(out, scale, this.output_min, this.output_max)


def kfl_spec(xs, region, scale, bias, w, L, u, D, T):
  """bias_u + mean_t scale[u,t] * prod_d sum_i w(i,u,d,t) * hat_i(x_d) on a region."""
  base, frac = SI.base_and_frac([L] * D, region, xs)
  tot = P.const(0)
  for t in range(T):
    prod = P.const(1)
    for d in range(D):
      g = w(base[d], u, d, t) * (1 - frac[d]) + w(base[d] + 1, u, d, t) * frac[d]
      prod = prod * g
    tot = tot + P.lift(scale.a[u, t]) * prod
  return P.lift(bias.a[u]) + tot / T


@H.register
class KflEvaluate(H.Contract):
  module = 'kronecker_factored_lattice_lib'
  qualname = 'evaluate_with_hypercube_interpolation'

  def fresh_out(self, inputs, scale, bias, kernel, units, num_terms, lattice_sizes, clip_inputs):
    x = inputs[0] if isinstance(inputs, list) else inputs
    lead = x.a.shape[:-1]
    return tfc.sym(lead + ((1,) if units == 1 else ()), E.fresh_name('kfe'))

  def post(self, out, inputs, scale, bias, kernel, units, num_terms, lattice_sizes, clip_inputs):
    from props.C02 import _rows, _names, _region_clause
    L, U, D, T = dims_of(kernel, units)
    x0 = inputs[0] if isinstance(inputs, list) else inputs
    lead = x0.a.shape[:-1]
    want_shape = tuple(lead) + ((1,) if units == 1 else ())
    if tuple(out.a.shape) != want_shape:
      return [('shape', E.FALSE)]
    w = W(kernel, L, U, D, T)
    cl = [('shape', E.TRUE)]
    for b, xs in _rows(inputs, D):
      u = 0 if units == 1 else b[-1]
      for region in SI.regions([L] * D, clip_inputs):
        R = E.Region(SI.region_bounds([L] * D, region, _names(xs)))
        want = kfl_spec(xs, region, scale, bias, w, L, u, D, T)
        got = out.a[b + (0,)] if units == 1 else out.a[b]
        cl += _region_clause('kfl-function%s@%s' % (list(b), list(region)), R.formula(), R,
                             [('out', got, want)])
    return cl


# ------------------------------------------------------------------------------ cases

def _bounds(cfg):
  kind = cfg.get('bounds', 'none')
  rng = getattr(C.cur(), 'concrete_rng', None) if C.active() else None
  lo = hi = None
  if kind in ('min', 'both'):
    lo = P.var('output_min') if rng is None else -1.5
  if kind in ('max', 'both'):
    hi = P.var('output_max') if rng is None else 2.0
  if lo is not None and hi is not None and rng is None:
    C.cur().assume(lo <= hi, 'min<=max')
  return lo, hi


def _scale(cfg):
  U, T = cfg['units'], cfg['terms']
  rng = getattr(C.cur(), 'concrete_rng', None) if C.active() else None
  s = tfc.sym([U, T], 'scale')
  if rng is None and cfg.get('signs') is not None:
    for (idx, v) in zip(np.ndindex(U, T), cfg['signs']):
      C.cur().assume(_sign_formula(s.a[idx], v), 'sign pattern')
  return s


def _weights(cfg, nonneg=False):
  L, U, D, T = cfg['L'], cfg['units'], cfg['dims'], cfg['terms']
  w = tfc.sym([1, L, U * D, T], 'w')
  rng = getattr(C.cur(), 'concrete_rng', None) if C.active() else None
  if nonneg:
    if rng is None:
      for v in w.a.flat:
        C.cur().assume(v >= 0, 'weights>=0')
    else:
      w = tfc.Tensor(np.frompyfunc(lambda v: abs(v), 1, 1)(w.a), w.dtype)
  return w


class KpmCase(Case):
  contract_key = 'kronecker_factored_lattice_lib._approximately_project_monotonicity'
  public = False
  lift_case = 'constraint_call'

  def build(self, cfg):
    return (_weights(cfg, nonneg=True), cfg['units'], _scale(cfg), list(cfg['monos'])), {}


class KpbCase(Case):
  contract_key = 'kronecker_factored_lattice_lib._approximately_project_bounds'
  public = False
  lift_case = 'constraint_call'

  def build(self, cfg):
    lo, hi = _bounds(cfg)
    return (_weights(cfg), cfg['units'], lo, hi), {}


class KfwCase(Case):
  contract_key = 'kronecker_factored_lattice_lib.finalize_weight_constraints'

  def build(self, cfg):
    lo, hi = _bounds(cfg)
    return (_weights(cfg), cfg['units'], _scale(cfg), list(cfg['monos']), lo, hi), {}


class KfsCase(Case):
  contract_key = 'kronecker_factored_lattice_lib.finalize_scale_constraints'

  def build(self, cfg):
    lo, hi = _bounds(cfg)
    return (tfc.sym([cfg['units'], cfg['terms']], 'scale'), lo, hi), {}


class ConstraintCallCase(Case):
  contract_key = 'kronecker_factored_lattice_layer.KroneckerFactoredLatticeConstraints.__call__'

  def build(self, cfg):
    ly = load.mod('kronecker_factored_lattice_layer')
    lo, hi = _bounds(cfg)
    sc = _scale(cfg)
    monos = list(cfg['monos']) if any(cfg['monos']) or cfg.get('explicit_monos') else None
    kw = dict(units=cfg['units'], scale=sc, monotonicities=monos, output_min=lo, output_max=hi)
    this = ly.KroneckerFactoredLatticeConstraints(**kw)
    this._vt_native = {'module': 'kronecker_factored_lattice_layer',
                       'cls': 'KroneckerFactoredLatticeConstraints', 'init': kw}
    return (this, _weights(cfg)), {}


class ScaleCallCase(Case):
  contract_key = 'kronecker_factored_lattice_layer.ScaleConstraints.__call__'

  def build(self, cfg):
    ly = load.mod('kronecker_factored_lattice_layer')
    lo, hi = _bounds(cfg)
    kw = dict(output_min=lo, output_max=hi)
    this = ly.ScaleConstraints(**kw)
    this._vt_native = {'module': 'kronecker_factored_lattice_layer', 'cls': 'ScaleConstraints', 'init': kw}
    return (this, tfc.sym([cfg['units'], cfg['terms']], 'scale')), {}


class EvalCase(Case):
  contract_key = 'kronecker_factored_lattice_lib.evaluate_with_hypercube_interpolation'

  def build(self, cfg):
    L, U, D, T = cfg['L'], cfg['units'], cfg['dims'], cfg['terms']
    lead = [cfg.get('batch', 1)] + ([U] if U > 1 else [])
    if cfg.get('as_list'):
      x = [tfc.sym(lead + [1], 'x%d' % d) for d in range(D)]
    else:
      x = tfc.sym(lead + [D], 'x')
    return (x, tfc.sym([U, T], 'scale'), tfc.sym([U], 'bias'), tfc.sym([1, L, U * D, T], 'w'),
            U, T, L, cfg['clip']), {}


_HISTORY_SCRIPT = """
import numpy as np
kw = args[0]
ly = mod('kronecker_factored_lattice_layer')
failing = []
rs = np.random.RandomState(0)
layer = ly.KroneckerFactoredLattice(**kw['init'])
layer.build(kw['shape'])
for trial in range(6):
  scale = rs.uniform(0.5, 2.0, size=layer.scale.shape).astype('float32') * rs.choice([-1.0, 1.0], size=layer.scale.shape).astype('float32')
  layer.scale.assign(scale)
  K = tf.constant(rs.uniform(-2, 2, size=layer.kernel.shape).astype('float32'))
  for nm, kc in (('kernel.constraint', layer.kernel.constraint), ('final-kernel-constraints', getattr(layer, '_final_kernel_constraints', None))):
    if kc is None:
      continue
    got = np.asarray(kc(K))
    want = np.asarray(type(kc)(**dict(kc.get_config(), scale=tf.constant(scale)))(K))
    if np.abs(got - want).max() > 1e-5:
      failing.append('%s after the scale was set to %s: differs from the constraint of the current scale by %.4g' % (
          nm, scale.ravel().round(3).tolist(), float(np.abs(got - want).max())))
  if failing:
    break
result = failing[:3]
"""


class LayerHistoryCase(Case):
  """The constraints the real build() attaches, after the scale variable has been UPDATED: the property allows scale signs
  to change between updates, so the kernel constraint (training-time and final) must read the live scale, not the value
  it had at build time.  The layer's own constraint objects applied to a symbolic kernel must give what a fresh constraint
  object built from the layer's hyperparameters and the CURRENT scale gives."""
  contract_key = None
  xcheck = False

  def setup(self, cfg, c):
    c.sort_mode = 'abstract'

  def replay_desc(self, cfg, model, g):
    L, U, D, T = cfg['L'], cfg['units'], cfg['dims'], cfg['terms']
    lo = 0.0 if cfg['bounds'] in ('min', 'both') else None
    hi = 2.0 if cfg['bounds'] in ('max', 'both') else None
    init = dict(lattice_sizes=L, units=U, num_terms=T, monotonicities=list(cfg['monos']) if any(cfg['monos']) else None,
                output_min=lo, output_max=hi)
    return {'kind': 'script', 'code': _HISTORY_SCRIPT, 'floatx': 'float32',
            'args': [{'init': init, 'shape': [None, D] if U == 1 else [None, U, D]}], 'kwargs': {}}

  def replay_eval(self, cfg, model, g, desc, nat):
    failing = ['native run raised ' + nat['error'][:200]] if 'error' in nat else list(nat.get('ok') or [])
    return {'desc': {'kind': 'real layer, scale variable reassigned with random signs, the layer constraint objects against '
                             'fresh ones built from the current scale', 'layer': desc['args'][0]},
            'native': {k: v for k, v in nat.items() if k != 'trace'}, 'failing': failing}

  def body(self, cfg, c):
    from vt import kerasc
    ly = load.mod('kronecker_factored_lattice_layer')
    L, U, D, T = cfg['L'], cfg['units'], cfg['dims'], cfg['terms']
    lo = 0.0 if cfg['bounds'] in ('min', 'both') else None      # concrete hyperparameters (0.0: a falsy bound)
    hi = 2.0 if cfg['bounds'] in ('max', 'both') else None
    monos = list(cfg['monos']) if any(cfg['monos']) else None
    layer = ly.KroneckerFactoredLattice(lattice_sizes=L, units=U, num_terms=T, monotonicities=monos, output_min=lo, output_max=hi)
    layer.build(tfc.TensorShape([None, D] if U == 1 else [None, U, D]))
    K = tfc.sym(list(layer.kernel.a.shape), 'K')
    S1 = tfc.sym(list(layer.scale.a.shape), 'S_now')
    layer.scale.assign(S1)
    need_k = bool(monos) or lo is not None or hi is not None
    cl = []
    # the bound lemma takes the bias to be the value build() gives it (C10): with a bound set no optimizer step may move it
    if lo is not None or hi is not None:
      cl.append(('bias-cannot-be-moved-by-training-when-a-bound-is-set', B.const(not getattr(layer.bias, 'trainable', True))))
    else:
      cl.append(('bias-is-trainable-without-bounds', B.const(bool(getattr(layer.bias, 'trainable', True)))))
    sc_ = getattr(layer.scale, 'constraint', None)
    cl.append(('scale-constraint-attached-exactly-when-a-bound-is-set', B.const((sc_ is not None) == (lo is not None or hi is not None))))
    if sc_ is not None and hasattr(sc_, 'get_config'):
      cl.append(('scale-constraint-has-the-layer-bounds', B.const(sc_.get_config().get('output_min') == lo and
                                                                  sc_.get_config().get('output_max') == hi)))
    cons = [('kernel.constraint', getattr(layer.kernel, 'constraint', None))]
    if hasattr(layer, '_final_kernel_constraints'):
      cons.append(('final-kernel-constraints', layer._final_kernel_constraints))
    for nm, kc in cons:
      if kc is None:
        cl.append(('%s-attached-when-needed' % nm, B.const(not need_k)))
        continue
      out = kc(K)
      ref = type(kc)(**dict(kc.get_config(), scale=S1))(K) if hasattr(kc, 'get_config') else None
      cl.append(('%s-rebuilt-from-its-config' % nm, B.const(ref is not None and tuple(ref.a.shape) == tuple(out.a.shape))))
      if ref is None or tuple(ref.a.shape) != tuple(out.a.shape):
        continue
      for idx in np.ndindex(*out.a.shape):
        cl.append(('%s-follows-the-current-scale%s' % (nm, list(idx)), P.lift(out.a[idx]).eq(P.lift(ref.a[idx]))))
      cfgk = kc.get_config()
      cl.append(('%s-has-the-layer-hyperparameters' % nm,
                 B.const(cfgk.get('units') == U and cfgk.get('output_min') == lo and cfgk.get('output_max') == hi and
                         [int(load.mod('utils').canonicalize_monotonicity(m) or 0) for m in (cfgk.get('monotonicities') or [0] * D)] == list(cfg['monos']))))
    return cl


class LemmaCase(Case):
  """Per-term facts + bias fixed by build  =>  the function is monotone and bounded."""
  contract_key = None
  xcheck = False

  def body(self, cfg, c):
    L, D, T = cfg['L'], cfg['dims'], cfg['terms']
    U = 1
    lo, hi = _bounds(cfg)
    monos = cfg['monos']
    w_t = tfc.sym([1, L, U * D, T], 'w')
    sc = tfc.sym([U, T], 'scale')
    w = W(w_t, L, U, D, T)
    # which sign the kernel projection saw (the scale may since have been clipped to 0)
    dirs = cfg['signs']
    facts = []
    for t in range(T):
      s = P.lift(sc.a[0, t])
      dv = dirs[t]
      c.assume(s.eq(0) | _sign_formula(s, dv) if dv != 0 else s.eq(0), 'scale has the projected sign or is 0')
    # term facts w.r.t. the sign seen by the projection
    fake_scale = tfc.convert_to_tensor([[float(v) for v in dirs]], dtype=tfc.float32)
    for nm, b in term_facts(w, fake_scale, L, U, D, T, monos, lo, hi):
      t = int(nm.split(',t')[-1].rstrip(']')) if ',t' in nm else None
      if dirs[t] == 0 and 'weight>=0' in nm:
        continue   # a term whose scale was 0 at projection time is zeroed instead
      c.assume(b, 'term fact ' + nm)
    for t in range(T):
      if dirs[t] == 0:
        for d in range(D):
          for i in range(L):
            c.assume(w(i, 0, d, t).eq(0), 'zeroed term')
    for nm, b in scale_facts(sc, lo, hi):
      c.assume(b, 'scale fact ' + nm)
    # bias as fixed by the layer for bounded configurations
    if lo is not None and hi is not None:
      bias_v = (P.lift(lo) + P.lift(hi)) / 2
    elif lo is not None:
      bias_v = P.lift(lo)
    elif hi is not None:
      bias_v = P.lift(hi)
    else:
      bias_v = P.var('bias')
    bias = tfc.Tensor(np.array([bias_v], dtype=object), tfc.float32)
    x = [P.var('x%d' % d) for d in range(D)]
    cl = []
    both = lo is not None and hi is not None
    if both:
      # abstract lemmas (proved once over fresh reals), instantiated below by substitution
      a_, b_, A_, B_, S_ = [P.var(n) for n in ('la', 'lb', 'lA', 'lB', 'lS')]
      c.oblige('lemma:|a|<=A,|b|<=B => |ab|<=AB', _l_prod2(a_, b_, A_, B_), 'lemma')
      c.oblige('lemma:|s|<=S,|p|<=1 => |sp|<=S', _l_scale(a_, b_, S_), 'lemma')
      half = (P.lift(hi) - P.lift(lo)) / 2
    for region in SI.regions([L] * D, cfg.get('clip', True)):
      R = E.Region(SI.region_bounds([L] * D, region, ['x%d' % d for d in range(D)]))
      f = kfl_spec(x, region, sc, bias, w, L, 0, D, T)
      if both:
        base, frac = SI.base_and_frac([L] * D, region, x)
        for t in range(T):
          gs, Ms = [], []
          for d in range(D):
            g = w(base[d], 0, d, t) * (1 - frac[d]) + w(base[d] + 1, 0, d, t) * frac[d]
            M = E.pmax(*[E.pabs(w(i, 0, d, t)) for i in range(L)])
            cl.append(('have:|g|<=M[t%d,d%d]@%s' % (t, d, list(region)),
                       R.formula().implies((g <= M) & (g >= -M))))
            gs.append(g)
            Ms.append(M)
          p, A = gs[0], Ms[0]
          for d in range(1, D):
            c.assume(_l_prod2(p, gs[d], A, Ms[d]), 'instance of lemma prod2')
            p, A = p * gs[d], A * Ms[d]
          cl.append(('have:|prod|<=1[t%d]@%s' % (t, list(region)),
                     R.formula().implies((p <= 1) & (p >= -1))))
          c.assume(_l_scale(P.lift(sc.a[0, t]), p, half), 'instance of lemma scale')
      if lo is not None:
        cl.append(('output>=min@%s' % (list(region),), R.formula().implies(f >= lo)))
      if hi is not None:
        cl.append(('output<=max@%s' % (list(region),), R.formula().implies(f <= hi)))
      for d, m in enumerate(monos):
        if not m or region[d] in ('lo', 'hi'):
          continue
        y = list(x)
        y[d] = P.var('y%d' % d)
        fy = kfl_spec(y, region, sc, bias, w, L, 0, D, T)
        hyp = R.formula() & (y[d] >= x[d]) & (y[d] <= region[d] + 1)
        cl.append(('monotone[d%d]@%s' % (d, list(region)), hyp.implies(f <= fy)))
    return cl


def _l_prod2(a, b, A, B_):
  return ((a <= A) & (a >= -A) & (b <= B_) & (b >= -B_)).implies((a * b <= A * B_) & (a * b >= -(A * B_)))


def _l_scale(s, p, S):
  return ((s <= S) & (s >= -S) & (p <= 1) & (p >= -1)).implies((s * p <= S) & (s * p >= -S))


CASES = {'kpm': KpmCase(), 'kpb': KpbCase(), 'kfw': KfwCase(), 'kfs': KfsCase(),
         'constraint_call': ConstraintCallCase(), 'scale_call': ScaleCallCase(), 'eval': EvalCase(),
         'lemma': LemmaCase(), 'layer_history': LayerHistoryCase()}


def configs(tier, rng):
  jobs = []
  shapes = [(2, 1, 1, 1), (2, 1, 2, 1), (3, 1, 2, 1), (2, 2, 2, 1), (2, 1, 2, 2), (3, 1, 1, 2), (2, 2, 1, 2)]
  if tier == 'thorough':
    shapes += [(3, 2, 2, 2), (2, 1, 3, 1), (3, 1, 3, 1), (2, 2, 3, 2), (4, 1, 2, 1)]
  bk = ['none', 'min', 'max', 'both']
  for (L, U, D, T) in shapes:
    base = dict(L=L, units=U, dims=D, terms=T)
    sign_patterns = list(itertools.product([-1, 0, 1], repeat=U * T))
    if len(sign_patterns) > 9 and tier == 'quick':
      rng.shuffle(sign_patterns)
      sign_patterns = sign_patterns[:9]
    for monos in itertools.product([0, 1], repeat=D):
      monos = list(monos)
      for bounds in bk:
        for signs in sign_patterns:
          cfg = dict(base, monos=monos, bounds=bounds, signs=list(signs))
          if any(monos):
            jobs.append(('kpm', dict(base, monos=monos, signs=list(signs))))
          jobs.append(('kfw', cfg))
          jobs.append(('constraint_call', cfg))
        jobs.append(('kpb', dict(base, bounds=bounds)))
    for bounds in bk:
      for monos in itertools.product([0, 1], repeat=D):
        jobs.append(('layer_history', dict(base, bounds=bounds, monos=list(monos))))
    for bounds in bk:
      jobs.append(('kfs', dict(base, bounds=bounds)))
      jobs.append(('scale_call', dict(base, bounds=bounds)))
    for clip in (True, False):
      for as_list in (False, True):
        jobs.append(('eval', dict(base, clip=clip, as_list=as_list, batch=1)))
  for (L, D, T) in [(2, 1, 1), (2, 2, 1), (3, 1, 1), (2, 1, 2), (3, 2, 1), (2, 2, 2)] + (
      [(3, 2, 2), (2, 3, 1)] if tier == 'thorough' else []):
    for monos in itertools.product([0, 1], repeat=D):
      for bounds in bk:
        if not any(monos) and bounds == 'none':
          continue
        for signs in itertools.product([-1, 0, 1], repeat=T):
          jobs.append(('lemma', dict(L=L, dims=D, terms=T, monos=list(monos), bounds=bounds,
                                     signs=list(signs), clip=True)))
  out, seen = [], set()
  for j in jobs:
    key = json.dumps(j, sort_keys=True)
    if key not in seen:
      seen.add(key)
      out.append(j)
  return out


EVIDENCE = {
    'level': 'other',
    'explanation': (
        'Three layers of obligations. (1) Contracts on the real kfl_lib._approximately_project_monotonicity / '
        '_approximately_project_bounds / finalize_weight_constraints / finalize_scale_constraints and the two constraint '
        'classes: per-term facts (weights >= 0, sign(scale)-directed ordering along monotone dims, product of per-dimension '
        'maxima <= 1, scale range) for ALL kernels and scales, every sign pattern of scale (tf.sign is a path oracle over '
        '<0, ==0, >0). (2) The real evaluate_with_hypercube_interpolation equals the Kronecker-factored spec on every '
        'region. (3) Lemma over the spec: facts + fixed bias => monotone in declared inputs and inside [output_min, '
        'output_max], for the projected sign or a scale since clipped to 0 (either update order). Level `other` while a '
        'known finding / fixed defect is recorded and because dims/sizes are bounded.'),
    'rule': 'one obligation = (function, configuration incl. sign pattern, clause, element)',
    'bounds': 'lattice_sizes <= 3 (4 thorough), dims <= 2 (3 thorough), units <= 2, terms <= 2',
    'exhaustive_tiers': {'quick': False, 'thorough': False},
    'trusted_base': ['vt operator contracts incl. depthwise_conv2d, sign oracle and real d-th root axiom (cross-checked '
                     'against TensorFlow each run)', 'z3 and cvc5'],
    'assumptions': ['float arithmetic treated as exact real arithmetic',
                    'Keras applies the kernel and the scale constraint after each update, in either order'],
}

if __name__ == '__main__':
  import sys
  from vt import prop
  sys.exit(prop.main(sys.modules[__name__]))
