"""C08 - iterative projection keeps feasible weights, each group step is an exact projection, and
the loop body is Dykstra's recurrence.

Proved (per configuration, all kernels):
  1. feasible => unchanged for EVERY iteration count: loop contract `fixpoint` - one run of the real
     tf.while_loop body from (w0, all last_change = 0) returns that same state under feasible(w0).
  2. every _project_partial_* (and the PWL group projections) is the exact Euclidean projection onto
     its group of constraints: out == w + sum_rows max(0, -(a.w))/|a|^2 a, rows with disjoint supports.
  3. the loop body is Dykstra's recurrence over all groups, each exactly once, and the groups cover
     every constraint row of the specification.
Not provable here (limit statements): convergence of the violation to zero / to the nearest point;
it follows from 1-3 by the Boyle-Dykstra theorem (cited, not mechanised).
"""
import itertools
import json

import numpy as np

from vt import ctx as C
from vt import expr as E
from vt import harness as H
from vt import load
from vt import tfc
from vt.expr import P, B
from vt.prop import Case
from spec import dykstra as SD
from spec import lattice as SL
from contracts import lattice as CL
from contracts import pwl as CP

PROPERTY = 'C08'


def _t(x):
  return [tuple(v) for v in (x or [])]


def _shape(cfg):
  sizes, U = list(cfg['sizes']), cfg['units']
  return sizes + ([U] if U > 1 else [])


def _pad(lst, n):
  return list(lst or []) + [0] * (n - len(lst or []))


def _same_tensor(label, got, want_arr):
  cl = []
  if tuple(got.a.shape) != tuple(want_arr.shape):
    return [(label + ':shape', E.FALSE)]
  for idx in np.ndindex(*want_arr.shape):
    a, b = P.lift(got.a[idx]), P.lift(want_arr[idx])
    cl.append(('%s%s' % (label, list(idx)), E.TRUE if a.same(b) else a.eq(b)))
  return cl


class GroupCase(Case):
  """One real _project_partial_* call against the exact projection onto its rows."""
  contract_key = None
  xcheck = False

  def body(self, cfg, c):
    ll = load.mod('lattice_lib')
    shape = _shape(cfg)
    w = tfc.sym(shape, 'w')
    fam = cfg['family']
    n = len(shape)
    if fam == 'monotonicity':
      monos, unis = _pad(cfg.get('monos'), n), _pad(cfg.get('unis'), n)
      out = ll._project_partial_monotonicity(w, shape, monos, unis, cfg['dim'], cfg['group'])
      rows = SD.rows_monotonicity(w, shape, monos, unis, cfg['dim'], cfg['group'])
    elif fam == 'edgeworth':
      out = ll._project_partial_edgeworth(w, shape, tuple(cfg['trust']), tuple(cfg['group']))
      rows = SD.rows_edgeworth(w, shape, tuple(cfg['trust']), tuple(cfg['group']))
    elif fam == 'trapezoid':
      out = ll._project_partial_trapezoid(w, shape, tuple(cfg['trust']), cfg['group'])
      rows = SD.rows_trapezoid(w, shape, tuple(cfg['trust']), cfg['group'])
    elif fam == 'monotonic_dominance':
      out = ll._project_partial_monotonic_dominance(w, shape, tuple(cfg['pair']), tuple(cfg['group']))
      rows = SD.rows_monotonic_dominance(w, shape, tuple(cfg['pair']), tuple(cfg['group']))
    elif fam == 'joint_monotonicity':
      out = ll._project_partial_joint_monotonicity(w, shape, tuple(cfg['pair']), tuple(cfg['group']))
      rows = SD.rows_joint_monotonicity(w, shape, tuple(cfg['pair']), tuple(cfg['group']))
    elif fam == 'range_dominance':
      out = ll._project_partial_range_dominance(w, shape, tuple(cfg['pair']), tuple(cfg['group']))
      rows = SD.rows_range_dominance(w, shape, tuple(cfg['pair']), tuple(cfg['group']))
    else:
      raise ValueError(fam)
    if fam == 'range_dominance':
      # not in the property's "nearest point" list (the code deliberately leaves the shared corner
      # vertex alone): the step must land in its constraint set and fix feasible kernels
      rows_out = SD.rows_range_dominance(out, shape, tuple(cfg['pair']), tuple(cfg['group']))
      cl = [('step-lands-in-its-set[%d]' % k, r >= 0) for k, r in enumerate(rows_out)]
      feas = E.ball([r >= 0 for r in rows])
      for idx in np.ndindex(*w.a.shape):
        cl.append(('feasible=>unchanged%s' % (list(idx),),
                   feas.implies(P.lift(out.a[idx]).eq(P.lift(w.a[idx])))))
      return cl
    cl = [('group-rows-have-disjoint-supports', B.const(SD.disjoint_supports(rows)))]
    cl += _same_tensor('exact-euclidean-projection', out, SD.exact_projection(w, rows))
    return cl


class PwlGroupCase(Case):
  contract_key = None
  xcheck = False

  def body(self, cfg, c):
    lib = load.mod('pwl_calibration_lib')
    nh, U = cfg['nh'], cfg['units']
    h = tfc.sym([nh, U], 'h')
    cl = []
    if cfg['family'] == 'monotonicity':
      out = lib._project_monotonicity(h, cfg['mono'])
      rows = [P.lift(v) * cfg['mono'] for v in h.a.flat]
      cl += _same_tensor('exact-euclidean-projection', out, SD.exact_projection(h, rows))
    else:
      ln = tfc.sym([nh], 'len')
      for v in ln.a.flat:
        c.assume(P.lift(v) > 0, 'length > 0')
      out = lib._project_convexity(h, ln, cfg['conv'], cfg['group'])
      # rows: conv * (h[i+1]*l[i] - h[i]*l[i+1]) >= 0 for the pairs of the group; the lengths are
      # symbolic, so the projection formula is stated with the row norm l[i]^2 + l[i+1]^2.
      want = np.array(h.a, dtype=object)
      for i in range(cfg['group'], nh - 1, 2):
        for u in range(U):
          l0, l1 = P.lift(ln.a[i]), P.lift(ln.a[i + 1])
          a = (P.lift(h.a[i + 1, u]) * l0 - P.lift(h.a[i, u]) * l1) * cfg['conv']
          lam = E.pmax(0, -a) / (l0 * l0 + l1 * l1)
          want[i, u] = P.lift(h.a[i, u]) + lam * (-l1) * cfg['conv']
          want[i + 1, u] = P.lift(h.a[i + 1, u]) + lam * l0 * cfg['conv']
      cl += _same_tensor('exact-euclidean-projection', out, want)
    return cl


def _constraint_kwargs(cfg):
  return dict(monotonicities=cfg.get('monos'), unimodalities=cfg.get('unis'),
              edgeworth_trusts=_t(cfg.get('ew')) or None, trapezoid_trusts=_t(cfg.get('tz')) or None,
              monotonic_dominances=_t(cfg.get('mono_dom')) or None,
              range_dominances=_t(cfg.get('range_dom')) or None,
              joint_monotonicities=_t(cfg.get('joint_mono')) or None,
              joint_unimodalities=[(tuple(d), k) for d, k in cfg.get('joint_uni') or []] or None)


class FixpointCase(Case):
  """feasible(w0) => project_by_dykstra(w0, N) == w0 for every N (loop contract: fixpoint)."""
  contract_key = 'lattice_lib.project_by_dykstra'
  xcheck = True

  def loop_mode(self, cfg):
    rng = getattr(C.cur(), 'concrete_rng', None) if C.active() else None
    return ('unroll',) if rng is not None else ('fixpoint',)

  def extra_pre(self, cfg):
    def pre(weights, lattice_sizes, **kw):
      kw = dict(kw)
      kw.pop('num_iterations', None)
      return CL.all_family_clauses(weights, lattice_sizes, **kw)
    return pre

  def build(self, cfg):
    n = int(np.prod(cfg['sizes']))
    kw = _constraint_kwargs(cfg)
    rng = getattr(C.cur(), 'concrete_rng', None) if C.active() else None
    kw['num_iterations'] = 3 if rng is not None or getattr(C.cur(), 'for_native', False) else 10 ** 6
    return (tfc.sym([n, cfg['units']], 'w'), list(cfg['sizes'])), kw


class PwlFixpointCase(Case):
  contract_key = 'pwl_calibration_lib.project_all_constraints'
  xcheck = False
  lift_keep_stubs = ()

  def loop_mode(self, cfg):
    return ('fixpoint',)

  def extra_pre(self, cfg):
    def pre(weights, monotonicity, output_min, output_max, omc, oxc, convexity, lengths, iters=8):
      return CP.feasible(weights, monotonicity, output_min, output_max, omc, oxc, convexity, lengths)
    return pre

  def build(self, cfg):
    import props.C04 as C04
    lo, hi, omc, oxc = C04._lib_bounds(cfg)
    ln = C04._lengths(cfg)
    C04._ghost(cfg, C.cur(), ln)
    return (tfc.sym([cfg['nk'], cfg['units']], 'w'), cfg['mono'], lo, hi, omc, oxc, cfg.get('conv', 0), ln,
            10 ** 6), {}


class RecurrenceCase(Case):
  """The real loop body, with the group projections replaced by opaque functions, is Dykstra's
  recurrence: r = w - lc[g]; w' = P_g(r); lc'[g] = w' - r, every group exactly once; and the groups
  cover every row of the specification."""
  contract_key = None
  xcheck = False

  def body(self, cfg, c):
    ll = load.mod('lattice_lib')
    shape = _shape(cfg)
    kw = _constraint_kwargs(cfg)
    calls = []
    names = ['_project_partial_monotonicity', '_project_partial_edgeworth', '_project_partial_trapezoid',
             '_project_partial_monotonic_dominance', '_project_partial_range_dominance',
             '_project_partial_joint_monotonicity']
    saved = {n: getattr(ll, n) for n in names}

    def mk(name):
      def stub(weights, lattice_sizes, *args):
        out = tfc.sym(weights.a.shape, E.fresh_name('P'))
        calls.append((name, args, weights, out))
        return out
      return stub
    captured = {}
    real_while = tfc.while_loop

    def fake_while(cond, body, loop_vars, **k):
      captured['body'] = body
      captured['vars'] = loop_vars
      return loop_vars
    for n in names:
      setattr(ll, n, mk(n))
    tfc.while_loop = fake_while
    try:
      n = int(np.prod(cfg['sizes']))
      w0 = tfc.sym([n, cfg['units']], 'w')
      ll.project_by_dykstra(w0, list(cfg['sizes']), num_iterations=5, **kw)
      cl = [('loop-reached', B.const('body' in captured))]
      if 'body' not in captured:
        return cl
      it, wt, lc = captured['vars']
      keys = sorted(lc.keys(), key=str)
      # arbitrary loop state
      w = tfc.sym(shape, 'cur')
      lc_in = {k: tfc.sym(shape, 'lc%d' % i) for i, k in enumerate(keys)}
      del calls[:]
      _, w_out, lc_out = captured['body'](it, w, dict(lc_in))
    finally:
      for n in names:
        setattr(ll, n, saved[n])
      tfc.while_loop = real_while
    cl.append(('every-group-projected-exactly-once', B.const(len(calls) == len(keys) and
                                                             set(lc_out.keys()) == set(keys))))
    cur = w
    used = set()
    for ci, (name, args, win, wout) in enumerate(calls):
      # identify the group key from the increment that was rolled back
      match = None
      for k in keys:
        if k in used:
          continue
        if all((P.lift(win.a[idx]) - (P.lift(cur.a[idx]) - P.lift(lc_in[k].a[idx]))).same(0)
               for idx in np.ndindex(*win.a.shape)):
          match = k
          break
      cl.append(('step-%d:%s:rolls-back-its-own-increment' % (ci, name), B.const(match is not None)))
      if match is None:
        break
      used.add(match)
      ok = all((P.lift(lc_out[match].a[idx]) - (P.lift(wout.a[idx]) - P.lift(win.a[idx]))).same(0)
               for idx in np.ndindex(*win.a.shape))
      cl.append(('step-%d:%s:stores-new-increment' % (ci, name), B.const(ok)))
      cur = wout
    cl.append(('result-is-last-projection',
               B.const(all((P.lift(w_out.a[idx]) - P.lift(cur.a[idx])).same(0) for idx in np.ndindex(*cur.a.shape)))))
    # coverage: every row of the specification belongs to a visited group
    n_ = len(shape)
    monos, unis = _pad(cfg.get('monos'), n_), _pad(cfg.get('unis'), n_)
    wv = tfc.sym(shape, 'w')
    covered = set()
    for (name, args, win, wout) in calls:
      if name.endswith('monotonicity') and 'joint' not in name:
        rows = SD.rows_monotonicity(wv, shape, monos, unis, args[2], args[3])
      elif name.endswith('edgeworth'):
        rows = SD.rows_edgeworth(wv, shape, args[0], args[1])
      elif name.endswith('trapezoid'):
        rows = SD.rows_trapezoid(wv, shape, args[0], args[1])
      elif name.endswith('monotonic_dominance'):
        rows = SD.rows_monotonic_dominance(wv, shape, args[0], args[1])
      elif name.endswith('range_dominance'):
        rows = SD.rows_range_dominance(wv, shape, args[0], args[1])
      else:
        rows = SD.rows_joint_monotonicity(wv, shape, args[0], args[1])
      for r in rows:
        covered.add(_row_key(r))
    spec = CL.all_family_clauses(tfc.Tensor(wv.a.reshape(-1, cfg['units']) if cfg['units'] > 1 else wv.a.reshape(-1, 1), tfc.float32),
                                 list(cfg['sizes']), **{k: v for k, v in kw.items() if k != 'joint_unimodalities'})
    missing = [nm for nm, b in spec if b.kind == 'le' and _row_key(-b.args[0]) not in covered]
    cl.append(('groups-cover-every-constraint-row', B.const(not missing)))
    return cl


class PwlRecurrenceCase(Case):
  """The real PWL loop body, with the group projections opaque, is Dykstra's recurrence."""
  contract_key = None
  xcheck = False

  def body(self, cfg, c):
    import props.C04 as C04
    lib = load.mod('pwl_calibration_lib')
    lo, hi, omc, oxc = C04._lib_bounds(cfg)
    ln = C04._lengths(cfg)
    calls = []
    names = ['_project_bounds_considering_monotonicity', '_approximately_project_bounds_only',
             '_project_monotonicity', '_project_convexity']
    saved = {n: getattr(lib, n) for n in names}

    def mk(name):
      def stub(*args, **kw):
        if 'bounds' in name:
          b_in, h_in = kw['bias'], kw['heights']
          ob = tfc.sym(b_in.a.shape, E.fresh_name('Pb'))
          oh = tfc.sym(h_in.a.shape, E.fresh_name('Ph'))
          calls.append((name, (b_in, h_in), (ob, oh)))
          return ob, oh
        h_in = kw['heights']
        oh = tfc.sym(h_in.a.shape, E.fresh_name('Ph'))
        key = name + (str(kw.get('constraint_group', '')))
        calls.append((key, (None, h_in), (None, oh)))
        return oh
      return stub
    captured = {}
    real_while = tfc.while_loop
    real_fin = lib._finalize_constraints

    def fake_while(cond, body, loop_vars, **k):
      captured['body'] = body
      captured['vars'] = loop_vars
      return loop_vars
    for n in names:
      setattr(lib, n, mk(n))
    tfc.while_loop = fake_while
    lib._finalize_constraints = lambda **kw: tfc.concat([kw['bias'], kw['heights']], axis=0)
    try:
      w0 = tfc.sym([cfg['nk'], cfg['units']], 'w')
      lib.project_all_constraints(w0, cfg['mono'], lo, hi, omc, oxc, cfg.get('conv', 0), ln, 5)
      # groups the specification requires: monotonicity, bounds, and one convexity group per parity of adjacent
      # height pairs (pairs (i, i+1): even i always, odd i as soon as there are three heights)
      nh = cfg['nk'] - 1
      conv_groups = 0 if not cfg.get('conv', 0) else (1 + (nh >= 3)) if nh >= 2 else 0
      need = int(cfg['mono'] != 0) + int(cfg['bounds'] != 'none') + conv_groups
      if 'body' not in captured:
        return [('single-step-configuration (no loop) only when at most one group is needed [%d needed]' % need,
                 B.const(need <= 1))]
      cnt, b0, h0, lbc, lhc = captured['vars']
      bias = tfc.sym(b0.a.shape, 'curb')
      heights = tfc.sym(h0.a.shape, 'curh')
      lb_in = {k: tfc.sym(b0.a.shape, 'lb%d' % i) for i, k in enumerate(sorted(lbc))}
      lh_in = {k: tfc.sym(h0.a.shape, 'lh%d' % i) for i, k in enumerate(sorted(lhc))}
      del calls[:]
      _, b_out, h_out, lb_out, lh_out = captured['body'](cnt, bias, heights, dict(lb_in), dict(lh_in))
    finally:
      for n in names:
        setattr(lib, n, saved[n])
      tfc.while_loop = real_while
      lib._finalize_constraints = real_fin

    def same(a, b):
      return all((P.lift(x) - P.lift(y)).same(0) for x, y in zip(a.a.flat, b.a.flat))

    def diff(a, b):
      return tfc.subtract(a, b)
    cl = [('every-group-projected-exactly-once', B.const(len(calls) == len(lh_in)))]
    got_conv = sorted({k for k, _, _ in calls if k.startswith('_project_convexity')})
    cl.append(('convexity-groups-cover-every-adjacent-pair [%s]' % ','.join(got_conv), B.const(len(got_conv) == conv_groups)))
    cl.append(('number-of-groups-matches-the-specification', B.const(len(calls) == need)))
    curb, curh = bias, heights
    used = set()
    for ci, (name, (b_in, h_in), (ob, oh)) in enumerate(calls):
      match = None
      for k in sorted(lh_in):
        if k in used:
          continue
        if same(h_in, diff(curh, lh_in[k])) and (b_in is None or (k in lb_in and same(b_in, diff(curb, lb_in[k])))):
          match = k
          break
      cl.append(('step-%d:%s:rolls-back-its-own-increment' % (ci, name), B.const(match is not None)))
      if match is None:
        break
      used.add(match)
      ok = same(lh_out[match], diff(oh, h_in)) and (b_in is None or same(lb_out[match], diff(ob, b_in)))
      cl.append(('step-%d:%s:stores-new-increment' % (ci, name), B.const(ok)))
      curh = oh
      if ob is not None:
        curb = ob
    cl.append(('result-is-last-projection', B.const(same(h_out, curh) and same(b_out, curb))))
    return cl


def _row_key(r):
  """Rows are compared up to a positive factor."""
  cs = SD.coefficients(P.lift(r))
  if not cs:
    return None
  lead = min(cs)
  s = abs(cs[lead])
  return tuple(sorted((k, v / s) for k, v in cs.items()))


def _tuples(x):
  return [tuple(t) for t in (x or [])]


_CONV_SCRIPT = """
import numpy as np
spec = args[0]
ll = mod('lattice_lib')
A = np.array(spec['rows'], dtype='float64')            # feasible set: A x <= 0
n = A.shape[1]
kw = spec['kw']
tup = lambda xs: [tuple(x) for x in xs] if xs else None
rng = np.random.RandomState(17)

def reference(x0, sweeps=4000):
  # independent Dykstra over single half-spaces, float64
  x = x0.copy(); inc = np.zeros((A.shape[0], n))
  nrm = (A * A).sum(axis=1)
  for _ in range(sweeps):
    for k in range(A.shape[0]):
      y = x - inc[k]
      v = A[k] @ y
      xn = y - (max(v, 0.0) / nrm[k]) * A[k]
      inc[k] = xn - y
      x = xn
  return x

def real(x0, iters):
  w = tf.constant(x0.reshape(-1, 1), dtype='float32')
  out = ll.project_by_dykstra(w, kw['sizes'], monotonicities=kw.get('monos'), unimodalities=kw.get('unis'),
                              edgeworth_trusts=tup(kw.get('ew')), trapezoid_trusts=tup(kw.get('tz')),
                              monotonic_dominances=tup(kw.get('mono_dom')), range_dominances=tup(kw.get('range_dom')),
                              joint_monotonicities=tup(kw.get('joint_mono')), num_iterations=iters)
  return out.numpy().reshape(-1).astype('float64')

res = []
kernels = [rng.standard_normal(n) * s for s in (1.0, 1.0, 3.0)] + [np.arange(n)[::-1].astype('float64'),
                                                                   np.tile([1.0, -1.0], n)[:n]]
for x0 in kernels:
  ref = reference(x0)
  viol = []
  dist = []
  for iters in spec['iterations']:
    x = real(x0, iters)
    viol.append(float(max(0.0, np.max(A @ x))))
    dist.append(float(np.linalg.norm(x - ref)))
  again = real(real(x0, spec['iterations'][-1]), spec['iterations'][-1])
  res.append({'kernel': x0.tolist(), 'violation': viol, 'distance_to_nearest': dist, 'reference': ref.tolist(),
              'reference_violation': float(max(0.0, np.max(A @ ref))),
              'moved_by_projecting_again': float(np.max(np.abs(again - real(x0, spec['iterations'][-1]))))})
result = res
"""


class ConvergenceCase(Case):
  """BOUNDED stand-in (labelled, never counted as proved) for the limit clauses: on a handful of kernels
  per configuration the real project_by_dykstra is run natively with 1..512 iterations; the largest
  violation must fall below 1e-3 * scale, the result must approach the nearest feasible kernel computed
  by an independent float64 Dykstra over the single half-spaces of the specification, and projecting
  the converged result again must not move it."""
  contract_key = None
  xcheck = False

  def replay(self, cfg, model, g):
    # the clause was evaluated on the real code; its name carries the failing kernel
    return {'failing': [g['name']] if ' for kernel ' in g['name'] else [], 'note': 'evaluated natively in the check itself'}

  def body(self, cfg, c):
    from vt import prop
    sizes = cfg['sizes']
    n = int(np.prod(sizes))
    K = tfc.sym([n, 1], 'k')
    ids = {}
    for i in range(n):
      (m, _), = P.lift(K.a[i, 0]).t.items()
      ids[m[0][0]] = i
    rows = []
    for nm, b in CL.all_family_clauses(K, sizes, cfg.get('monos'), cfg.get('unis'), _tuples(cfg.get('ew')), _tuples(cfg.get('tz')),
                                       _tuples(cfg.get('mono_dom')), _tuples(cfg.get('range_dom')), _tuples(cfg.get('joint_mono'))):
      if b.kind != 'le':
        raise ValueError('specification row is not of the form p <= 0: %s' % nm)
      row = [0.0] * n
      for mono, coef in b.args[0].t.items():
        if len(mono) != 1 or mono[0][1] != 1:
          raise ValueError('specification row is not linear homogeneous: %s' % nm)
        row[ids[mono[0][0]]] = float(coef)
      rows.append(row)
    iters = [1, 8, 64, 512]
    res = prop.run_native([{'kind': 'script', 'code': _CONV_SCRIPT, 'floatx': 'float32',
                            'args': [{'rows': rows, 'kw': cfg, 'iterations': iters}], 'kwargs': {}}])[0]
    if 'error' in res:
      raise RuntimeError('native convergence run failed: ' + res['error'] + res.get('trace', ''))
    nearest = not cfg.get('range_dom')     # the property claims "nearest" for all families but range dominance / joint unimodality
    cl = []

    def add(name, ok, r, detail):
      # the evaluation itself ran on the real code: a failing clause carries its input
      cl.append((name if ok else '%s: %s for kernel %s' % (name, detail, [round(v, 4) for v in r['kernel']]), B.const(bool(ok))))
    for k, r in enumerate(res['ok']):
      scale = 1.0 + max(abs(v) for v in r['kernel'])
      add('bounded:reference-is-feasible[kernel %d]' % k, r['reference_violation'] <= 1e-6 * scale, r, 'reference violation %.3g' % r['reference_violation'])
      add('bounded:violation-after-512-iterations-is-small[kernel %d]' % k, r['violation'][-1] <= 1e-3 * scale, r,
          'violations after %s iterations: %s' % (iters, ['%.3g' % v for v in r['violation']]))
      add('bounded:violation-does-not-grow-from-64-to-512[kernel %d]' % k, r['violation'][-1] <= r['violation'][-2] + 1e-5 * scale, r,
          'violations %s' % ['%.3g' % v for v in r['violation']])
      if nearest:
        add('bounded:result-approaches-the-nearest-feasible-kernel[kernel %d]' % k, r['distance_to_nearest'][-1] <= 5e-3 * scale, r,
            'distance %.3g to the nearest feasible kernel %s' % (r['distance_to_nearest'][-1], [round(v, 4) for v in r['reference']]))
      add('bounded:projecting-the-converged-result-again-does-not-move-it[kernel %d]' % k, r['moved_by_projecting_again'] <= 5e-3 * scale, r,
          'moved by %.3g' % r['moved_by_projecting_again'])
    return cl


CASES = {'pwl_recurrence': PwlRecurrenceCase(), 'group': GroupCase(), 'pwl_group': PwlGroupCase(), 'fixpoint': FixpointCase(),
         'pwl_fixpoint': PwlFixpointCase(), 'recurrence': RecurrenceCase(), 'convergence': ConvergenceCase()}


FAMILY_CFGS = [
    dict(sizes=[2], monos=[1]), dict(sizes=[3], monos=[1]), dict(sizes=[4], monos=[1]),
    dict(sizes=[3], unis=[1]), dict(sizes=[4], unis=[-1]), dict(sizes=[2, 3], monos=[1, 1]),
    dict(sizes=[3, 2], monos=[0, 1], unis=[1, 0]),
    dict(sizes=[2, 2], monos=[1, 0], ew=[[0, 1, 1]]), dict(sizes=[3, 3], monos=[1, 0], ew=[[0, 1, -1]]),
    dict(sizes=[2, 3], monos=[1, 0], tz=[[0, 1, 1]]), dict(sizes=[3, 4], monos=[1, 0], tz=[[0, 1, -1]]),
    dict(sizes=[2, 3, 2], monos=[1, 0, 1], ew=[[0, 1, 1]], tz=[[2, 1, -1]]),
    dict(sizes=[2, 2], monos=[1, 1], mono_dom=[[0, 1]]), dict(sizes=[3, 3], monos=[1, 1], mono_dom=[[1, 0]]),
    dict(sizes=[2, 2], monos=[1, 1], range_dom=[[0, 1]]), dict(sizes=[3, 2], monos=[1, 1], range_dom=[[0, 1]]),
    dict(sizes=[2, 2], joint_mono=[[0, 1]]), dict(sizes=[3, 3], joint_mono=[[0, 1]]),
    dict(sizes=[2, 2, 2], monos=[1, 1, 0], mono_dom=[[0, 1]], joint_mono=[[1, 2]]),
    # unequal sizes along the two features of a pair (group existence guards index the right dimension)
    dict(sizes=[2, 3], monos=[1, 1], mono_dom=[[0, 1]]), dict(sizes=[3, 2], monos=[1, 1], mono_dom=[[0, 1]]),
    dict(sizes=[2, 4], monos=[1, 1], mono_dom=[[1, 0]]),
    dict(sizes=[2, 3], joint_mono=[[0, 1]]), dict(sizes=[3, 2], joint_mono=[[0, 1]]),
    dict(sizes=[2, 3], monos=[1, 0], ew=[[0, 1, 1]]), dict(sizes=[3, 2], monos=[1, 0], ew=[[0, 1, -1]]),
    dict(sizes=[2, 3], monos=[1, 1], range_dom=[[1, 0]]),
    # MORE THAN ONE constraint of the same family (every listed pair / trust must get its own groups)
    dict(sizes=[2, 2, 2], joint_mono=[[0, 1], [1, 2]]), dict(sizes=[2, 2, 2], joint_mono=[[0, 2], [0, 1]]),
    dict(sizes=[2, 2, 2], monos=[1, 1, 1], mono_dom=[[0, 1], [1, 2]]),
    dict(sizes=[2, 2, 2], monos=[1, 0, 0], ew=[[0, 1, 1], [0, 2, -1]]),
    dict(sizes=[2, 2, 2], monos=[1, 0, 0], tz=[[0, 1, 1], [0, 2, -1]]),
    dict(sizes=[2, 2, 2], monos=[1, 1, 1], range_dom=[[0, 1], [1, 2]]),
]


def configs(tier, rng):
  jobs = []
  for base in FAMILY_CFGS:
    for units in (1, 2):
      if tier == 'quick' and units == 2 and len(base['sizes']) == 3:
        continue
      cfg = dict(base, units=units)
      sizes = base['sizes']
      for d, m in enumerate(base.get('monos') or []):
        if m or (base.get('unis') or [0] * len(sizes))[d]:
          for g in (0, 1):
            if g + 1 < sizes[d]:
              jobs.append(('group', dict(cfg, family='monotonicity', dim=d, group=g)))
      for d, u in enumerate(base.get('unis') or []):
        if u and not (base.get('monos') or [0] * len(sizes))[d]:
          for g in (0, 1):
            if g + 1 < sizes[d]:
              jobs.append(('group', dict(cfg, family='monotonicity', dim=d, group=g)))
      for t in base.get('ew') or []:
        for g in itertools.product([0, 1], repeat=2):
          if g[0] < sizes[t[0]] - 1 and g[1] < sizes[t[1]] - 1:
            jobs.append(('group', dict(cfg, family='edgeworth', trust=t, group=list(g))))
      for t in base.get('tz') or []:
        for g in (0, 1):
          if g < sizes[t[1]] - 1:
            jobs.append(('group', dict(cfg, family='trapezoid', trust=t, group=g)))
      for fam, key in (('monotonic_dominance', 'mono_dom'), ('joint_monotonicity', 'joint_mono')):
        for p in base.get(key) or []:
          for g in itertools.product([0, 1], repeat=3):
            if g[0] < sizes[p[0]] - 1 and g[1] < sizes[p[1]] - 1:
              jobs.append(('group', dict(cfg, family=fam, pair=p, group=list(g))))
      for p in base.get('range_dom') or []:
        for g in itertools.product(range(sizes[p[0]]), range(sizes[p[1]])):
          jobs.append(('group', dict(cfg, family='range_dominance', pair=p, group=list(g))))
      jobs.append(('fixpoint', cfg))
      jobs.append(('recurrence', cfg))
      if units == 1 and (tier != 'quick' or len(sizes) <= 2 or sum(len(base.get(k) or []) for k in ('joint_mono', 'mono_dom', 'ew', 'tz', 'range_dom')) > 1 and sizes == [2, 2, 2]):
        jobs.append(('convergence', dict(base)))
  jobs.append(('fixpoint', dict(sizes=[3, 3], units=1, joint_uni=[[[0, 1], 'valley']])))
  jobs.append(('fixpoint', dict(sizes=[3], units=2, joint_uni=[[[0], 'peak']])))
  for nh in (1, 2, 3, 4):
    for units in (1, 2):
      for mono in (1, -1):
        jobs.append(('pwl_group', dict(family='monotonicity', nh=nh, units=units, mono=mono)))
      # PWL convexity pairs are projected along (1, -1) (sum of the two heights preserved), which is
      # the Euclidean projection only for equal segment lengths; the property does not claim
      # exactness for them, so no obligation is raised (an earlier version of this check did and
      # was wrong to).
  import props.C04 as C04
  for base in C04.base_space():
    if base['mono'] != 0 and base['conv'] != 0 and base['bounds'] != 'none':
      continue   # known finding F-C04a lives there; feasibility there is decided in C04
    # the convexity pair groups exist or not depending on the parity / number of heights: 2..5 keypoints there
    for nk in (((2, 3, 4, 5) if base['conv'] else (2, 3)) if tier == 'quick' else (2, 3, 4, 5)):
      jobs.append(('pwl_fixpoint', dict(base, nk=nk, units=1 + nk % 2)))
      jobs.append(('pwl_recurrence', dict(base, nk=nk, units=1 + nk % 2)))
  out, seen = [], set()
  for j in jobs:
    key = json.dumps(j, sort_keys=True)
    if key not in seen:
      seen.add(key)
      out.append(j)
  return out


EVIDENCE = {
    'level': 'other',
    'explanation': (
        'Deductive part (all kernels, per configuration): (1) a feasible kernel is returned unchanged for EVERY iteration '
        'count - loop contract: one execution of the real tf.while_loop body from (w0, increments 0) is the identity on the '
        'state under feasible(w0), for lattice_lib.project_by_dykstra and pwl_calibration_lib.project_all_constraints; (2) '
        'every real _project_partial_* group step (and the PWL monotonicity / convexity group steps) equals the exact '
        'Euclidean projection w + sum max(0,-(a.w))/|a|^2 a onto its rows, which have disjoint supports; (3) the real loop '
        'body is the Dykstra recurrence over all groups, each once, and the groups cover every row of the specification. '
        'NOT decided by contracts: the limit clauses (largest violation tends to zero; limit is the nearest feasible '
        'kernel; strict constraint with many iterations stays close to it). They follow from (1)-(3) by the Boyle-Dykstra '
        'theorem for exact cyclic projections with increments onto closed convex sets, which is cited, not mechanised.'),
    'rule': 'one obligation = (function / group, configuration, clause, element)',
    'bounds': 'lattices up to 3x4 / 2x3x2, units <= 2, every family singly and a few combinations; PWL 1-4 heights',
    'exhaustive_tiers': {'quick': False, 'thorough': False},
    'trusted_base': ['vt operator contracts incl. the tf.while_loop fixpoint contract', 'z3 and cvc5',
                     'Boyle-Dykstra convergence theorem (cited for the limit clauses; not mechanised)'],
    'assumptions': ['float arithmetic treated as exact real arithmetic',
                    'limit / convergence clauses of the property are not decided by this check'],
}

if __name__ == '__main__':
  import sys
  from vt import prop
  sys.exit(prop.main(sys.modules[__name__]))
