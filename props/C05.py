"""C05 - calibration layers evaluate exactly the function their weights describe."""
import itertools
import json
from fractions import Fraction as Fr

import numpy as np

from vt import ctx as C
from vt import expr as E
from vt import harness as H
from vt import kerasc
from vt import load
from vt import tfc
from vt.expr import P, B
from vt.prop import Case
from spec import pwl as SP

PROPERTY = 'C05'

KEYPOINTS = {
    2: [[0.0, 1.0], [-2.0, 0.5]],
    3: [[0.0, 1.0, 2.0], [-1.0, 0.0, 4.0]],
    4: [[0.0, 0.25, 1.0, 3.0], [-3.0, -1.0, 0.0, 0.5]],
    5: [[0.0, 1.0, 2.0, 3.0, 4.0], [-1.0, -0.5, 1.0, 1.25, 6.0]],
}


def points(kernel_col, is_cyclic):
  """Keypoint outputs of one unit: cumulative sums (+ closing point equal to the first if cyclic)."""
  ys = []
  acc = P.const(0)
  for h in kernel_col:
    acc = acc + P.lift(h)
    ys.append(acc)
  if is_cyclic:
    ys.append(ys[0])
  return ys


def segments(kps):
  """Closed regions of the input axis: ('lo',), (i,) for [kp_i, kp_i+1], ('hi',)."""
  return ['lo'] + list(range(len(kps) - 1)) + ['hi']


def seg_bounds(kps, seg, name):
  if seg == 'lo':
    return {name: (None, Fr(kps[0]))}
  if seg == 'hi':
    return {name: (Fr(kps[-1]), None)}
  return {name: (Fr(kps[seg]), Fr(kps[seg + 1]))}


def pwl_value(kps, ys, seg, x):
  """Linear between consecutive points, constant outside the keypoint range."""
  if seg == 'lo':
    return ys[0]
  if seg == 'hi':
    return ys[-1]
  k0, k1 = Fr(kps[seg]), Fr(kps[seg + 1])
  return ys[seg] + (P.lift(x) - k0) * (ys[seg + 1] - ys[seg]) / (k1 - k0)


def _name(x):
  (m, c), = P.lift(x).t.items()
  return E.ATOMS[m[0][0]].name


def _close(name, hyp, R, got, want):
  d = R.simplify(P.lift(got) - P.lift(want))
  if d.is_const and d.cval == 0:
    return [(name, E.TRUE)]
  return [(name, hyp.implies(P.lift(got).eq(P.lift(want))))]


@H.register
class PwlInterpolationWeights(H.Contract):
  module = 'pwl_calibration_lib'
  qualname = 'compute_interpolation_weights'

  def fresh_out(self, inputs, keypoints, lengths):
    nk = keypoints.a.shape[-1] + 1
    if keypoints.a.ndim == 1:
      return tfc.sym(inputs.a.shape[:-1] + (nk,), E.fresh_name('piw'))
    units = keypoints.a.shape[0]
    return tfc.sym((inputs.a.shape[0], units, nk), E.fresh_name('piw'))

  def post(self, out, inputs, keypoints, lengths):
    nk = keypoints.a.shape[-1] + 1
    cl = []
    if keypoints.a.ndim == 1:
      want_shape = inputs.a.shape[:-1] + (nk,)
    else:
      want_shape = (inputs.a.shape[0], keypoints.a.shape[0], nk)
    cl.append(('shape', B.const(tuple(out.a.shape) == tuple(want_shape))))
    if tuple(out.a.shape) != tuple(want_shape):
      return cl
    for idx in np.ndindex(*want_shape[:-1]):
      if keypoints.a.ndim == 1:
        x = inputs.a[idx + (0,)]
        k, l = keypoints.a, lengths.a
      else:
        u = idx[1]
        x = inputs.a[(idx[0], u if inputs.a.shape[1] > 1 else 0, 0)]
        k, l = keypoints.a[u], lengths.a[u]
      cl.append(('bias-weight%s' % (list(idx),), P.lift(out.a[idx + (0,)]).eq(1)))
      for i in range(nk - 1):
        w = E.pmax(E.pmin((P.lift(x) - P.lift(k[i])) / P.lift(l[i]), 1), 0)
        cl.append(('clipped-fraction%s[%d]' % (list(idx), i), P.lift(out.a[idx + (i + 1,)]).eq(w)))
    return cl


def _missing_output(this, u):
  mo = this.missing_output.a
  return P.lift(mo[0, u])


@H.register
class PwlCall(H.Contract):
  module = 'pwl_calibration_layer'
  qualname = 'PWLCalibration.call'
  inline = True

  def fresh_out(self, this, inputs):
    x = inputs[0] if isinstance(inputs, list) else inputs
    B_ = x.a.shape[0]
    if this.units > 1 and this.split_outputs:
      return [tfc.sym((B_, 1), E.fresh_name('pwl')) for _ in range(this.units)]
    return tfc.sym((B_, this.units), E.fresh_name('pwl'))

  def post(self, out, this, inputs):
    is_missing = None
    x = inputs
    if isinstance(inputs, list):
      x = inputs[0]
      if len(inputs) == 2:
        is_missing = inputs[1]
    B_, U = x.a.shape[0], this.units
    if U > 1 and this.split_outputs:
      ok = isinstance(out, list) and len(out) == U and all(tuple(o.a.shape) == (B_, 1) for o in out)
      if not ok:
        return [('shape', E.FALSE)]
      get = lambda b, u: out[u].a[b, 0]
    else:
      if isinstance(out, list) or tuple(out.a.shape) != (B_, U):
        return [('shape', E.FALSE)]
      get = lambda b, u: out.a[b, u]
    cl = [('shape', E.TRUE)]
    kps = [float(v) for v in this.input_keypoints]
    for b in range(B_):
      for u in range(U):
        xv = P.lift(x.a[b, u if x.a.shape[1] > 1 else 0])
        ys = points([this.kernel.a[i, u] for i in range(this.kernel.a.shape[0])], this.is_cyclic)
        got = get(b, u)
        for seg in segments(kps):
          bounds = seg_bounds(kps, seg, _name(xv))
          want = pwl_value(kps, ys, seg, xv)
          tag = '[%d,u%d]@%s' % (b, u, seg)
          if not this.impute_missing:
            R = E.Region(bounds)
            cl += _close('pwl-interpolation' + tag, R.formula(), R, got, want)
            continue
          mo = _missing_output(this, u)
          if is_missing is not None:
            mname = _name(is_missing.a[b, u if is_missing.a.shape[1] > 1 else 0])
            for flag, w, nm in ((0, want, 'pwl-interpolation'), (1, mo, 'missing-output')):
              R = E.Region(dict(bounds, **{mname: (Fr(flag), Fr(flag))}))
              cl += _close(nm + tag, R.formula(), R, got, w)
          else:
            miss = Fr(float(this.missing_input_value))
            R = E.Region(bounds)
            cl.append(('pwl-interpolation' + tag,
                       (R.formula() & xv.ne(miss)).implies(P.lift(got).eq(want))))
            if seg == 'lo':
              Rm = E.Region({_name(xv): (miss, miss)})
              cl += _close('missing-output[%d,u%d]' % (b, u), Rm.formula(), Rm, got, mo)
    return cl


@H.register
class PwlKeypointsOutputs(H.Contract):
  module = 'pwl_calibration_layer'
  qualname = 'PWLCalibration.keypoints_outputs'
  inline = True

  def fresh_out(self, this):
    n = this.kernel.a.shape[0] + (1 if this.is_cyclic else 0)
    return tfc.sym((n, this.units), E.fresh_name('kpo'))

  def post(self, out, this):
    U = this.units
    n = this.kernel.a.shape[0] + (1 if this.is_cyclic else 0)
    if tuple(out.a.shape) != (n, U):
      return [('shape', E.FALSE)]
    cl = []
    for u in range(U):
      ys = points([this.kernel.a[i, u] for i in range(this.kernel.a.shape[0])], this.is_cyclic)
      for i, y in enumerate(ys):
        cl.append(('reports-point[y%d,u%d]' % (i, u), P.lift(out.a[i, u]).eq(y)))
    return cl


@H.register
class PwlKeypointsInputs(H.Contract):
  module = 'pwl_calibration_layer'
  qualname = 'PWLCalibration.keypoints_inputs'
  inline = True

  def fresh_out(self, this):
    return tfc.sym((len(this.input_keypoints), this.units), E.fresh_name('kpi'))

  def post(self, out, this):
    n, U = len(this.input_keypoints), this.units
    if tuple(out.a.shape) != (n, U):
      return [('shape', E.FALSE)]
    return [('reports-keypoint[%d,u%d]' % (i, u), P.lift(out.a[i, u]).eq(Fr(float(this.input_keypoints[i]))))
            for i in range(n) for u in range(U)]


@H.register
class CategoricalCall(H.Contract):
  module = 'categorical_calibration_layer'
  qualname = 'CategoricalCalibration.call'
  inline = True

  def fresh_out(self, this, inputs):
    B_ = inputs.a.shape[0]
    if this.units > 1 and this.split_outputs:
      return [tfc.sym((B_, 1), E.fresh_name('cat')) for _ in range(this.units)]
    return tfc.sym((B_, this.units), E.fresh_name('cat'))

  def post(self, out, this, inputs):
    B_, U = inputs.a.shape[0], this.units
    if U > 1 and this.split_outputs:
      ok = isinstance(out, list) and len(out) == U and all(tuple(o.a.shape) == (B_, 1) for o in out)
      if not ok:
        return [('shape', E.FALSE)]
      get = lambda b, u: out[u].a[b, 0]
    else:
      if isinstance(out, list) or tuple(out.a.shape) != (B_, U):
        return [('shape', E.FALSE)]
      get = lambda b, u: out.a[b, u]
    cl = []
    for b in range(B_):
      for u in range(U):
        cat = inputs.a[b, u if inputs.a.shape[1] > 1 else 0]
        cat = int(cat.cval) if isinstance(cat, P) else int(cat)
        if this.default_input_value is not None and cat == int(this.default_input_value):
          row = this.num_buckets - 1
        else:
          row = cat
        cl.append(('category-row[%d,u%d]=%d' % (b, u, row),
                   P.lift(get(b, u)).eq(P.lift(this.kernel.a[row, u]))))
    return cl


# ------------------------------------------------------------------------------ cases

def _pwl_layer(cfg):
  ly = load.mod('pwl_calibration_layer')
  kps = KEYPOINTS[cfg['nk']][cfg.get('kpset', 0)]
  U = cfg['units']
  rows = cfg['nk'] - (1 if cfg.get('cyclic') else 0)
  K = tfc.sym([rows, U], 'K')
  M = tfc.sym([1, U], 'M')
  kw = dict(input_keypoints=list(kps), units=U, is_cyclic=bool(cfg.get('cyclic')),
            split_outputs=bool(cfg.get('split')))
  miss = cfg.get('missing')
  if miss:
    kw['impute_missing'] = True
    if miss in ('value', 'value_fixed', 'both', 'both_fixed'):
      kw['missing_input_value'] = cfg.get('miss_in', -7.5)
    if miss.endswith('fixed'):
      kw['missing_output_value'] = cfg.get('miss_out', 0.75)

  def provider(layer, name, shape, dt, init, cons):
    return K if 'kernel' in name else M
  kerasc.WEIGHT_PROVIDER[0] = provider
  try:
    layer = ly.PWLCalibration(**kw)
    layer.build(tfc.TensorShape([None, cfg.get('in_cols', U)]))
  finally:
    kerasc.WEIGHT_PROVIDER[0] = None
  w = {'kernel': K}
  if miss and not miss.endswith('fixed'):
    w['missing_output'] = M
  layer._vt_native = {'kind': 'layer', 'module': 'pwl_calibration_layer', 'cls': 'PWLCalibration',
                      'init': kw, 'weights': w, 'build_shape': [None, cfg.get('in_cols', U)]}
  return layer


class PiwCase(Case):
  native_dtype = 'float32'   # the layer code builds float32 constants (tf.ones(shape))
  contract_key = 'pwl_calibration_lib.compute_interpolation_weights'
  public = False
  lift_case = 'pwl_call'

  def build(self, cfg):
    kps = KEYPOINTS[cfg['nk']][cfg.get('kpset', 0)]
    k = np.array(kps)
    if cfg.get('rank2'):
      U = cfg['units']
      kp = tfc.convert_to_tensor([list(k[:-1])] * U, dtype=tfc.float32)
      ln = tfc.convert_to_tensor([list(k[1:] - k[:-1])] * U, dtype=tfc.float32)
      x = tfc.sym([cfg.get('batch', 1), cfg.get('in_cols', U), 1], 'x')
    else:
      kp = tfc.convert_to_tensor(list(k[:-1]), dtype=tfc.float32)
      ln = tfc.convert_to_tensor(list(k[1:] - k[:-1]), dtype=tfc.float32)
      x = tfc.sym([cfg.get('batch', 1), 1], 'x')
    return (x, kp, ln), {}


class PwlCallCase(Case):
  native_dtype = 'float32'   # the layer code builds float32 constants (tf.ones(shape))
  contract_key = 'pwl_calibration_layer.PWLCalibration.call'

  def build(self, cfg):
    layer = _pwl_layer(cfg)
    x = tfc.sym([cfg.get('batch', 1), cfg.get('in_cols', cfg['units'])], 'x')
    if cfg.get('missing') in ('tensor', 'tensor_fixed', 'both', 'both_fixed'):
      # 'both': the layer has a missing_input_value AND the caller passes is_missing flags: the flags decide
      rng = getattr(C.cur(), 'concrete_rng', None)
      if rng is not None:
        m = tfc.convert_to_tensor(np.array([[float(rng.randint(0, 1)) for _ in range(x.a.shape[1])]
                                            for _ in range(x.a.shape[0])]).tolist(), dtype=tfc.float32)
      else:
        m = tfc.sym(list(x.a.shape), 'm')
        for v in m.a.flat:
          C.cur().assume(v.eq(0) | v.eq(1), 'is_missing is a 0/1 flag')
      return (layer, [x, m]), {}
    return (layer, x), {}


class KpoCase(Case):
  native_dtype = 'float32'   # the layer code builds float32 constants (tf.ones(shape))
  contract_key = 'pwl_calibration_layer.PWLCalibration.keypoints_outputs'

  def build(self, cfg):
    return (_pwl_layer(cfg),), {}


class KpiCase(Case):
  native_dtype = 'float32'   # the layer code builds float32 constants (tf.ones(shape))
  contract_key = 'pwl_calibration_layer.PWLCalibration.keypoints_inputs'

  def build(self, cfg):
    return (_pwl_layer(cfg),), {}


class CatCallCase(Case):
  native_dtype = 'float32'   # the layer code builds float32 constants (tf.ones(shape))
  contract_key = 'categorical_calibration_layer.CategoricalCalibration.call'

  def build(self, cfg):
    ly = load.mod('categorical_calibration_layer')
    nb, U = cfg['buckets'], cfg['units']
    K = tfc.sym([nb, U], 'K')
    kw = dict(num_buckets=nb, units=U, split_outputs=bool(cfg.get('split')),
              default_input_value=cfg.get('default'))
    kerasc.WEIGHT_PROVIDER[0] = lambda layer, name, shape, dt, init, cons: K
    try:
      layer = ly.CategoricalCalibration(**kw)
      layer.build(tfc.TensorShape([None, cfg.get('in_cols', U)]))
    finally:
      kerasc.WEIGHT_PROVIDER[0] = None
    layer._vt_native = {'kind': 'layer', 'module': 'categorical_calibration_layer',
                        'cls': 'CategoricalCalibration', 'init': kw, 'weights': {'kernel': K},
                        'build_shape': [None, cfg.get('in_cols', U)]}
    x = tfc.convert_to_tensor(cfg['ids'], dtype=tfc.int32 if cfg.get('int_input', True) else tfc.float32)
    return (layer, x), {}


_LEARNED_CALL_SCRIPT = """
import numpy as np
spec = args[0]
ly = mod('pwl_calibration_layer')
U, kps = spec['units'], spec['kps']
layer = ly.PWLCalibration(input_keypoints=kps, units=U, input_keypoints_type='learned_interior')
layer.build([None, spec['in_cols']])
rng = np.random.RandomState(5)
worst = None
for spread in (0.0, 1.0, 5.0, 12.0, 25.0):
  for trial in range(4):
    logits = rng.uniform(-spread, spread, size=(U, len(kps) - 1))
    kern = rng.uniform(-1.0, 1.0, size=(len(kps), U))
    layer.interpolation_logits.assign(logits.astype('float32'))
    layer.kernel.assign(kern.astype('float32'))
    kin = layer.keypoints_inputs().numpy().astype('float64')
    kout = layer.keypoints_outputs().numpy().astype('float64')
    xs = np.concatenate([kin[:, 0], (kin[:-1, 0] + kin[1:, 0]) / 2, [kps[0] - 1.0, kps[-1] + 1.0]])
    x = np.tile(xs[:, None], (1, spec['in_cols'])).astype('float32')
    y = layer(tf.constant(x)).numpy()
    for u in range(U):
      want = np.interp(x[:, u if spec['in_cols'] > 1 else 0].astype('float64'), kin[:, u], kout[:, u])
      err = float(np.max(np.abs(y[:, u] - want)))
      scale = 1.0 + float(np.max(np.abs(kout[:, u])))
      if err > 1e-3 * scale and (worst is None or err > worst['error']):
        worst = {'error': err, 'unit': u, 'logits': logits.tolist(), 'kernel': kern.tolist(), 'inputs': xs.tolist(),
                 'layer_output': y[:, u].tolist(), 'interp_through_reported_keypoints': want.tolist()}
result = worst
"""


class LemmaCase(Case):
  contract_key = None
  xcheck = False

  def replay_desc(self, cfg, model, g):
    """Bounded native search for a concrete failing input of the learned-keypoint obligations (softmax is
    uninterpreted in the contract library, so the solver model itself cannot be replayed)."""
    if cfg.get('lemma') != 'learned-call':
      return None
    kps = [float(k) for k in KEYPOINTS[cfg['nk']][cfg.get('kpset', 0)]]
    return {'kind': 'script', 'code': _LEARNED_CALL_SCRIPT, 'floatx': 'float32',
            'args': [{'units': cfg['units'], 'in_cols': cfg.get('in_cols', cfg['units']), 'kps': kps}], 'kwargs': {}}

  def replay_eval(self, cfg, model, g, desc, nat):
    failing = []
    if 'error' in nat:
      failing.append('raised ' + nat['error'][:200])
    elif nat.get('ok'):
      failing.append('call() differs from interpolation through keypoints_inputs()/keypoints_outputs() by %g'
                     % nat['ok']['error'])
    return {'desc': {k: v for k, v in desc.items() if k != 'code'}, 'native': {k: v for k, v in nat.items() if k != 'trace'},
            'failing': failing, 'note': 'bounded native search (random logits with spreads up to 25)'}

  def body(self, cfg, c):
    kind = cfg['lemma']
    cl = []
    if kind in ('monotone', 'bounded'):
      kps = KEYPOINTS[cfg['nk']][cfg.get('kpset', 0)]
      ys = [P.var('y%d' % i) for i in range(len(kps))]
      x, x2 = P.var('x'), P.var('x2')
      if kind == 'monotone':
        d = cfg['direction']
        for i in range(len(ys) - 1):
          c.assume((ys[i] <= ys[i + 1]) if d == 1 else (ys[i] >= ys[i + 1]), 'monotone keypoint outputs')
        for seg in segments(kps):
          R = E.Region(dict(seg_bounds(kps, seg, 'x'), **seg_bounds(kps, seg, 'x2')))
          fx, fy = pwl_value(kps, ys, seg, x), pwl_value(kps, ys, seg, x2)
          cl.append(('monotone-function@%s' % seg,
                     (R.formula() & (x <= x2)).implies((fx <= fy) if d == 1 else (fx >= fy))))
      else:
        lo, hi = P.var('lo'), P.var('hi')
        for y in ys:
          c.assume((y >= lo) & (y <= hi), 'bounded keypoint outputs')
        for seg in segments(kps):
          R = E.Region(seg_bounds(kps, seg, 'x'))
          fx = pwl_value(kps, ys, seg, x)
          cl.append(('bounded-function@%s' % seg, R.formula().implies((fx >= lo) & (fx <= hi))))
    elif kind == 'learned-keypoints':
      # learned interior keypoints stay ordered between the fixed end points, for any logits
      ly = load.mod('pwl_calibration_layer')
      kps = KEYPOINTS[cfg['nk']][cfg.get('kpset', 0)]
      U = cfg['units']
      L = tfc.sym([U, len(kps) - 1], 'logit')
      K = tfc.sym([len(kps), U], 'K')

      def provider(layer, name, shape, dt, init, cons):
        return K if 'kernel' in name else L
      kerasc.WEIGHT_PROVIDER[0] = provider
      try:
        layer = ly.PWLCalibration(input_keypoints=list(kps), units=U, input_keypoints_type='learned_interior')
        layer.build(tfc.TensorShape([None, U]))
      finally:
        kerasc.WEIGHT_PROVIDER[0] = None
      kin = layer.keypoints_inputs()
      cl.append(('shape', B.const(tuple(kin.a.shape) == (len(kps), U))))
      for u in range(U):
        cl.append(('first-keypoint-fixed[u%d]' % u, P.lift(kin.a[0, u]).eq(Fr(kps[0]))))
        cl.append(('last-keypoint-fixed[u%d]' % u, P.lift(kin.a[-1, u]).eq(Fr(kps[-1]))))
        for i in range(len(kps) - 1):
          cl.append(('strictly-ordered[%d,u%d]' % (i, u), P.lift(kin.a[i, u]) < P.lift(kin.a[i + 1, u])))
    elif kind == 'learned-call':
      # with learned interior keypoints, call() interpolates through exactly the points that
      # keypoints_inputs() / keypoints_outputs() report (hat form over those points), for any logits
      ly = load.mod('pwl_calibration_layer')
      kps = KEYPOINTS[cfg['nk']][cfg.get('kpset', 0)]
      U = cfg['units']
      L = tfc.sym([U, len(kps) - 1], 'logit')
      K = tfc.sym([len(kps), U], 'K')

      cyc = bool(cfg.get('cyclic'))
      K = tfc.sym([len(kps) - (1 if cyc else 0), U], 'K')
      M = tfc.sym([1, U], 'M')

      def provider(layer, name, shape, dt, init, cons):
        return K if 'kernel' in name else (M if 'missing' in name else L)
      kerasc.WEIGHT_PROVIDER[0] = provider
      kw = dict(input_keypoints=list(kps), units=U, input_keypoints_type='learned_interior', is_cyclic=cyc,
                split_outputs=bool(cfg.get('split')))
      if cfg.get('missing'):
        kw.update(impute_missing=True, missing_input_value=-7.5)
      try:
        layer = ly.PWLCalibration(**kw)
        layer.build(tfc.TensorShape([None, cfg.get('in_cols', U)]))
      finally:
        kerasc.WEIGHT_PROVIDER[0] = None
      x = tfc.sym([1, cfg.get('in_cols', U)], 'x')
      y = layer.call(x)
      if isinstance(y, list):
        cl.append(('split-into-one-tensor-per-unit', B.const(len(y) == U and all(tuple(t.a.shape) == (1, 1) for t in y))))
        y = tfc.concat(y, axis=1)
      kin, kout = layer.keypoints_inputs(), layer.keypoints_outputs()
      cl.append(('shape', B.const(tuple(y.a.shape) == (1, U))))
      cl.append(('reported-keypoints-shape', B.const(tuple(kin.a.shape) == (len(kps), U) and tuple(kout.a.shape) == (len(kps), U))))
      for u in range(U):
        xu = P.lift(x.a[0, u if cfg.get('in_cols', U) > 1 else 0])
        want = hat_form([P.lift(kin.a[i, u]) for i in range(len(kps))], [P.lift(kout.a[i, u]) for i in range(len(kps))], xu)
        got = P.lift(y.a[0, u])
        if cfg.get('missing'):
          cl.append(('call-interpolates-reported-keypoints[u%d]' % u, xu.ne(-7.5).implies(got.eq(want))))
          cl.append(('missing-input-gives-missing-output[u%d]' % u, xu.eq(-7.5).implies(got.eq(P.lift(M.a[0, u])))))
        else:
          cl.append(('call-interpolates-reported-keypoints[u%d]' % u, E.TRUE if got.same(want) else got.eq(want)))
        if cyc:
          cl.append(('cyclic-reported-ends-equal[u%d]' % u, P.lift(kout.a[0, u]).eq(P.lift(kout.a[-1, u]))))
    elif kind == 'hat-form':
      # for ANY strictly increasing keypoints the hat form is the linear interpolation on each
      # segment and constant outside (keypoints are symbolic here)
      n = cfg['nk']
      ks = [P.var('k%d' % i) for i in range(n)]
      ys = [P.var('y%d' % i) for i in range(n)]
      x = P.var('x')
      for i in range(n - 1):
        c.assume(ks[i] < ks[i + 1], 'strictly increasing keypoints')
      f = hat_form(ks, ys, x)
      cl.append(('constant-below', (x <= ks[0]).implies(f.eq(ys[0]))))
      cl.append(('constant-above', (x >= ks[-1]).implies(f.eq(ys[-1]))))
      for i in range(n - 1):
        lin = ys[i] + (x - ks[i]) * (ys[i + 1] - ys[i]) * E.inv(ks[i + 1] - ks[i])
        cl.append(('linear-on-segment[%d]' % i, ((x >= ks[i]) & (x <= ks[i + 1])).implies(f.eq(lin))))
        cl.append(('passes-through-keypoint[%d]' % i, x.eq(ks[i]).implies(f.eq(ys[i]))))
    elif kind == 'hat-form-monotone':
      # for ANY strictly increasing keypoints (symbolic): monotone keypoint outputs give a monotone function,
      # bounded keypoint outputs a bounded one (used for learned keypoints, C03)
      n = cfg['nk']
      ks = [P.var('k%d' % i) for i in range(n)]
      ys = [P.var('y%d' % i) for i in range(n)]
      x, x2 = P.var('x'), P.var('x2')
      lo, hi = P.var('lo'), P.var('hi')
      for i in range(n - 1):
        c.assume(ks[i] < ks[i + 1], 'strictly increasing keypoints')
      # hat weights as opaque quantities w_i(x) in [0, 1], non-decreasing in x (proved below from the definition)
      ws = [E.pmin(E.pmax((x - ks[i]) * E.inv(ks[i + 1] - ks[i]), 0), 1) for i in range(n - 1)]
      ws2 = [E.pmin(E.pmax((x2 - ks[i]) * E.inv(ks[i + 1] - ks[i]), 0), 1) for i in range(n - 1)]
      from vt import lemmas as L_
      for i in range(n - 1):
        L_.inverse(ks[i + 1] - ks[i])
        L_.nonneg_product(x2 - x, E.inv(ks[i + 1] - ks[i]))
        cl.append(('have:weight-in-[0,1][%d]' % i, (ws[i] >= 0) & (ws[i] <= 1)))
        cl.append(('have:weight-non-decreasing-in-x[%d]' % i, (x <= x2).implies(ws[i] <= ws2[i])))
      f, f2 = hat_form(ks, ys, x), hat_form(ks, ys, x2)
      d = cfg['direction']
      mono_h = E.ball([(ys[i] <= ys[i + 1]) if d == 1 else (ys[i] >= ys[i + 1]) for i in range(n - 1)])
      for i in range(n - 1):
        L_.nonneg_product(ws2[i] - ws[i], (ys[i + 1] - ys[i]) * d)
      cl.append(('monotone-for-any-ordered-keypoints', (mono_h & (x <= x2)).implies((f <= f2) if d == 1 else (f >= f2))))
      if d == 1:
        # telescoping: f = sum_i (w_{i-1} - w_i) y_i with w_{-1} = 1, w_{n-1} = 0 and w non-increasing in i
        for i in range(n - 2):
          cl.append(('have:weights-non-increasing-across-segments[%d]' % i, ws[i] >= ws[i + 1]))
        inb = E.ball([(y >= lo) & (y <= hi) for y in ys])
        coef = [1 - ws[0]] + [ws[i - 1] - ws[i] for i in range(1, n - 1)] + [ws[n - 2]]
        for cf, y in zip(coef, ys):
          L_.nonneg_product(cf, y - lo)
          L_.nonneg_product(cf, hi - y)
        cl.append(('bounded-for-any-ordered-keypoints', inb.implies((f >= lo) & (f <= hi))))
    return cl


def hat_form(ks, ys, x):
  """y0 + sum_i clip((x - k_i) / (k_{i+1} - k_i), 0, 1) * (y_{i+1} - y_i)."""
  f = ys[0]
  for i in range(len(ks) - 1):
    w = E.pmin(E.pmax((x - ks[i]) * E.inv(ks[i + 1] - ks[i]), 0), 1)
    f = f + w * (ys[i + 1] - ys[i])
  return f


CASES = {'piw': PiwCase(), 'pwl_call': PwlCallCase(), 'kpo': KpoCase(), 'kpi': KpiCase(),
         'cat_call': CatCallCase(), 'lemma': LemmaCase()}


def configs(tier, rng):
  jobs = []
  nks = (2, 3, 4) if tier == 'quick' else (2, 3, 4, 5)
  for nk in nks:
    for kpset in (0, 1):
      for units in (1, 2):
        jobs.append(('piw', dict(nk=nk, kpset=kpset, units=units, rank2=False)))
        jobs.append(('piw', dict(nk=nk, kpset=kpset, units=units, rank2=True, in_cols=units)))
        jobs.append(('piw', dict(nk=nk, kpset=kpset, units=units, rank2=True, in_cols=1)))
        for cyclic in (False, True):
          if cyclic and nk < 3:
            continue
          for split in ((False, True) if units > 1 else (False,)):
            for in_cols in sorted({1, units}):
              for missing in (None, 'tensor', 'value', 'tensor_fixed', 'value_fixed'):
                if tier == 'quick' and missing and (kpset == 1 or (split and cyclic)):
                  continue
                cfg = dict(nk=nk, kpset=kpset, units=units, cyclic=cyclic, split=split,
                           in_cols=in_cols, missing=missing, batch=1 if units > 1 else 2)
                jobs.append(('pwl_call', cfg))
          if not cyclic and nk in (2, 3):
            # a layer with a missing_input_value that is also given is_missing flags (the flags decide); the sentinel
            # lies inside the keypoint range so that flagged and sentinel-valued inputs are different points
            kps_ = KEYPOINTS[nk][kpset]
            for in_cols in sorted({1, units}):
              for mm in ('both', 'both_fixed'):
                jobs.append(('pwl_call', dict(nk=nk, kpset=kpset, units=units, cyclic=False, split=False, in_cols=in_cols,
                                              missing=mm, miss_in=float(kps_[0] + kps_[1]) / 2.0,
                                              batch=1 if units > 1 else 2)))
          if not cyclic and nk == 3:
            # falsy zeros as missing input / output values
            for in_cols in sorted({1, units}):
              jobs.append(('pwl_call', dict(nk=nk, kpset=kpset, units=units, cyclic=False, split=False, in_cols=in_cols,
                                            missing='value_fixed', miss_in=0.0, miss_out=0.0, batch=1 if units > 1 else 2)))
              jobs.append(('pwl_call', dict(nk=nk, kpset=kpset, units=units, cyclic=False, split=False, in_cols=in_cols,
                                            missing='value', miss_in=0.0, batch=1 if units > 1 else 2)))
          jobs.append(('kpo', dict(nk=nk, kpset=kpset, units=units, cyclic=cyclic)))
          jobs.append(('kpi', dict(nk=nk, kpset=kpset, units=units, cyclic=cyclic)))
      for d in (1, -1):
        jobs.append(('lemma', dict(lemma='monotone', nk=nk, kpset=kpset, direction=d)))
      jobs.append(('lemma', dict(lemma='bounded', nk=nk, kpset=kpset)))
      if nk >= 3:
        for units in (1, 2):
          jobs.append(('lemma', dict(lemma='learned-keypoints', nk=nk, kpset=kpset, units=units)))
          for in_cols in sorted({1, units}):
            jobs.append(('lemma', dict(lemma='learned-call', nk=nk, kpset=kpset, units=units, in_cols=in_cols)))
            if kpset == 0:
              jobs.append(('lemma', dict(lemma='learned-call', nk=nk, kpset=kpset, units=units, in_cols=in_cols, cyclic=True)))
              jobs.append(('lemma', dict(lemma='learned-call', nk=nk, kpset=kpset, units=units, in_cols=in_cols, missing=True,
                                         split=units > 1)))
    jobs.append(('lemma', dict(lemma='hat-form', nk=nk)))
    for d in (1, -1):
      jobs.append(('lemma', dict(lemma='hat-form-monotone', nk=nk, direction=d)))
  for nb in ((2, 3) if tier == 'quick' else (2, 3, 5)):
    for units in (1, 2):
      for split in ((False, True) if units > 1 else (False,)):
        for default in (None, -1, 7, 0):   # 0: a falsy default value must still be replaced
          for in_cols in sorted({1, units}):
            ids = list(range(nb)) + ([default] if default is not None else [])
            x = [[ids[(r + cidx) % len(ids)] for cidx in range(in_cols)] for r in range(len(ids))]
            for int_input in (True, False):
              xx = x if int_input else [[float(v) for v in row] for row in x]
              jobs.append(('cat_call', dict(buckets=nb, units=units, split=split, default=default,
                                            in_cols=in_cols, ids=xx, int_input=int_input)))
  out, seen = [], set()
  for j in jobs:
    key = json.dumps(j, sort_keys=True)
    if key not in seen:
      seen.add(key)
      out.append(j)
  return out


EVIDENCE = {
    'level': 'proof',
    'explanation': (
        'PWLCalibration.call / keypoints_inputs / keypoints_outputs, pwl_calibration_lib.compute_interpolation_weights and '
        'CategoricalCalibration.call run (real bodies, Keras stub) on symbolic kernels, missing outputs and inputs. On every '
        'closed segment of the input axis (and the two constant half-lines) the output is proved equal to the piecewise-'
        'linear interpolation through (keypoint_i, cumulative kernel sum_i) written from the property text - exact normal '
        'form, z3/cvc5 behind it; missing flags / values, cyclic closing, per-unit broadcast and split outputs are separate '
        'configurations. Categorical ids are enumerated (concrete), the kernel is symbolic. Monotone / bounded '
        'consequences and the ordering of learned interior keypoints (from the softmax axioms) are lemmas.'),
    'rule': 'one obligation = (function, configuration, segment / flag, output element)',
    'bounds': 'keypoints 2-4 (quick) / 2-5 (thorough), two concrete keypoint vectors each (uniform and non-uniform), units <= 2, '
              'batch <= 2; categorical buckets <= 3/5 with every id and the default value',
    'exhaustive_tiers': {'quick': False, 'thorough': False},
    'trusted_base': ['vt operator contracts (cross-checked against TensorFlow each run)', 'Keras stub',
                     'softmax axioms (entries > 0, sum 1)', 'z3 and cvc5'],
    'assumptions': ['float arithmetic treated as exact real arithmetic',
                    'input keypoints are concrete per configuration (positive spacing, uniform and non-uniform)'],
}

if __name__ == '__main__':
  import sys
  from vt import prop
  sys.exit(prop.main(sys.modules[__name__]))
