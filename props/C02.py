"""C02 - Lattice output is exact hypercube / simplex interpolation, inheriting kernel shape.

Real functions under contract: lattice_lib.compute_interpolation_weights, batch_outer_operation,
evaluate_with_hypercube_interpolation, evaluate_with_simplex_interpolation, Lattice.call.
Each postcondition is stated region by region (closed cells plus the two clipped half-lines per
dimension); inside a region the real output and the spec are polynomials and are compared by
exact normal form, with z3/cvc5 behind it.
"""
import itertools
import json
from fractions import Fraction as Fr

import numpy as np

from vt import ctx as C
from vt import expr as E
from vt import harness as H
from vt import kerasc
from vt import load
from vt import tfc
from vt.expr import P, B
from vt.prop import Case
from spec import interp as SI
from spec import lattice as SL

PROPERTY = 'C02'


def _rows(inputs, rank):
  """Yields (batch index tuple, [coordinate P per lattice dim]) for tensor or list inputs."""
  if isinstance(inputs, list):
    a0 = inputs[0].a
    for idx in np.ndindex(*a0.shape[:-1]):
      yield idx, [P.lift(t.a[idx + (0,)]) for t in inputs]
  else:
    a = inputs.a
    for idx in np.ndindex(*a.shape[:-1]):
      yield idx, [P.lift(a[idx + (d,)]) for d in range(rank)]


def _names(xs):
  out = []
  for x in xs:
    (m, c), = x.t.items()
    out.append(E.ATOMS[m[0][0]].name)
  return out


def _region_clause(name, region_formula, R, pairs):
  """pairs: list of (label, got, want). Closed by normal form on the region when possible."""
  open_ = []
  for label, got, want in pairs:
    d = R.simplify(P.lift(got) - P.lift(want))
    if not (d.is_const and d.cval == 0):
      open_.append((label, got, want))
  if not open_:
    return [(name, E.TRUE)]
  return [('%s:%s' % (name, label), region_formula.implies(P.lift(got).eq(P.lift(want))))
          for label, got, want in open_]


def _fresh_sym(shape, prefix):
  return tfc.sym(shape, E.fresh_name(prefix))


@H.register
class BatchOuter(H.Contract):
  """out[..., flat(i_1..i_k)] == op_j t_j[..., i_j] (row-major), op = product for 'auto'."""
  module = 'lattice_lib'
  qualname = 'batch_outer_operation'

  def fresh_out(self, list_of_tensors, operation='auto'):
    lead = list_of_tensors[0].a.shape[:-1]
    n = int(np.prod([t.a.shape[-1] for t in list_of_tensors]))
    return _fresh_sym(lead + (n,), 'boo')

  def post(self, out, list_of_tensors, operation='auto'):
    ks = [t.a.shape[-1] for t in list_of_tensors]
    lead = list_of_tensors[0].a.shape[:-1]
    n = int(np.prod(ks))
    cl = [('shape', B.const(tuple(out.a.shape) == tuple(lead) + (n,)))]
    if tuple(out.a.shape) != tuple(lead) + (n,):
      return cl
    add = operation is not None and operation != 'auto' and getattr(operation, '__name__', '') == 'add'
    bad = []
    for b in np.ndindex(*lead):
      for idx in itertools.product(*[range(k) for k in ks]):
        want = P.const(0 if add else 1)
        for t, i in zip(list_of_tensors, idx):
          want = (want + t.a[b + (i,)]) if add else (want * t.a[b + (i,)])
        got = P.lift(out.a[b + (SL.flat(ks, idx),)])
        if not (got - want).same(0):
          bad.append(('outer%s%s' % (list(b), list(idx)), got.eq(want)))
    return cl + (bad or [('outer-structure', E.TRUE)])


@H.register
class InterpolationWeights(H.Contract):
  module = 'lattice_lib'
  qualname = 'compute_interpolation_weights'

  def fresh_out(self, inputs, lattice_sizes, clip_inputs=True):
    lead = (inputs[0] if isinstance(inputs, list) else inputs).a.shape[:-1]
    return _fresh_sym(lead + (int(np.prod(lattice_sizes)),), 'ciw')

  def post(self, out, inputs, lattice_sizes, clip_inputs=True):
    sizes = list(lattice_sizes)
    n = int(np.prod(sizes))
    lead = (inputs[0] if isinstance(inputs, list) else inputs).a.shape[:-1]
    cl = [('shape', B.const(tuple(out.a.shape) == tuple(lead) + (n,)))]
    if tuple(out.a.shape) != tuple(lead) + (n,):
      return cl
    for b, xs in _rows(inputs, len(sizes)):
      names = _names(xs)
      for region in SI.regions(sizes, clip_inputs):
        R = E.Region(SI.region_bounds(sizes, region, names))
        hat = SI.hat_weights(sizes, region, xs)
        pairs = [('w[%d]' % v, out.a[b + (v,)], hat[v]) for v in range(n)]
        cl += _region_clause('weights%s@%s' % (list(b), list(region)), R.formula(), R, pairs)
    return cl


def _kernel_col(kernel, u):
  return [kernel.a[i, u] for i in range(kernel.a.shape[0])]


def _out_index(b, u, units, out):
  """Output element for batch index b and unit u (units == 1: trailing dim 1)."""
  return out.a[b + (0,)] if units == 1 else out.a[b]


@H.register
class Hypercube(H.Contract):
  module = 'lattice_lib'
  qualname = 'evaluate_with_hypercube_interpolation'

  def fresh_out(self, inputs, kernel, units, lattice_sizes, clip_inputs):
    lead = (inputs[0] if isinstance(inputs, list) else inputs).a.shape[:-1]
    return _fresh_sym(lead + ((1,) if units == 1 else ()), 'hyp')

  def post(self, out, inputs, kernel, units, lattice_sizes, clip_inputs):
    sizes = list(lattice_sizes)
    lead = (inputs[0] if isinstance(inputs, list) else inputs).a.shape[:-1]
    want_shape = tuple(lead) + ((1,) if units == 1 else ())
    cl = [('shape', B.const(tuple(out.a.shape) == want_shape))]
    if tuple(out.a.shape) != want_shape:
      return cl
    for b, xs in _rows(inputs, len(sizes)):
      names = _names(xs)
      u = 0 if units == 1 else b[-1]
      col = _kernel_col(kernel, u)
      for region in SI.regions(sizes, clip_inputs):
        R = E.Region(SI.region_bounds(sizes, region, names))
        want = SI.multilinear(sizes, region, xs, col)
        cl += _region_clause('multilinear%s@%s' % (list(b), list(region)), R.formula(), R,
                             [('out', _out_index(b, u, units, out), want)])
    return cl


@H.register
class Simplex(H.Contract):
  module = 'lattice_lib'
  qualname = 'evaluate_with_simplex_interpolation'

  def fresh_out(self, inputs, kernel, units, lattice_sizes, clip_inputs):
    lead = (inputs[0] if isinstance(inputs, list) else inputs).a.shape[:-1]
    return _fresh_sym(lead + ((1,) if units == 1 else ()), 'spx')

  def post(self, out, inputs, kernel, units, lattice_sizes, clip_inputs):
    sizes = list(lattice_sizes)
    lead = (inputs[0] if isinstance(inputs, list) else inputs).a.shape[:-1]
    want_shape = tuple(lead) + ((1,) if units == 1 else ())
    cl = [('shape', B.const(tuple(out.a.shape) == want_shape))]
    if tuple(out.a.shape) != want_shape:
      return cl
    g = getattr(C.cur(), 'ghost', None) or {}
    only_region = g.get('region')
    for b, xs in _rows(inputs, len(sizes)):
      names = _names(xs)
      u = 0 if units == 1 else b[-1]
      col = _kernel_col(kernel, u)
      for region in SI.regions(sizes, clip_inputs):
        if only_region is not None and list(region) != list(only_region):
          continue
        R = E.Region(SI.region_bounds(sizes, region, names))
        for perm in itertools.permutations(range(len(sizes))):
          hyp = R.formula() & SI.ordering_formula(sizes, region, xs, perm)
          want = SI.simplex(sizes, region, xs, col, perm)
          got = _out_index(b, u, units, out)
          d = R.simplify(P.lift(got) - want)
          nm = 'simplex%s@%s/%s' % (list(b), list(region), list(perm))
          if d.is_const and d.cval == 0:
            cl.append((nm, E.TRUE))
          else:
            cl.append((nm, hyp.implies(P.lift(got).eq(want))))
    return cl


@H.register
class LatticeCall(H.Contract):
  module = 'lattice_layer'
  qualname = 'Lattice.call'
  inline = True

  def fresh_out(self, this, inputs):
    return (Simplex if this.interpolation == 'simplex' else Hypercube)().fresh_out(
        inputs, this.kernel, this.units, this.lattice_sizes, this.clip_inputs)

  def post(self, out, this, inputs):
    ct = Simplex() if this.interpolation == 'simplex' else Hypercube()
    return ct.post(out, inputs, this.kernel, this.units, this.lattice_sizes, this.clip_inputs)


# ------------------------------------------------------------------------------ cases

def _inputs(cfg, prefix='x'):
  rank = len(cfg['sizes'])
  lead = [cfg.get('batch', 1)] + list(cfg.get('extra', [])) + ([cfg['units']] if cfg['units'] > 1 else [])
  if cfg.get('as_list'):
    return [tfc.sym(lead + [1], '%s%d' % (prefix, d)) for d in range(rank)]
  return tfc.sym(lead + [rank], prefix)


def _assume_region(cfg, inputs):
  """Restricts every input row to one region (used where a path oracle needs bounded inputs)."""
  region = cfg.get('region')
  if region is None:
    return
  rng = getattr(C.cur(), 'concrete_rng', None)
  if rng is not None:
    return
  sizes = cfg['sizes']
  for b, xs in _rows(inputs, len(sizes)):
    R = E.Region(SI.region_bounds(sizes, region, _names(xs)))
    C.cur().assume(R.formula(), 'region %s' % (list(region),))


class BooCase(Case):
  contract_key = 'lattice_lib.batch_outer_operation'
  public = False
  lift_case = 'hyper'

  def build(self, cfg):
    ts = [tfc.sym([cfg.get('batch', 1), k], 't%d' % i) for i, k in enumerate(cfg['ks'])]
    return (ts,), dict(operation='auto')


class CiwCase(Case):
  contract_key = 'lattice_lib.compute_interpolation_weights'

  def build(self, cfg):
    return (_inputs(cfg), list(cfg['sizes'])), dict(clip_inputs=cfg['clip'])


class HyperCase(Case):
  contract_key = 'lattice_lib.evaluate_with_hypercube_interpolation'

  def build(self, cfg):
    n = int(np.prod(cfg['sizes']))
    return (_inputs(cfg), tfc.sym([n, cfg['units']], 'K'), cfg['units'], list(cfg['sizes']),
            cfg['clip']), {}


class SimplexCase(Case):
  contract_key = 'lattice_lib.evaluate_with_simplex_interpolation'

  def setup(self, cfg, c):
    c.int_cast_range = (0, max(cfg['sizes']) - 1)
    c.ghost = {'region': cfg.get('region')}

  def concrete_inputs(self, cfg, rng):
    return None

  def build(self, cfg):
    n = int(np.prod(cfg['sizes']))
    x = _inputs(cfg)
    rng = getattr(C.cur(), 'concrete_rng', None)
    if rng is not None:
      # cross-check mode: points inside the lattice range (float->int truncation for x >= 0)
      def inside(t):
        a = t.a.copy()
        rank = len(cfg['sizes'])
        for idx in np.ndindex(*a.shape):
          d = idx[-1] if not cfg.get('as_list') else None
          a[idx] = P.const(Fr(rng.randint(0, 8), 8) * (1 if cfg['clip'] else 1))
        return tfc.Tensor(a, t.dtype)
      if isinstance(x, list):
        x = [tfc.Tensor(np.frompyfunc(lambda _: P.const(Fr(rng.randint(0, 4 * (cfg['sizes'][d] - 1)), 4)), 1, 1)(t.a), t.dtype)
             for d, t in enumerate(x)]
      else:
        a = x.a.copy()
        for idx in np.ndindex(*a.shape):
          a[idx] = P.const(Fr(rng.randint(0, 4 * (cfg['sizes'][idx[-1]] - 1)), 4))
        x = tfc.Tensor(a, x.dtype)
    else:
      _assume_region(cfg, x)
    return (x, tfc.sym([n, cfg['units']], 'K'), cfg['units'], list(cfg['sizes']), cfg['clip']), {}


class LayerCallCase(Case):
  contract_key = 'lattice_layer.Lattice.call'

  def setup(self, cfg, c):
    c.int_cast_range = (0, max(cfg['sizes']) - 1)
    c.ghost = {'region': cfg.get('region')}

  def build(self, cfg):
    ly = load.mod('lattice_layer')
    n = int(np.prod(cfg['sizes']))
    K = tfc.sym([n, cfg['units']], 'K')
    kw = dict(lattice_sizes=list(cfg['sizes']), units=cfg['units'], clip_inputs=cfg['clip'],
              interpolation=cfg['interp'])
    kerasc.WEIGHT_PROVIDER[0] = lambda layer, name, shape, dt, init, cons: K
    try:
      layer = ly.Lattice(**kw)
      rank = len(cfg['sizes'])
      shp = [None] + ([cfg['units']] if cfg['units'] > 1 else []) + [rank]
      layer.build([tfc.TensorShape(shp[:-1] + [1])] * rank if cfg.get('as_list') else tfc.TensorShape(shp))
    finally:
      kerasc.WEIGHT_PROVIDER[0] = None
    x = _inputs(cfg)
    if cfg['interp'] == 'simplex':
      rng = getattr(C.cur(), 'concrete_rng', None)
      if rng is not None:
        a = x.a.copy()
        for idx in np.ndindex(*a.shape):
          a[idx] = P.const(Fr(rng.randint(0, 4 * (cfg['sizes'][idx[-1]] - 1)), 4))
        x = tfc.Tensor(a, x.dtype)
      else:
        _assume_region(cfg, x)
    layer._vt_native = {'kind': 'layer', 'module': 'lattice_layer', 'cls': 'Lattice', 'init': kw,
                        'weights': {'kernel': K}, 'build_shape': [[None] + shp[1:-1] + [1]] * rank if cfg.get('as_list') else shp}
    return (layer, x), {}


class LemmaCase(Case):
  """Consequences the property lists, proved over the spec functions (and, for vertices and
  edges, by running the real functions on the special points)."""
  contract_key = None
  xcheck = False

  def setup(self, cfg, c):
    c.int_cast_range = (0, max(cfg['sizes']) - 1)

  def body(self, cfg, c):
    ll = load.mod('lattice_lib')
    sizes = list(cfg['sizes'])
    rank = len(sizes)
    n = int(np.prod(sizes))
    K = tfc.sym([n, 1], 'K')
    col = _kernel_col(K, 0)
    kind = cfg['lemma']
    cl = []
    if kind == 'vertices':
      # both real evaluation functions reproduce the vertex weight at every vertex
      for v in SL.vertices(sizes):
        x = tfc.convert_to_tensor([[float(i) for i in v]], dtype=tfc.float32)
        for nm, f in (('hypercube', ll.evaluate_with_hypercube_interpolation),
                      ('simplex', ll.evaluate_with_simplex_interpolation)):
          out = f(x, K, 1, sizes, True)
          cl.append(('vertex-reproduction:%s%s' % (nm, list(v)),
                     P.lift(out.a[0, 0]).eq(P.lift(col[SL.flat(sizes, v)]))))
    elif kind == 'edges':
      # the two schemes agree on axis-parallel edges: x = v + t e_d, 0 <= t <= 1
      t = P.var('t')
      c.assume((t >= 0) & (t <= 1), 'edge parameter')
      for v in SL.vertices(sizes):
        for d in range(rank):
          if v[d] + 1 >= sizes[d]:
            continue
          region = tuple(v[e] if v[e] < sizes[e] - 1 else v[e] - 1 for e in range(rank))
          xs = [P.const(v[e]) + (t if e == d else 0) for e in range(rank)]
          for perm in itertools.permutations(range(rank)):
            a = SI.multilinear(sizes, region, xs, col)
            b = SI.simplex(sizes, region, xs, col, perm)
            hyp = SI.ordering_formula(sizes, region, xs, perm)
            cl.append(('schemes-agree-on-edge%s+t*e%d/%s' % (list(v), d, list(perm)),
                       hyp.implies(a.eq(b))))
    elif kind == 'convex':
      # weights >= 0 and sum to one in every region (clipped or in range)
      x = [P.var('x%d' % d) for d in range(rank)]
      for region in SI.regions(sizes, True):
        R = E.Region(SI.region_bounds(sizes, region, ['x%d' % d for d in range(rank)]))
        hat = SI.hat_weights(sizes, region, x)
        tot = P.const(0)
        for v, w in hat.items():
          tot = tot + w
          t_ = R.truth(w >= 0)
          cl.append(('weight>=0[%d]@%s' % (v, list(region)),
                     E.TRUE if t_ is True else R.formula().implies(w >= 0)))
        cl.append(('weights-sum-to-one@%s' % (list(region),), tot.eq(1)))
    elif kind == 'bounds':
      # convex combination => min K <= f <= max K  (weights opaque: w >= 0, sum w = 1)
      m = cfg['n']
      ws = [P.var('w%d' % i) for i in range(m)]
      ks = [P.var('k%d' % i) for i in range(m)]
      for w in ws:
        c.assume(w >= 0, 'w>=0')
      c.assume(sum(ws, P.const(0)).eq(1), 'sum w = 1')
      f = sum((w * k for w, k in zip(ws, ks)), P.const(0))
      cl.append(('combination<=max', f <= E.pmax(*ks)))
      cl.append(('combination>=min', f >= E.pmin(*ks)))
    elif kind in ('monotone-hypercube', 'monotone-simplex'):
      # kernel non-decreasing along dim d  =>  output non-decreasing in x_d inside every cell;
      # cells share their faces, so this extends to all pairs of points (incl. clipped ones).
      monos = cfg['monos']
      for nm, b in SL.mono(K, sizes, monos):
        c.assume(b, 'kernel ' + nm)
      x = [P.var('x%d' % d) for d in range(rank)]
      for d in range(rank):
        if not monos[d]:
          continue
        y = list(x)
        y[d] = P.var('y%d' % d)
        for region in SI.regions(sizes, False):
          R = E.Region(SI.region_bounds(sizes, region, ['x%d' % e for e in range(rank)]))
          hyp = R.formula() & (y[d] >= x[d]) & (y[d] <= region[d] + 1)
          if kind == 'monotone-hypercube':
            fx = SI.multilinear(sizes, region, x, col)
            fy = SI.multilinear(sizes, region, y, col)
            if rank >= 4:
              # staged route (the direct nonlinear goal times out for 16 corners): f is affine in x_d,
              #   f(y) - f(x) == (y_d - x_d) * sum_c w_c(x) * (K[c, d up] - K[c, d down]),
              # w_c a product of factors in [0, 1] and every kernel difference >= 0
              from vt import lemmas as LM
              base, t = SI.base_and_frac(sizes, region, x)
              others = [e for e in range(rank) if e != d]
              D = P.const(0)
              terms = []
              for corner in itertools.product([0, 1], repeat=len(others)):
                w = P.const(1)
                v_lo = list(base)
                for e, cbit in zip(others, corner):
                  fac = t[e] if cbit else (1 - t[e])
                  LM.nonneg_product(w, fac)
                  w = w * fac
                  v_lo[e] = base[e] + cbit
                v_hi = list(v_lo)
                v_hi[d] = base[d] + 1
                dk = P.lift(col[SI.flat(sizes, v_hi)]) - P.lift(col[SI.flat(sizes, v_lo)])
                LM.nonneg_product(w, dk)
                terms.append(w * dk)
                D = D + w * dk
              delta = P.lift(y[d]) - P.lift(x[d])
              if (fy - fx).same(delta * D):
                for k, term in enumerate(terms):
                  cl.append(('have:corner-term>=0[d%d,%d]@%s' % (d, k, list(region)), hyp.implies(term >= 0)))
                  LM.nonneg_product(delta, term)
            cl.append(('monotone[d%d]@%s' % (d, list(region)), hyp.implies(fx <= fy)))
          else:
            for perm in itertools.permutations(range(rank)):
              h2 = hyp & SI.ordering_formula(sizes, region, x, perm) & SI.ordering_formula(sizes, region, y, perm)
              fx = SI.simplex(sizes, region, x, col, perm)
              fy = SI.simplex(sizes, region, y, col, perm)
              cl.append(('monotone[d%d]@%s/%s' % (d, list(region), list(perm)), h2.implies(fx <= fy)))
    elif kind == 'edgeworth':
      main, cond, direction = cfg['trust']
      for nm, b in SL.edgeworth(K, sizes, [(main, cond, direction)]):
        c.assume(b, 'kernel ' + nm)
      x = [P.var('x%d' % d) for d in range(rank)]
      for region in SI.regions(sizes, False):
        R = E.Region(SI.region_bounds(sizes, region, ['x%d' % e for e in range(rank)]))
        xm = list(x)
        xm[main] = P.var('xm')
        xc = list(x)
        xc[cond] = P.var('xc')
        xmc = list(xm)
        xmc[cond] = P.var('xc')
        hyp = (R.formula() & (xm[main] >= x[main]) & (xm[main] <= region[main] + 1) &
               (xc[cond] >= x[cond]) & (xc[cond] <= region[cond] + 1))
        f = lambda pt: SI.multilinear(sizes, region, pt, col)
        eff_lo = f(xm) - f(x)
        eff_hi = f(xmc) - f(xc)
        cl.append(('main-effect-monotone-in-cond@%s' % (list(region),),
                   hyp.implies((eff_hi - eff_lo) * direction >= 0)))
    return cl


_FLOAT_CORNER_SCRIPT = """
import itertools
import numpy as np
ly = mod('lattice_layer')
out = []
for case in args[0]:
  sizes, units = case['sizes'], case['units']
  n = int(np.prod(sizes))
  kernel = np.resize(np.asarray(case['kernel'], dtype='float32'), (n, units))
  for interp in ('hypercube', 'simplex'):
    layer = ly.Lattice(lattice_sizes=sizes, units=units, interpolation=interp)
    shape = [None, len(sizes)] if units == 1 else [None, units, len(sizes)]
    layer.build(shape)
    layer.kernel.assign(kernel)
    verts = list(itertools.product(*[range(s) for s in sizes]))
    pts = np.array(verts, dtype='float32')
    x = pts if units == 1 else np.repeat(pts[:, None, :], units, axis=1)
    got = np.asarray(layer(tf.constant(x))).reshape(len(verts), units)
    want = kernel    # vertex k of the row-major enumeration is kernel row k
    bad = []
    for k, v in enumerate(verts):
      for u in range(units):
        g, w = float(got[k, u]), float(want[k, u])
        if not (g == w or abs(g - w) <= 1e-6 * abs(w)):
          bad.append({'vertex': list(v), 'unit': u, 'got': g, 'want': w})
    rs = np.random.RandomState(3)
    p = rs.uniform(-0.5, np.array(sizes) - 0.5, size=(16, len(sizes))).astype('float32')
    xr = p if units == 1 else np.repeat(p[:, None, :], units, axis=1)
    r = np.asarray(layer(tf.constant(xr))).reshape(16, units)
    lo, hi = kernel.min(axis=0), kernel.max(axis=0)
    slack = 1e-6 * np.maximum(np.abs(lo), np.abs(hi))
    outside = bool(np.isnan(r).any() or (r < lo - slack).any() or (r > hi + slack).any())
    out.append({'interp': interp, 'bad': bad[:3], 'outside': outside})
result = out
"""

_FLOAT_CORNERS = [
    dict(name='ordinary kernel', sizes=[2, 2], units=1, kernel=[0.5, -1.0, 2.0, 0.25]),
    dict(name='entries of very different magnitude', sizes=[2, 2], units=1, kernel=[1e8, 3.0, 2.0, 0.5]),
    dict(name='large entries of opposite sign', sizes=[2, 3], units=2, kernel=[3e38, -3e38, 1.0, -2.0, 3e38, 0.5, -3e38, 7.0]),
    dict(name='mixed magnitudes, rank 3', sizes=[2, 2, 2], units=1, kernel=[1e-8, 1e7, -3.0, 2e6, 0.5, -1e7, 4.0, 1.0]),
]


class FloatCornerCase(Case):
  """BOUNDED stand-in for float32 corners the exact-real contracts cannot see (an algebraically equal rewrite may be
  numerically unstable): real Lattice layers with kernels whose entries differ by many orders of magnitude reproduce the
  vertex weights at the vertices and stay within [min kernel, max kernel], for both interpolation schemes."""
  contract_key = None
  xcheck = False

  def replay_desc(self, cfg, model, g):
    return {'kind': 'script', 'code': _FLOAT_CORNER_SCRIPT, 'floatx': 'float32', 'args': [_FLOAT_CORNERS], 'kwargs': {}}

  def replay_eval(self, cfg, model, g, desc, nat):
    if 'error' in nat:
      failing = ['native run raised ' + nat['error'][:200]]
    else:
      failing = ['%s: %s' % (r['interp'], r['bad'] or 'output outside [min, max] or nan') for r in nat.get('ok') or []
                 if r['bad'] or r['outside']]
    return {'desc': {'kind': 'real Lattice layers on float32 corner kernels', 'cases': _FLOAT_CORNERS},
            'native': {k: v for k, v in nat.items() if k != 'trace'}, 'failing': failing}

  def body(self, cfg, c):
    from vt import prop
    res = prop.run_native([{'kind': 'script', 'code': _FLOAT_CORNER_SCRIPT, 'floatx': 'float32', 'args': [_FLOAT_CORNERS],
                            'kwargs': {}}])[0]
    if 'error' in res:
      raise RuntimeError('native float-corner runner: ' + res['error'] + res.get('trace', '')[-600:])
    cl = []
    it = iter(res['ok'])
    for case in _FLOAT_CORNERS:
      for interp in ('hypercube', 'simplex'):
        r = next(it)
        d = '' if not r['bad'] else ': vertex %s unit %s gives %s, weight %s' % (r['bad'][0]['vertex'], r['bad'][0]['unit'],
                                                                               r['bad'][0]['got'], r['bad'][0]['want'])
        cl.append(('native:vertex-weights-reproduced[%s,%s]%s' % (case['name'], interp, d), B.const(not r['bad'])))
        cl.append(('native:output-within-kernel-range[%s,%s]' % (case['name'], interp), B.const(not r['outside'])))
    return cl


CASES = {'float_corner': FloatCornerCase(), 'boo': BooCase(), 'ciw': CiwCase(), 'hyper': HyperCase(), 'simplex': SimplexCase(),
         'layer_call': LayerCallCase(), 'lemma': LemmaCase()}


def configs(tier, rng):
  jobs = []
  jobs.append(('float_corner', {}))
  shapes = [[2], [3], [2, 2], [2, 3], [3, 2], [2, 2, 2], [2, 3, 2], [3, 3], [2, 2, 3]]
  if tier == 'thorough':
    shapes += [[4], [3, 2, 2], [3, 3, 2], [2, 2, 2, 2], [4, 2], [2, 4, 2]]
  for ks in ([2, 2], [2, 3], [3, 2, 2], [2, 3, 4], [2, 2, 2, 2], [2] * 8, [2] * 9, [3, 2, 2, 2, 2, 2, 2, 3]):
    if tier == 'quick' and len(ks) == 9:
      continue
    jobs.append(('boo', dict(ks=ks, batch=1)))
  for i, sizes in enumerate(shapes):
    rank = len(sizes)
    for clip in (True, False):
      for units in (1, 2):
        for as_list in (False, True):
          if tier == 'quick' and (units == 2 and as_list and rank > 2):
            continue
          base = dict(sizes=sizes, clip=clip, units=units, as_list=as_list)
          jobs.append(('ciw', base))
          jobs.append(('hyper', base))
          jobs.append(('layer_call', dict(base, interp='hypercube')))
      # simplex: one job per region (path oracles need bounded inputs)
      for units in (1, 2):
        regs = SI.regions(sizes, True)
        if not clip:
          regs = SI.regions(sizes, False)
        if tier == 'quick' and len(regs) > 12:
          rng.shuffle(regs)
          regs = regs[:12]
        for region in regs:
          cfgs = dict(sizes=sizes, clip=clip, units=units, as_list=False, region=list(region))
          jobs.append(('simplex', cfgs))
        jobs.append(('layer_call', dict(sizes=sizes, clip=True, units=units, as_list=False, interp='simplex',
                                        region=list(SI.regions(sizes, False)[-1]))))
    jobs.append(('hyper', dict(sizes=sizes, clip=True, units=1, as_list=False, batch=2, extra=[2] if rank <= 2 else [])))
    jobs.append(('lemma', dict(lemma='vertices', sizes=sizes)))
    jobs.append(('lemma', dict(lemma='edges', sizes=sizes)))
    jobs.append(('lemma', dict(lemma='convex', sizes=sizes)))
    for monos in itertools.product([0, 1], repeat=rank):
      if any(monos) and (rank <= 2 or sum(monos) == 1 or tier == 'thorough'):
        jobs.append(('lemma', dict(lemma='monotone-hypercube', sizes=sizes, monos=list(monos))))
        if rank <= 2 or tier == 'thorough':
          jobs.append(('lemma', dict(lemma='monotone-simplex', sizes=sizes, monos=list(monos))))
    if rank == 2:
      for direction in (1, -1):
        jobs.append(('lemma', dict(lemma='edgeworth', sizes=sizes, trust=[0, 1, direction])))
  for n in (2, 4, 6, 8):
    jobs.append(('lemma', dict(lemma='bounds', sizes=[2], n=n)))
  out, seen = [], set()
  for j in jobs:
    key = json.dumps(j, sort_keys=True)
    if key not in seen:
      seen.add(key)
      out.append(j)
  return out


EVIDENCE = {
    'level': 'proof',
    'explanation': (
        'The real interpolation functions are executed on symbolic inputs and kernels; on each closed region (cell or '
        'clipped half-line per dimension; for simplex additionally each ordering of the residuals and each outcome of the '
        'float->int cast) the output is a polynomial that is proved equal to the multilinear / sorted-simplex formula '
        'written from the property text - by exact polynomial normal form, z3/cvc5 behind it. The regions are closed and '
        'cover R^d, so faces, vertices, ties and out-of-range points are included. Consequences (vertex reproduction, '
        'convex weights, bounds, agreement of the two schemes on edges, monotone and Edgeworth kernels) are lemmas.'),
    'rule': ('one obligation = (function, configuration, region[/ordering], output element); distinct by (function, '
             'configuration, clause, path)'),
    'bounds': 'lattice ranks 1-3 sizes <= 3 (quick), rank 4 all-2 and a size-4 dimension (thorough); units <= 2; tensor and '
              'list inputs; batch <= 2 with one extra batch dimension; batch_outer_operation up to 9 factors (matmul branch)',
    'exhaustive_tiers': {'quick': False, 'thorough': False},
    'trusted_base': ['vt operator contracts incl. sort/argsort/cast path oracles (cross-checked against TensorFlow each run)',
                     'Keras stub (Layer.build/add_weight)', 'z3 and cvc5'],
    'assumptions': ['float arithmetic treated as exact real arithmetic',
                    'simplex: float->int cast is truncation; inputs restricted to the lattice range when clip_inputs is off'],
}

if __name__ == '__main__':
  import sys
  from vt import prop
  sys.exit(prop.main(sys.modules[__name__]))
