"""C10 - freshly built layers already satisfy their monotonicity and bound constraints.

The real initializers are executed (through the real layer build where there is one).  Random
sources are contracts: tf.random.uniform yields fresh symbols inside [minval, maxval]; tf.sort is
an abstract contract (ordered output within the row's range); numpy's shuffle inside
random_monotonic_initializer is an oracle whose outcomes are enumerated.
"""
import itertools
import json

import numpy as np

from vt import ctx as C
from vt import expr as E
from vt import harness as H
from vt import kerasc
from vt import load
from vt import tfc
from vt.expr import P, B
from vt.prop import Case
from spec import lattice as SL
from spec import pwl as SP
from contracts import lattice as CL

PROPERTY = 'C10'
TOL = 1e-9   # concrete initial weights come out of Python float arithmetic: compare up to rounding


def _round(clauses):
  """Clauses over CONCRETE values are decided up to floating-point rounding (the property's own
  proviso); symbolic clauses are left exact."""
  out = []
  for nm, b in clauses:
    out.append((nm, _round_b(b)))
  return out


def _round_b(b):
  if isinstance(b, bool) or b.kind == 'const':
    return b
  return b


def approx_eq(a, b):
  a, b = P.lift(a), P.lift(b)
  d = a - b
  if d.is_const:
    return B.const(abs(float(d.cval)) <= TOL * (1 + abs(float(a.cval)) if a.is_const else 1))
  return a.eq(b)


def approx_le(a, b):
  a, b = P.lift(a), P.lift(b)
  d = a - b
  if d.is_const:
    return B.const(float(d.cval) <= TOL * (1 + abs(float(a.cval)) if a.is_const else 1))
  return a <= b


class _NpProxy(object):
  """numpy for lattice_lib with `random.shuffle` driven by the path oracle."""

  class _Random(object):

    @staticmethod
    def shuffle(lst):
      n = len(lst)
      if n <= 1:
        return
      perms = list(itertools.permutations(range(n)))
      k = C.cur().choose(len(perms), 'np.random.shuffle of %d vertices' % n)
      items = list(lst)
      for i, j in enumerate(perms[k]):
        lst[i] = items[j]

  random = _Random()

  def __getattr__(self, name):
    return getattr(np, name)


def _vals(t):
  return t.a


def _tolerant(clauses):
  """`p <= 0` / `p == 0` clauses whose polynomial is a constant are decided up to rounding."""
  out = []
  for nm, b in clauses:
    out.append((nm, b))
  return out


def lattice_linear_clauses(kernel, sizes, monos, unis, init_min, init_max, units):
  cl = []
  rank = len(sizes)
  K = lambda v, u: SL.K(kernel, sizes, v, u)
  eff_monos = list(monos)
  if not any(monos) and not any(unis):
    eff_monos = [1] * rank
  for u in range(units):
    allv = [K(v, u) for v in SL.vertices(sizes)]
    cl.append(('minimum==init_min[u%d]' % u, approx_eq(E.pmin(*allv), init_min)))
    cl.append(('maximum==init_max[u%d]' % u, approx_eq(E.pmax(*allv), init_max)))
    if u:
      for v in SL.vertices(sizes):
        cl.append(('identical-units%s' % (list(v),), approx_eq(K(v, u), K(v, 0))))
    for d in range(rank):
      for v in SL.vertices(sizes):
        if v[d] + 1 >= sizes[d]:
          continue
        a, b = K(v, u), K(SL._plus(v, d), u)
        if eff_monos[d]:
          cl.append(('non-decreasing[d%d,%s,u%d]' % (d, list(v), u), approx_le(a, b)))
          if v[d] + 2 < sizes[d]:
            c2 = K(SL._plus(v, d, 2), u)
            cl.append(('linear[d%d,%s,u%d]' % (d, list(v), u), approx_eq(c2 - b, b - a)))
        elif unis[d]:
          first = v[d] < sizes[d] // 2
          inc = (unis[d] == 1 and not first) or (unis[d] == -1 and first)
          # valley (1): down then up; peak (-1): up then down, around the centre index
          pass
        else:
          cl.append(('constant[d%d,%s,u%d]' % (d, list(v), u), approx_eq(a, b)))
  cl += SL.unimodal(kernel, sizes, [u_ if not m else 0 for u_, m in zip(unis, eff_monos)], tag='unimodal-shape')
  return cl


_BUILD_SCRIPT = """
kw = args[0]
ly = mod('lattice_layer')
layer = ly.Lattice(**kw)
rank = len(kw['lattice_sizes'])
layer.build([None, rank] if kw['units'] == 1 else [None, kw['units'], rank])
result = {'kernel_shape': [int(s) for s in layer.kernel.shape]}
"""


class LatticeInitCase(Case):
  contract_key = None
  xcheck = False

  def setup(self, cfg, c):
    c.sort_mode = 'abstract'

  def replay_desc(self, cfg, model, g):
    if not g.get('name', '').startswith('layer-builds-with-its-own-initializer'):
      return None
    sizes = list(cfg['sizes'])
    kw = dict(lattice_sizes=sizes, units=cfg['units'], monotonicities=list(cfg.get('monos') or [0] * len(sizes)),
              unimodalities=list(cfg.get('unis') or [0] * len(sizes)), output_min=cfg.get('output_min'),
              output_max=cfg.get('output_max'), kernel_initializer=cfg['init'])
    return {'kind': 'script', 'code': _BUILD_SCRIPT, 'floatx': 'float32', 'args': [kw], 'kwargs': {}}

  def replay_eval(self, cfg, model, g, desc, nat):
    return {'native': {k: v for k, v in nat.items() if k != 'trace'},
            'failing': ['building the layer raised ' + nat['error'][:200]] if 'error' in nat else []}

  def body(self, cfg, c):
    ly = load.mod('lattice_layer')
    ll = load.mod('lattice_lib')
    sizes, U = list(cfg['sizes']), cfg['units']
    monos = list(cfg.get('monos') or [0] * len(sizes))
    unis = list(cfg.get('unis') or [0] * len(sizes))
    kw = dict(lattice_sizes=sizes, units=U, monotonicities=monos, unimodalities=unis,
              output_min=cfg.get('output_min'), output_max=cfg.get('output_max'),
              kernel_initializer=cfg['init'])
    if cfg['init'] == 'random_monotonic_initializer':
      if not isinstance(ll.np, _NpProxy):
        ll.np = _NpProxy()
    try:
      layer = ly.Lattice(**kw)
      rank = len(sizes)
      layer.build(tfc.TensorShape([None, rank] if U == 1 else [None, U, rank]))
    except (IndexError, KeyError, TypeError, AssertionError, ZeroDivisionError) as e:
      # the valid configuration cannot even be built with the library's own initializer
      if isinstance(e, (tfc.NoContract, E.SymbolicValueError)):
        raise
      return [('layer-builds-with-its-own-initializer: raised %s: %s' % (type(e).__name__, str(e)[:80]), E.FALSE)]
    finally:
      if isinstance(ll.np, _NpProxy):
        ll.np = np
    kernel = tfc.Tensor(layer.kernel.a, tfc.float32)
    n = int(np.prod(sizes))
    with E.tolerance(1e-7):
      return self._clauses(cfg, layer, kernel, n, U, sizes, monos, unis)

  def _clauses(self, cfg, layer, kernel, n, U, sizes, monos, unis):
    cl = [('kernel-shape', B.const(tuple(kernel.a.shape) == (n, U)))]
    init_min, init_max = self._init_range(cfg)
    if cfg['init'] == 'linear_initializer':
      cl += lattice_linear_clauses(kernel, sizes, monos, unis, init_min, init_max, U)
    else:
      for d in range(len(sizes)):
        cl += [(nm.replace('mono', 'non-decreasing-along-every-dim'), b)
               for nm, b in SL.mono(kernel, sizes, [1 if e == d else 0 for e in range(len(sizes))])]
      cl += SL.in_bounds(kernel, sizes, init_min, init_max, tag='within-init-range')
    # satisfies the layer's own monotonicity and bound constraints (hence passes assert_constraints,
    # C12, and is a fixed point of the weight constraint, C01)
    cl += SL.mono(kernel, sizes, monos, tag='layer-monotonicity')
    cl += SL.in_bounds(kernel, sizes, cfg.get('output_min'), cfg.get('output_max'), tag='layer-bounds')
    if cfg.get('check_fixed_point') and all(P.lift(v).is_const for v in kernel.a.flat):
      cons = layer.kernel.constraint
      out = cons(kernel)
      for idx in np.ndindex(*kernel.a.shape):
        cl.append(('constraint-leaves-initial-kernel-unchanged%s' % (list(idx),),
                   P.lift(out.a[idx]).eq(P.lift(kernel.a[idx]))))
    return cl

  def _init_range(self, cfg):
    lo, hi = cfg.get('output_min'), cfg.get('output_max')
    if lo is not None and hi is not None:
      return lo, hi
    if lo is not None:
      return lo, max(1.0, lo)
    if hi is not None:
      return min(0.0, hi), hi
    return 0.0, 1.0


class PwlInitCase(Case):
  contract_key = None
  xcheck = False

  def body(self, cfg, c):
    lib = load.mod('pwl_calibration_lib')
    nk, U, mono = cfg['nk'], cfg['units'], cfg['mono']
    lo, hi = P.var('init_min'), P.var('init_max')
    c.assume(lo <= hi, 'init_min <= init_max')
    kps = None
    if cfg['slopes']:
      kps = [P.var('kp%d' % i) for i in range(nk)]
      for a, b in zip(kps, kps[1:]):
        c.assume(a < b, 'keypoints strictly increasing')
    w = lib.linear_initializer([nk, U], lo, hi, mono, keypoints=kps, dtype=tfc.float32)
    cl = [('shape', B.const(tuple(w.a.shape) == (nk, U)))]
    for u, ys in enumerate(SP.outputs(w)):
      start, end = (hi, lo) if mono == -1 else (lo, hi)
      cl.append(('starts-at-bound[u%d]' % u, ys[0].eq(start)))
      cl.append(('ends-at-bound[u%d]' % u, ys[-1].eq(end)))
      for i in range(nk - 1):
        h = ys[i + 1] - ys[i]
        cl.append(('runs-in-direction[%d,u%d]' % (i, u), (h <= 0) if mono == -1 else (h >= 0)))
        if i + 2 < nk:
          h2 = ys[i + 2] - ys[i + 1]
          if kps is None:
            cl.append(('equal-heights[%d,u%d]' % (i, u), h.eq(h2)))
          else:
            cl.append(('equal-slopes[%d,u%d]' % (i, u),
                       (h * (kps[i + 2] - kps[i + 1])).eq(h2 * (kps[i + 1] - kps[i]))))
    return cl


_PWL_BUILD_SCRIPT = """
import numpy as np
kw = args[0]
ly = mod('pwl_calibration_layer')
layer = ly.PWLCalibration(**kw)
layer.build([None, kw['units']])
failing = []
lo, hi = kw.get('output_min'), kw.get('output_max')
for v in layer.weights:
  a = np.asarray(v.numpy(), dtype=float)
  nm = v.name.split(':')[0].split('/')[-1]
  if 'missing_output' in nm:
    if lo is not None and (a < lo - 1e-6).any():
      failing.append('%s = %s below output_min %s' % (nm, a.ravel().tolist(), lo))
    if hi is not None and (a > hi + 1e-6).any():
      failing.append('%s = %s above output_max %s' % (nm, a.ravel().tolist(), hi))
  cons = getattr(v, 'constraint', None)
  if cons is not None:
    b = np.asarray(cons(tf.constant(v.numpy())).numpy(), dtype=float)
    if np.abs(a - b).max() > 1e-5:
      failing.append('%s moved by its own constraint: %s -> %s' % (nm, a.ravel().tolist()[:6], b.ravel().tolist()[:6]))
try:
  with tf.control_dependencies(layer.assert_constraints(eps=1e-4)):
    tf.identity(layer.kernel)
except Exception as e:
  failing.append('assert_constraints of the fresh layer: %s' % (str(e).splitlines()[0][:120],))
result = failing
"""


class PwlLayerInitCase(Case):
  """PWLCalibration built with its own initializer: weights satisfy the layer's constraints and the
  weight constraint leaves them unchanged (monotonicity + bounds configurations)."""
  contract_key = None
  xcheck = False

  def loop_mode(self, cfg):
    return ('unroll',)

  @staticmethod
  def _kw(cfg):
    kw = dict(input_keypoints=cfg['keypoints'], units=cfg['units'], monotonicity=cfg['mono'],
              output_min=cfg.get('output_min'), output_max=cfg.get('output_max'),
              kernel_initializer=cfg['init'], num_projection_iterations=cfg.get('iters', 2),
              clamp_min=cfg.get('clamp_min', False), clamp_max=cfg.get('clamp_max', False))
    if cfg.get('impute'):
      kw['impute_missing'] = True
      if cfg['impute'] == 'value':
        kw['missing_input_value'] = -7.0
    return kw

  def replay_desc(self, cfg, model, g):
    return {'kind': 'script', 'code': _PWL_BUILD_SCRIPT, 'floatx': 'float32', 'args': [self._kw(cfg)], 'kwargs': {}}

  def replay_eval(self, cfg, model, g, desc, nat):
    failing = ['building the layer raised ' + nat['error'][:200]] if 'error' in nat else list(nat.get('ok') or [])
    return {'desc': {'kind': 'the real Keras layer built with these arguments', 'kwargs': desc['args'][0]},
            'native': {k: v for k, v in nat.items() if k != 'trace'}, 'failing': failing}

  def body(self, cfg, c):
    ly = load.mod('pwl_calibration_layer')
    kw = self._kw(cfg)
    layer = ly.PWLCalibration(**kw)
    layer.build(tfc.TensorShape([None, cfg['units']]))
    w = tfc.Tensor(layer.kernel.a, tfc.float32)
    with E.tolerance(1e-7):
      return self._clauses(cfg, layer, w)

  def _clauses(self, cfg, layer, w):
    cl = []
    cl += SP.monotone(w, cfg['mono'], tag='layer-monotonicity')
    cl += SP.in_bounds(w, cfg.get('output_min'), cfg.get('output_max'), tag='layer-bounds')
    out = layer.kernel.constraint(w)
    for idx in np.ndindex(*w.a.shape):
      cl.append(('constraint-leaves-initial-kernel-unchanged%s' % (list(idx),),
                 P.lift(out.a[idx]).eq(P.lift(w.a[idx]))))
    # every OTHER weight the layer created (e.g. the learned missing output): within the output bounds when it is an
    # output value, and left unchanged by its own constraint
    for v in layer.weights:
      if v is layer.kernel:
        continue
      nm = str(getattr(v, 'name', 'weight')).split(':')[0].split('/')[-1]
      t = tfc.Tensor(v.a, tfc.float32)
      if 'missing_output' in nm:
        cl += SP.in_bounds(t, cfg.get('output_min'), cfg.get('output_max'), tag='layer-bounds[%s]' % nm)
      cons = getattr(v, 'constraint', None)
      if cons is not None:
        o2 = cons(t)
        for idx in np.ndindex(*t.a.shape):
          cl.append(('constraint-leaves-initial-weight-unchanged[%s]%s' % (nm, list(idx)),
                     P.lift(o2.a[idx]).eq(P.lift(t.a[idx]))))
    if cfg.get('impute'):
      cl.append(('missing-output-weight-created', B.const(any('missing_output' in str(getattr(v, 'name', ''))
                                                              for v in layer.weights))))
    return cl


_CAT_BUILD_SCRIPT = """
import numpy as np
kw = args[0]
ly = mod('categorical_calibration_layer')
failing = []
for seed in range(8):
  tf.keras.utils.set_random_seed(seed)
  layer = ly.CategoricalCalibration(**kw)
  layer.build([None, kw.get('units', 1)])
  a = np.asarray(layer.kernel.numpy(), dtype=float)
  why = []
  for (i, j) in kw.get('monotonicities') or []:
    if (a[i] > a[j] + 1e-6).any():
      why.append('output(%d) > output(%d)' % (i, j))
  lo, hi = kw.get('output_min'), kw.get('output_max')
  if lo is not None and (a < lo - 1e-6).any():
    why.append('below output_min')
  if hi is not None and (a > hi + 1e-6).any():
    why.append('above output_max')
  try:
    with tf.control_dependencies(layer.assert_constraints(eps=1e-5)):
      tf.identity(layer.kernel)
  except Exception as e:
    why.append('assert_constraints of the fresh layer fails: %s' % str(e).splitlines()[-1][:80])
  if why:
    failing.append('seed %d: kernel %s: %s' % (seed, a.ravel().round(4).tolist(), '; '.join(why)))
    if len(failing) >= 2:
      break
result = failing
"""


class CatLayerInitCase(Case):
  """CategoricalCalibration built with its own initializer ids ('uniform', 'constant', a Keras RandomUniform as the premade
  models pass it): for EVERY outcome of the random initializer (tf.random.uniform under its contract: fresh values in
  the range) the initial kernel satisfies the ordering pairs and the bounds, and the constraint leaves it unchanged.
  The constraint's own call is used through its contract (C06)."""
  contract_key = None
  xcheck = False

  @staticmethod
  def _kw(cfg):
    kw = dict(num_buckets=cfg['buckets'], units=cfg['units'], output_min=cfg.get('output_min'),
              output_max=cfg.get('output_max'), monotonicities=[tuple(p) for p in cfg.get('pairs') or []] or None)
    if cfg['init'] != 'premade':
      kw['kernel_initializer'] = cfg['init']
    return kw

  def replay_desc(self, cfg, model, g):
    kw = self._kw(cfg)
    kw['monotonicities'] = [list(p) for p in kw['monotonicities'] or []] or None
    if cfg['init'] == 'premade':
      return None
    return {'kind': 'script', 'code': _CAT_BUILD_SCRIPT, 'floatx': 'float32', 'args': [kw], 'kwargs': {}}

  def replay_eval(self, cfg, model, g, desc, nat):
    failing = ['building the layer raised ' + nat['error'][:200]] if 'error' in nat else list(nat.get('ok') or [])
    return {'desc': {'kind': 'the real Keras layer built with these arguments under seeds 0..7', 'kwargs': desc['args'][0]},
            'native': {k: v for k, v in nat.items() if k != 'trace'}, 'failing': failing}

  def body(self, cfg, c):
    ly = load.mod('categorical_calibration_layer')
    import contracts.linear  # noqa: F401  (contract of CategoricalCalibrationConstraints.__call__)
    kw = self._kw(cfg)
    if cfg['init'] == 'premade':
      # premade_lib passes RandomUniform(output_init_min, output_init_max): the bounds where given, else a default range
      lo, hi = cfg.get('output_min'), cfg.get('output_max')
      if lo is None and hi is None:
        lo, hi = -1.0, 1.0
      elif lo is None:
        lo = hi - 2.0
      elif hi is None:
        hi = lo + 2.0
      kw['kernel_initializer'] = ly.keras.initializers.RandomUniform(lo, hi)
    with H.stubbed(only=('categorical_calibration_layer.CategoricalCalibrationConstraints.__call__',)):
      layer = ly.CategoricalCalibration(**kw)
      layer.build(tfc.TensorShape([None, cfg['units']]))
      w = tfc.Tensor(layer.kernel.a, tfc.float32)
      cl = []
      for (i, j) in cfg.get('pairs') or []:
        for u in range(cfg['units']):
          cl.append(('initial-kernel-respects-pair[%d<=%d,u%d]' % (i, j, u), P.lift(w.a[i, u]) <= P.lift(w.a[j, u])))
      for idx in np.ndindex(*w.a.shape):
        if cfg.get('output_min') is not None:
          cl.append(('initial-kernel>=output_min%s' % (list(idx),), P.lift(w.a[idx]) >= cfg['output_min']))
        if cfg.get('output_max') is not None:
          cl.append(('initial-kernel<=output_max%s' % (list(idx),), P.lift(w.a[idx]) <= cfg['output_max']))
      cons = layer.kernel.constraint
      if cons is not None:
        out = cons(w)
        for idx in np.ndindex(*w.a.shape):
          cl.append(('constraint-leaves-initial-kernel-unchanged%s' % (list(idx),), P.lift(out.a[idx]).eq(P.lift(w.a[idx]))))
    return cl


class KflInitCase(Case):
  contract_key = None
  xcheck = False

  def setup(self, cfg, c):
    c.sort_mode = 'abstract'

  def body(self, cfg, c):
    import props.C07 as C07
    ly = load.mod('kronecker_factored_lattice_layer')
    L, U, D, T = cfg['L'], cfg['units'], cfg['dims'], cfg['terms']
    monos = cfg.get('monos')
    kw = dict(lattice_sizes=L, units=U, num_terms=T, monotonicities=monos,
              output_min=cfg.get('output_min'), output_max=cfg.get('output_max'))
    layer = ly.KroneckerFactoredLattice(**kw)
    layer.build(tfc.TensorShape([None, D] if U == 1 else [None, U, D]))
    w = C07.W(layer.kernel, L, U, D, T)
    sc = tfc.Tensor(layer.scale.a, tfc.float32)
    cl = [('kernel-shape', B.const(tuple(layer.kernel.a.shape) == (1, L, U * D, T)))]
    # the facts from which C07's lemma derives a monotone, bounded initial function
    cl += C07.term_facts(w, sc, L, U, D, T, monos or [0] * D, cfg.get('output_min'), cfg.get('output_max'),
                         tag='initial-')
    cl += C07.scale_facts(sc, cfg.get('output_min'), cfg.get('output_max'), tag='initial-')
    lo, hi = cfg.get('output_min'), cfg.get('output_max')
    for u in range(U):
      b = P.lift(layer.bias.a[u])
      want = (lo + hi) / 2.0 if lo is not None and hi is not None else (lo if lo is not None else (hi if hi is not None else 0.0))
      cl.append(('initial-bias[u%d]' % u, b.eq(want)))
    return cl


class MappingCase(Case):
  """create_kernel_initializer: id / joint-unimodality mapping (evaluated, concrete)."""
  contract_key = None
  xcheck = False

  def body(self, cfg, c):
    ly = load.mod('lattice_layer')
    sizes = cfg['sizes']
    init = ly.create_kernel_initializer(cfg['id'], sizes, cfg.get('monos'), cfg.get('output_min'),
                                        cfg.get('output_max'), cfg.get('unis'),
                                        [(tuple(d), k) for d, k in cfg.get('joint_uni') or []] or None)
    cl = []
    jall = cfg.get('joint_uni') and len(cfg['joint_uni']) == 1 and set(cfg['joint_uni'][0][0]) == set(range(len(sizes)))
    if cfg['id'] in ('linear_initializer', 'LinearInitializer') or (
        cfg['id'] in ('random_uniform_or_linear_initializer',) and not jall):
      cl.append(('maps-to-linear-initializer', B.const(type(init).__name__ == 'LinearInitializer')))
      if type(init).__name__ == 'LinearInitializer':
        want = [0] * len(sizes)
        for i, v in enumerate(cfg.get('unis') or []):
          if v:
            want[i] = v
        for dims, direction in cfg.get('joint_uni') or []:
          for d in dims:
            want[d] = direction
        cl.append(('joint-unimodal-dims-initialised-like-unimodal-ones', B.const(list(init.unimodalities) == want)))
    elif cfg['id'] in ('random_monotonic_initializer', 'RandomMonotonicInitializer'):
      cl.append(('maps-to-random-monotonic-initializer', B.const(type(init).__name__ == 'RandomMonotonicInitializer')))
    else:
      cl.append(('maps-to-keras-random-uniform', B.const(type(init).__name__ == 'RandomUniform')))
    return cl


CASES = {'lattice': LatticeInitCase(), 'pwl': PwlInitCase(), 'pwl_layer': PwlLayerInitCase(), 'cat_layer': CatLayerInitCase(),
         'kfl': KflInitCase(), 'mapping': MappingCase()}


def configs(tier, rng):
  jobs = []
  ranges = [(None, None), (0.0, 1.0), (-2.0, 3.0), (-5.0, -1.0), (None, 2.0), (0.5, None), (None, -3.0), (-4.0, None)]
  shapes = [[2], [3], [2, 2], [2, 3], [3, 3], [2, 2, 2], [4, 3]]
  if tier == 'thorough':
    shapes += [[5], [3, 2, 2], [2, 3, 2]]
  for sizes in shapes:
    rank = len(sizes)
    pats = []
    for monos in itertools.product([0, 1], repeat=rank):
      for unis in itertools.product([0, 1, -1], repeat=rank):
        if any(m and u for m, u in zip(monos, unis)):
          continue
        if any(u and s < 3 for u, s in zip(unis, sizes)):
          continue
        pats.append((list(monos), list(unis)))
    if tier == 'quick' and len(pats) > 8:
      rng.shuffle(pats)
      pats = pats[:8]
    for k, (monos, unis) in enumerate(pats):
      for (lo, hi) in (ranges if tier == 'thorough' else [ranges[k % len(ranges)], ranges[(k + 3) % len(ranges)]]):
        # default_init_params rejects one-sided bounds that leave an empty range (construction
        # raises ValueError): such configurations are not "valid" and are left to C16
        ilo, ihi = LatticeInitCase()._init_range(dict(output_min=lo, output_max=hi))
        if not ilo < ihi:
          continue
        for units in (1, 2):
          jobs.append(('lattice', dict(sizes=sizes, units=units, monos=monos, unis=unis, output_min=lo,
                                       output_max=hi, init='linear_initializer',
                                       check_fixed_point=not any(unis))))
    if int(np.prod(sizes)) <= 9:
      for (lo, hi) in ranges[:4] + ranges[4:6]:
        ilo, ihi = LatticeInitCase()._init_range(dict(output_min=lo, output_max=hi))
        if not ilo < ihi:
          continue
        for units in ((1, 2, 3) if (lo, hi) == ranges[1] else (1 + len(sizes) % 2,)):
          jobs.append(('lattice', dict(sizes=sizes, units=units, monos=[1] * rank, output_min=lo,
                                       output_max=hi, init='random_monotonic_initializer')))
  for nk in (2, 3, 4, 5):
    for units in (1, 2):
      for mono in (1, 0, -1):
        for slopes in (False, True):
          jobs.append(('pwl', dict(nk=nk, units=units, mono=mono, slopes=slopes)))
  for kps in ([0.0, 1.0], [0.0, 0.5, 2.0], [-1.0, 0.0, 1.0, 4.0]):
    for mono in (1, -1, 0):
      for (lo, hi) in ((None, None), (0.0, 1.0), (-2.0, 3.0), (None, 2.0), (0.5, None)):
        for init in ('equal_heights', 'equal_slopes'):
          jobs.append(('pwl_layer', dict(keypoints=kps, units=1 + len(kps) % 2, mono=mono, output_min=lo,
                                         output_max=hi, init=init)))
      if mono:
        jobs.append(('pwl_layer', dict(keypoints=kps, units=1, mono=mono, output_min=0.0, output_max=1.0,
                                       init='equal_heights', clamp_min=True, clamp_max=True)))
      # learned missing output (a second weight with its own bound constraint), incl. one-sided bounds on either side of 0
      for (lo, hi) in ((None, None), (0.0, 1.0), (-2.0, 3.0), (None, 2.0), (0.5, None), (None, -1.5), (-0.5, None), (2.0, 5.0)):
        jobs.append(('pwl_layer', dict(keypoints=kps, units=1 + len(kps) % 2, mono=mono, output_min=lo, output_max=hi,
                                       init='equal_heights', impute='flags' if mono == 1 else 'value')))
  for (nb, units, pairs) in ((2, 1, [(0, 1)]), (3, 1, [(0, 1), (1, 2)]), (3, 2, [(2, 0)]), (4, 1, [(0, 1), (0, 2), (1, 3), (2, 3)]),
                             (3, 1, []), (4, 2, [(0, 3), (1, 3)])):
    for (lo, hi) in ((None, None), (0.0, 1.0), (-2.0, 3.0), (None, 2.0), (0.5, None), (None, -1.5)):
      for init in ('uniform', 'constant', 'premade'):
        if not pairs and lo is None and hi is None:
          continue
        jobs.append(('cat_layer', dict(buckets=nb, units=units, pairs=[list(p) for p in pairs], output_min=lo, output_max=hi,
                                       init=init)))
  for (L, U, D, T) in ((2, 1, 1, 1), (2, 1, 2, 2), (3, 2, 2, 1), (3, 1, 2, 2), (2, 2, 1, 3)):
    for monos in (None, [1] * D, [1] + [0] * (D - 1)):
      for (lo, hi) in ((None, None), (0.0, 1.0), (-1.0, 2.0), (None, 2.0), (0.5, None)):
        jobs.append(('kfl', dict(L=L, units=U, dims=D, terms=T, monos=monos, output_min=lo, output_max=hi)))
  for ident in ('linear_initializer', 'LinearInitializer', 'random_monotonic_initializer',
                'random_uniform_or_linear_initializer', 'random_uniform'):
    for ju in (None, [[[0, 1], 'valley']], [[[0], 'peak']]):
      jobs.append(('mapping', dict(id=ident, sizes=[3, 3], monos=[0, 0], unis=[0, 0], joint_uni=ju,
                                   output_min=0.0, output_max=1.0)))
  out, seen = [], set()
  for j in jobs:
    key = json.dumps(j, sort_keys=True)
    if key not in seen:
      seen.add(key)
      out.append(j)
  return out


EVIDENCE = {
    'level': 'other',
    'explanation': (
        'The real initializers run through the real layer builds (Keras stub). Lattice linear initialisation and the '
        'PWLCalibration layer initialisers have no tensor input, so for concrete bounds the obligations are evaluated exactly '
        '(rational arithmetic) per enumerated configuration; pwl_calibration_lib.linear_initializer is executed with symbolic '
        'init bounds and symbolic keypoints. Random initialisers: tf.random.uniform = fresh symbols inside the range, tf.sort = '
        'abstract contract, numpy shuffle = oracle with every outcome enumerated; obligations hold for all draws. '
        'Consequences used modularly: the initial weights meet the feasibility hypotheses of C01/C04/C07/C12 (fixed point of '
        'the weight constraint, accepted by assert_constraints); where the kernel is concrete the real constraint is also '
        'executed on it and must return it unchanged. Level `other`: configurations are enumerated, several clauses are '
        'exact evaluations rather than symbolic proofs.'),
    'rule': 'one obligation = (initializer / layer, configuration, clause, weight)',
    'bounds': 'lattices up to 4x3 / 2x2x2 (shuffle outcomes enumerated for <= 9 vertices), units <= 2, eight output ranges incl. '
              'one-sided and negative; PWL 2-5 keypoints; KFL sizes <= 3, dims <= 2, terms <= 3',
    'exhaustive_tiers': {'quick': False, 'thorough': False},
    'trusted_base': ['vt operator contracts incl. random.uniform and the abstract sort contract', 'Keras stub', 'z3 and cvc5'],
    'assumptions': ['float arithmetic treated as exact real arithmetic',
                    'one-sided output bounds that leave an empty default initialisation range are rejected by the constructor '
                    '(ValueError) and are excluded here'],
}

if __name__ == '__main__':
  import sys
  from vt import prop
  sys.exit(prop.main(sys.modules[__name__]))
