"""C15 - conditional calibration and CDF functions are bounded and monotone by construction.

The real pwl_calibration_fn, cdf_fn and CDF.call are executed on free symbolic parameters; softmax
and sigmoid are uninterpreted results constrained by their axioms (positive, summing to one /
inside (0,1), monotone).  Products of bounded quantities are handled by instantiating abstract
product lemmas (vt/lemmas.py).
"""
import itertools
import json

import numpy as np

from vt import ctx as C
from vt import expr as E
from vt import harness as H
from vt import kerasc
from vt import lemmas as L
from vt import load
from vt import tfc
from vt.expr import P, B
from vt.prop import Case

PROPERTY = 'C15'


# ------------------------------------------------------------------------- CDF helpers

def cdf_configs(tier):
  out = []
  for activation in ('relu6', 'sigmoid'):
    for reduction in ('mean', 'none', 'geometric_mean'):
      shapes = ((1, 1, 1), (2, 1, 1), (2, 2, 2), (2, 2, 1), (4, 2, 2))   # (4,2,2): input_dim > sparsity_factor > 1
      if tier != 'quick':
        shapes += ((4, 4, 2), (6, 3, 3))
      for (input_dim, units, sf) in shapes:
        for scaling in ('fixed', 'learned_shared', 'learned_per_input'):
          for nk in ((1, 2) if tier == 'quick' else (1, 2, 3)):
            if tier == 'quick' and (nk == 2 and input_dim == 2 and units == 2 and sf == 1):
              continue
            if tier == 'quick' and input_dim > 2 and (nk == 2 or scaling == 'learned_shared'):
              continue
            out.append(dict(activation=activation, reduction=reduction, input_dim=input_dim,
                            units=units, sparsity_factor=sf, input_scaling_type=scaling, num_keypoints=nk))
  return out


def cdf_layer(kw):
  ly = load.mod('cdf_layer')
  input_dim = kw['input_dim']
  K = tfc.sym([1, input_dim, kw['num_keypoints'], kw['units'] // kw['sparsity_factor']], 'ck')
  S1 = tfc.sym([1], 's')
  S4 = tfc.sym([1, input_dim, 1, 1], 's')

  def provider(layer, name, shape, dt, init, cons):
    if 'kernel' in name:
      return K
    return S1 if shape == [1] else S4
  kerasc.WEIGHT_PROVIDER[0] = provider
  try:
    layer = ly.CDF(num_keypoints=kw['num_keypoints'], units=kw['units'], activation=kw['activation'],
                   reduction=kw['reduction'], input_scaling_type=kw['input_scaling_type'],
                   input_scaling_monotonicity='increasing', sparsity_factor=kw['sparsity_factor'],
                   input_scaling_init=2.5)
    layer.build(tfc.TensorShape([None, input_dim]))
  finally:
    kerasc.WEIGHT_PROVIDER[0] = None
  # the NonNeg constraint keeps the learned scaling >= 0 after every update
  if kw['input_scaling_type'] != 'fixed' and C.active() and getattr(C.cur(), 'concrete_rng', None) is None:
    for v in layer.input_scaling.a.flat:
      C.cur().assume(P.lift(v) >= 0, 'NonNeg constraint on input_scaling')
  return layer


def call_cdf_fn(kw, x, per_example=False, nonneg=True):
  cc = load.mod('conditional_cdf')
  input_dim = kw['input_dim']
  loc = tfc.sym([1, input_dim, kw['num_keypoints'], kw['units'] // kw['sparsity_factor']], 'ck')
  st = kw['input_scaling_type']
  if st == 'fixed':
    sc = None
  elif st == 'learned_shared':
    sc = tfc.sym([1], 's')
  else:
    sc = tfc.sym([1, input_dim, 1, 1], 's')
  if sc is not None and nonneg and C.active() and getattr(C.cur(), 'concrete_rng', None) is None:
    for v in sc.a.flat:
      C.cur().assume(P.lift(v) >= 0, 'scaling_parameters >= 0')
  return cc.cdf_fn(x, loc, sc, units=kw['units'], activation=kw['activation'], reduction=kw['reduction'],
                   sparsity_factor=kw['sparsity_factor'])


def _scaling_instances(scale_elems, x, x2):
  """s >= 0 and x <= x2  =>  s*x <= s*x2, per input (an instance of the nonneg-product lemma)."""
  for s in scale_elems:
    for a, b in zip(x.a.flat, x2.a.flat):
      L.nonneg_product(s, P.lift(b) - P.lift(a))


class CdfCase(Case):
  """bounds and monotonicity of CDF.call / cdf_fn for every input pair x <= x2 (componentwise)."""
  contract_key = None
  xcheck = False

  def body(self, cfg, c):
    kw = cfg['kw']
    which = cfg['which']
    x = tfc.sym([1, kw['input_dim']], 'x')
    x2 = tfc.sym([1, kw['input_dim']], 'y')
    for a, b in zip(x.a.flat, x2.a.flat):
      c.assume(P.lift(a) <= P.lift(b), 'x <= y componentwise')
    if which == 'layer':
      layer = cdf_layer(kw)
      f = layer.call
      scal = [P.lift(v) for v in tfc._t(layer.input_scaling).a.flat]
    else:
      f = lambda t: call_cdf_fn(kw, t)
      scal = [P.var(n) for n in (['s[0]'] if kw['input_scaling_type'] == 'learned_shared' else
                                 ['s[0, %d, 0, 0]' % i for i in range(kw['input_dim'])]
                                 if kw['input_scaling_type'] == 'learned_per_input' else [])]
    _scaling_instances(scal, x, x2)
    out, out2 = f(x), f(x2)
    cl = [('same-shape', B.const(tuple(out.a.shape) == tuple(out2.a.shape)))]
    eps = {'layer': 1e-3, 'fn': 1e-8}[which] if kw['reduction'] == 'geometric_mean' else 0
    if eps:
      # instances of the monotonicity axioms of log / exp at the constant end points eps and 1 + eps
      # (floating constants rounded outwards): t <= 1+eps => log t <= L ; t >= eps => log t >= l ;
      # m <= L => exp m <= U ; m >= l => exp m >= u
      import math
      L_, l_ = math.log(1 + eps) * (1 + 1e-9) + 1e-15, math.log(eps) * (1 + 1e-9) - 1e-15
      U_, u_ = math.exp(L_) * (1 + 1e-9), math.exp(l_) * (1 - 1e-9)
      polys = [P.lift(v) for t_ in (out, out2) for v in t_.a.flat]
      for i in sorted(E.atoms_closure(polys, [])):
        a = E.ATOMS[i]
        if a.kind == 'fn' and a.name == 'log':
          t_ = P.lift(a.args[0])
          r = E.fn('log', t_)
          c.assume((t_ <= P.const(1) + P.const(eps)).implies(r <= L_) & (t_ >= P.const(eps)).implies(r >= l_),
                   'axiom instance: log monotone at eps, 1+eps (exact rational end points)')
        if a.kind == 'fn' and a.name == 'exp':
          m_ = P.lift(a.args[0])
          r = E.fn('exp', m_)
          c.assume((m_ <= L_).implies(r <= U_) & (m_ >= l_).implies(r >= u_), 'axiom instance: exp monotone at log(eps), log(1+eps)')
    for idx in np.ndindex(*out.a.shape):
      o, o2 = P.lift(out.a[idx]), P.lift(out2.a[idx])
      cl.append(('non-decreasing%s' % (list(idx),), o <= o2))
      if kw['reduction'] != 'geometric_mean':
        cl.append(('in-[0,1]%s' % (list(idx),), (o >= 0) & (o <= 1)))
      else:
        # "up to the documented epsilon of the geometric mean": 0 < out <= 1 + eps (+ rounding of the constants)
        cl.append(('in-(0,1+eps]%s' % (list(idx),), (o > 0) & (o <= 1 + eps * (1 + 1e-6) + 3e-9)))
    return cl


# ------------------------------------------------------------------- pwl_calibration_fn

def pwl_fn_configs(tier):
  out = []
  for mono in ('increasing', 'none'):
    for nk in ((2, 3) if tier == 'quick' else (2, 3, 4)):
      for units in (1, 2):
        clamps = [(False, False)]
        if mono == 'increasing':
          clamps += [(True, False), (False, True), (True, True)]
        for cmin, cmax in clamps:
          for cyclic in ((False, True) if mono == 'none' else (False,)):
            for missing in (None, 'derived', 'fixed'):
              if tier == 'quick' and missing and (cmin != cmax or units == 2 and nk == 3):
                continue
              for in_form in (('3d',) if nk > 2 else ('none', '3d')):
                if nk - cmin - cmax - cyclic + (missing == 'derived') < 1:
                  continue   # no free output parameter: documented as rejected (trivial function)
                out.append(dict(monotonicity=mono, nk=nk, units=units, clamp_min=cmin, clamp_max=cmax,
                                is_cyclic=cyclic, missing=missing, in_form=in_form))
  # falsy zeros as missing input / output values (the missing input 0.0 lies inside the keypoint range)
  for mono in ('increasing', 'none'):
    out.append(dict(monotonicity=mono, nk=3, units=1, clamp_min=False, clamp_max=False, is_cyclic=False, missing='fixed',
                    in_form='3d', miss_in=0.0, miss_out=0.0))
    out.append(dict(monotonicity=mono, nk=3, units=2, clamp_min=False, clamp_max=False, is_cyclic=False, missing='derived',
                    in_form='3d', miss_in=0.0))
  return out


def _pwl_fn_params(kw, symbolic_range=True):
  nk, U = kw['nk'], kw['units']
  rng = getattr(C.cur(), 'concrete_rng', None) if C.active() else None
  if kw['in_form'] == 'none':
    kin = None
  else:
    kin = tfc.sym([1, U, nk - 2], 'pin')
  size = nk - kw['clamp_min'] - kw['clamp_max'] - kw['is_cyclic'] + (kw['missing'] == 'derived')
  kout = tfc.sym([1, U, size], 'pout')
  args = dict(keypoint_input_parameters=kin, keypoint_output_parameters=kout, units=U,
              keypoint_input_min=-1.0, keypoint_input_max=3.0,
              keypoint_output_min=P.var('omin') if rng is None and symbolic_range else -2.0,
              keypoint_output_max=P.var('omax') if rng is None and symbolic_range else 1.5,
              clamp_min=kw['clamp_min'], clamp_max=kw['clamp_max'], monotonicity=kw['monotonicity'],
              is_cyclic=kw['is_cyclic'])
  if kw['missing']:
    args['missing_input_value'] = kw.get('miss_in', -50.0)
    if kw['missing'] == 'fixed':
      args['missing_output_value'] = kw.get('miss_out', 0.25)
  return args


def call_pwl_fn(kw, x, per_example=False, args=None):
  cp = load.mod('conditional_pwl_calibration')
  args = args or _pwl_fn_params(kw)
  return cp.pwl_calibration_fn(inputs=x, **args)


def _out_params(kout_params, u, kw):
  row = [P.lift(v) for v in kout_params.a[0, u]]
  if kw['missing'] == 'derived':
    row = row[:-1]
  return row


def _softmax_atoms(kout_params, u, kw):
  """The softmax results the real code forms for unit u (front-padded zero logit first)."""
  row = tuple([P.const(0)] + _out_params(kout_params, u, kw))
  return [E.fn('softmax[%d]' % j, *row) for j in range(len(row))]


def _kept_softmax(sm, kw):
  """Entries whose increments remain in the kernel: without clamp_max the last one is dropped."""
  return sm if kw['clamp_max'] else sm[:-1]


def _sigmoid_atoms(kout_params, u, kw):
  return [E.fn('sigmoid', v) for v in _out_params(kout_params, u, kw)]


def _native_accept_replay(kw):
  """Calls the real pwl_calibration_fn with zero parameters in the call form of `kw`."""
  from vt import prop
  nk, U = kw['nk'], kw['units']
  size = nk - kw['clamp_min'] - kw['clamp_max'] - kw['is_cyclic'] + (kw['missing'] == 'derived')
  kwargs = dict(inputs={'__t__': [[0.5]], 'dtype': 'float32'},
                keypoint_input_parameters=None if kw['in_form'] == 'none' else
                {'__t__': np.zeros((1, U, nk - 2)).tolist(), 'dtype': 'float32'},
                keypoint_output_parameters={'__t__': np.zeros((1, U, size)).tolist(), 'dtype': 'float32'},
                units=U, keypoint_input_min=-1.0, keypoint_input_max=3.0, keypoint_output_min=-2.0,
                keypoint_output_max=1.5, clamp_min=kw['clamp_min'], clamp_max=kw['clamp_max'],
                monotonicity=kw['monotonicity'], is_cyclic=kw['is_cyclic'])
  if kw['missing']:
    kwargs['missing_input_value'] = -50.0
    if kw['missing'] == 'fixed':
      kwargs['missing_output_value'] = 0.25
  return {'kind': 'fn', 'module': 'conditional_pwl_calibration', 'qualname': 'pwl_calibration_fn',
          'args': [], 'kwargs': kwargs, 'floatx': 'float32'}


_PWL_FN_SEARCH = """
import numpy as np
kw = args[0]
cp = mod('conditional_pwl_calibration')
nk, U = kw['nk'], kw['units']
size = nk - kw['clamp_min'] - kw['clamp_max'] - kw['is_cyclic'] + (kw['missing'] == 'derived')
rng = np.random.RandomState(21)
kmin, kmax, omin, omax, miss = -1.0, 3.0, -2.0, 1.5, -50.0
found = {}
def note(kind, amount, detail):
  if kind not in found or amount > found[kind]['amount']:
    found[kind] = {'amount': float(amount), 'detail': detail}
for trial in range(40):
  spread = [0.5, 2.0, 6.0, 15.0][trial % 4]
  kin = None if kw['in_form'] == 'none' else rng.uniform(-spread, spread, size=(1, U, nk - 2)).astype('float32')
  kout = rng.uniform(-spread, spread, size=(1, U, size)).astype('float32')
  args_ = dict(keypoint_input_parameters=None if kin is None else tf.constant(kin), keypoint_output_parameters=tf.constant(kout),
               units=U, keypoint_input_min=kmin, keypoint_input_max=kmax, keypoint_output_min=omin, keypoint_output_max=omax,
               clamp_min=kw['clamp_min'], clamp_max=kw['clamp_max'], monotonicity=kw['monotonicity'], is_cyclic=kw['is_cyclic'])
  if kw['missing']:
    args_['missing_input_value'] = miss
    if kw['missing'] == 'fixed':
      args_['missing_output_value'] = 0.25
  f = lambda xs: cp.pwl_calibration_fn(inputs=tf.constant(np.array(xs, 'float32').reshape(-1, 1)), **args_).numpy()
  xs = np.sort(rng.uniform(kmin - 1, kmax + 1, size=30))
  ys = f(xs)
  det = {'keypoint_input_parameters': None if kin is None else kin.tolist(), 'keypoint_output_parameters': kout.tolist()}
  if ys.min() < omin - 1e-4: note('below keypoint_output_min', omin - ys.min(), det)
  if ys.max() > omax + 1e-4: note('above keypoint_output_max', ys.max() - omax, det)
  if kw['monotonicity'] == 'increasing' and np.max(-np.diff(ys, axis=0)) > 1e-4: note('not non-decreasing', np.max(-np.diff(ys, axis=0)), det)
  ends = f([kmin, kmax])
  if kw['clamp_min'] and np.max(np.abs(ends[0] - omin)) > 1e-4: note('clamp_min not reached at keypoint_input_min', np.max(np.abs(ends[0] - omin)), det)
  if kw['clamp_max'] and np.max(np.abs(ends[1] - omax)) > 1e-4: note('clamp_max not reached at keypoint_input_max', np.max(np.abs(ends[1] - omax)), det)
  if kw['is_cyclic'] and np.max(np.abs(ends[0] - ends[1])) > 1e-4: note('cyclic ends differ', np.max(np.abs(ends[0] - ends[1])), det)
  if kw['missing'] == 'fixed' and np.max(np.abs(f([miss]) - 0.25)) > 1e-5: note('missing input not mapped to missing_output_value', np.max(np.abs(f([miss]) - 0.25)), det)
  if kw['missing'] == 'derived':
    want = omin + (omax - omin) / (1 + np.exp(-kout[0, :, -1].astype('float64')))
    if np.max(np.abs(f([miss])[0] - want)) > 1e-4: note('missing input not mapped to the derived missing output', np.max(np.abs(f([miss])[0] - want)), det)
result = found
"""


class PwlFnCase(Case):
  contract_key = None
  xcheck = False

  def replay_desc(self, cfg, model, g):
    if 'documented-call-form-accepted' in g.get('name', g.get('obligation', '')):
      return _native_accept_replay(cfg['kw'])
    # softmax / sigmoid are uninterpreted in the contract library: bounded native search instead of a model replay
    return {'kind': 'script', 'code': _PWL_FN_SEARCH, 'floatx': 'float32', 'args': [cfg['kw']], 'kwargs': {}}

  def replay_eval(self, cfg, model, g, desc, nat):
    if desc.get('kind') != 'script':
      return {'desc': desc, 'native': {k: v for k, v in nat.items() if k != 'trace'},
              'failing': ['raised ' + nat['error'][:300]] if 'error' in nat else []}
    if 'error' in nat:
      return {'native': {k: v for k, v in nat.items() if k != 'trace'}, 'failing': ['raised ' + nat['error'][:200]]}
    name = g.get('name', '')
    rel = {'in-output-range': ('below keypoint_output_min', 'above keypoint_output_max'), 'non-decreasing': ('not non-decreasing',),
           'clamp-min': ('clamp_min not reached at keypoint_input_min',), 'clamp-max': ('clamp_max not reached at keypoint_input_max',),
           'have:weight-at-upper': ('clamp_max not reached at keypoint_input_max', 'cyclic ends differ'),
           'have:weight-at-lower': ('clamp_min not reached at keypoint_input_min',),
           'cyclic': ('cyclic ends differ',), 'missing': ('missing input not mapped to missing_output_value',
                                                         'missing input not mapped to the derived missing output')}
    failing = []
    for key, kinds in rel.items():
      if name.startswith(key):
        failing += ['%s by %g' % (k, nat['ok'][k]['amount']) for k in kinds if k in (nat['ok'] or {})]
    return {'native': nat, 'failing': failing, 'note': 'bounded native search: 40 random parameter draws'}

  def body(self, cfg, c):
    kw = cfg['kw']
    cp = load.mod('conditional_pwl_calibration')
    U, nk = kw['units'], kw['nk']
    args = _pwl_fn_params(kw)
    omin, omax = P.lift(args['keypoint_output_min']), P.lift(args['keypoint_output_max'])
    kmin, kmax = args['keypoint_input_min'], args['keypoint_input_max']
    c.assume(omin <= omax, 'keypoint_output_min <= keypoint_output_max')
    x = tfc.sym([1, 1], 'x')
    x2 = tfc.sym([1, 1], 'y')
    c.assume(P.lift(x.a[0, 0]) <= P.lift(x2.a[0, 0]), 'x <= y')
    cl = []
    try:
      out, deltas, kout = cp.pwl_calibration_fn(inputs=x, return_derived_parameters=True, **args)
    except ValueError as e:
      return [('documented-call-form-accepted', E.FALSE)]
    cl.append(('documented-call-form-accepted', E.TRUE))
    out2 = cp.pwl_calibration_fn(inputs=x2, **args)
    Rout = omax - omin
    # --- instances of the abstract product lemmas on the derived parameters
    for u in range(U):
      ls = [P.lift(v) for v in deltas.a[0, u]]           # keypoint gaps: softmax * input range
      for gi, l in enumerate(ls):
        cl.append(('have:gap>0[u%d,%d]' % (u, gi), l > 0))
        L.inverse(l)
      ks = [P.const(kmin)]
      for l in ls[:-1]:
        ks.append(ks[-1] + l)
      hs = [P.lift(v) for v in kout.a[0, u]]             # [y0, h1, ..., hn]
      for xx in (x, x2):
        xv = P.lift(xx.a[0, 0])
        for i, l in enumerate(ls):
          # (x - k_{i+1}) >= 0  =>  (x - k_i)/l_i >= 1 ;  (k_i - x) >= 0  =>  (x - k_i)/l_i <= 0
          L.nonneg_product(xv - ks[i] - l, E.inv(l))
          L.nonneg_product(ks[i] - xv, E.inv(l))
          L.nonneg_product(xv - ks[i], E.inv(l))
      for i, l in enumerate(ls):
        L.nonneg_product(P.lift(x2.a[0, 0]) - P.lift(x.a[0, 0]), E.inv(l))
    if kw['monotonicity'] == 'increasing':
      ws = self._weights(cp, x, deltas, kmin, U)
      ws2 = self._weights(cp, x2, deltas, kmin, U)
      for u in range(U):
        hs = [P.lift(v) for v in kout.a[0, u]]
        sm = _softmax_atoms(args['keypoint_output_parameters'], u, kw)
        kept = P.const(0)
        for smj in sm:
          L.nonneg_product(smj, Rout)
        for i in range(1, len(hs)):
          cl.append(('have:increment>=0[u%d,%d]' % (u, i), hs[i] >= 0))
          L.nonneg_product(ws[u][i - 1], hs[i])
          L.nonneg_product(1 - ws[u][i - 1], hs[i])
          L.nonneg_product(ws2[u][i - 1] - ws[u][i - 1], hs[i])
        tot = sum(hs[1:], P.const(0))
        base = hs[0]
        # start + all increments = output_min + (sum of the kept softmax entries) * range <= output_max
        L.nonneg_product(1 - sum(_kept_softmax(sm, kw), P.const(0)), Rout)
        cl.append(('have:start>=output_min[u%d]' % u, base >= omin))
        cl.append(('have:start+increments<=output_max[u%d]' % u, base + tot <= omax))
    miss = args.get('missing_input_value')
    not_missing = E.TRUE
    if miss is not None:
      not_missing = P.lift(x.a[0, 0]).ne(miss) & P.lift(x2.a[0, 0]).ne(miss)
    for u in range(U):
      o, o2 = P.lift(out.a[0, u]), P.lift(out2.a[0, u])
      if kw['monotonicity'] == 'increasing':
        cl.append(('in-output-range[u%d]' % u, not_missing.implies((o >= omin) & (o <= omax))))
        cl.append(('non-decreasing[u%d]' % u, not_missing.implies(o <= o2)))
    # end points / cyclic / missing: evaluate the real function at the special inputs
    lo = cp.pwl_calibration_fn(inputs=tfc.convert_to_tensor([[kmin]], dtype=tfc.float32), **args)
    hi = cp.pwl_calibration_fn(inputs=tfc.convert_to_tensor([[kmax]], dtype=tfc.float32), **args)
    # staged facts for the end points: every interpolation weight is 1 at the upper end and 0 at the
    # lower end (keeps the clamp goals linear; the direct nonlinear goal is unstable in z3)
    ends = {}
    if kw['clamp_min'] or kw['clamp_max']:
      for nm_, xv_ in (('lower', kmin), ('upper', kmax)):
        ends[nm_] = self._weights(cp, tfc.convert_to_tensor([[xv_]], dtype=tfc.float32), deltas, kmin, U)
    for u in range(U):
      ls = [P.lift(v) for v in deltas.a[0, u]]
      ks = [P.const(kmin)]
      for l in ls[:-1]:
        ks.append(ks[-1] + l)
      if kw['clamp_min']:
        for i, w_ in enumerate(ends['lower'][u]):
          L.nonneg_product(ks[i] - P.const(kmin), E.inv(ls[i]))
          cl.append(('have:weight-at-lower-end==0[u%d,%d]' % (u, i), w_.eq(0)))
        cl.append(('clamp-min-reached[u%d]' % u, P.lift(lo.a[0, u]).eq(omin)))
      if kw['clamp_max']:
        for i, w_ in enumerate(ends['upper'][u]):
          L.nonneg_product(P.const(kmax) - ks[i] - ls[i], E.inv(ls[i]))
          cl.append(('have:weight-at-upper-end==1[u%d,%d]' % (u, i), w_.eq(1)))
        cl.append(('clamp-max-reached[u%d]' % u, P.lift(hi.a[0, u]).eq(omax)))
      if kw['is_cyclic']:
        cl.append(('cyclic-equal-ends[u%d]' % u, P.lift(lo.a[0, u]).eq(P.lift(hi.a[0, u]))))
    if miss is not None:
      mo = cp.pwl_calibration_fn(inputs=tfc.convert_to_tensor([[miss]], dtype=tfc.float32), **args)
      for u in range(U):
        if kw['missing'] == 'fixed':
          cl.append(('missing-maps-to-missing-output[u%d]' % u, P.lift(mo.a[0, u]).eq(args['missing_output_value'])))
        else:
          cl.append(('missing-output-in-range[u%d]' % u, (P.lift(mo.a[0, u]) >= omin) & (P.lift(mo.a[0, u]) <= omax)))
    return cl

  def _weights(self, cp, x, deltas, kmin, U):
    """Interpolation weights of the real helper for each unit (without the leading 1)."""
    keypoints = tfc.add(tfc.cumsum(deltas, exclusive=True, axis=-1), kmin)
    xx = tfc.reshape(tfc.tile(x, [1, U]) if U > 1 else x, (-1, U, 1))
    w = cp._compute_interpolation_weights(xx, keypoints, deltas)
    return [[P.lift(v) for v in w.a[0, u, 1:]] for u in range(U)]


class PwlFnSigmoidCase(Case):
  """monotonicity == 'none': outputs are convex combinations of sigmoid-squashed values."""
  contract_key = None
  xcheck = False

  def replay_desc(self, cfg, model, g):
    if 'documented-call-form-accepted' in g.get('name', g.get('obligation', '')):
      return _native_accept_replay(cfg['kw'])
    return None

  def replay_eval(self, cfg, model, g, desc, nat):
    return {'desc': desc, 'native': {k: v for k, v in nat.items() if k != 'trace'},
            'failing': ['raised ' + nat['error'][:300]] if 'error' in nat else []}

  def body(self, cfg, c):
    kw = cfg['kw']
    cp = load.mod('conditional_pwl_calibration')
    U = kw['units']
    args = _pwl_fn_params(kw)
    omin, omax = P.lift(args['keypoint_output_min']), P.lift(args['keypoint_output_max'])
    kmin = args['keypoint_input_min']
    c.assume(omin <= omax, 'keypoint_output_min <= keypoint_output_max')
    x = tfc.sym([1, 1], 'x')
    try:
      out, deltas, kout = cp.pwl_calibration_fn(inputs=x, return_derived_parameters=True, **args)
    except ValueError:
      return [('documented-call-form-accepted', E.FALSE)]
    cl = [('documented-call-form-accepted', E.TRUE)]
    miss = args.get('missing_input_value')
    not_missing = P.lift(x.a[0, 0]).ne(miss) if miss is not None else E.TRUE
    helper = PwlFnCase()
    ws = helper._weights(cp, x, deltas, kmin, U)
    for u in range(U):
      ls = [P.lift(v) for v in deltas.a[0, u]]
      for gi, l in enumerate(ls):
        cl.append(('have:gap>0[u%d,%d]' % (u, gi), l > 0))
        L.inverse(l)
      ks = [P.const(kmin)]
      for l in ls[:-1]:
        ks.append(ks[-1] + l)
      xv = P.lift(x.a[0, 0])
      for i, l in enumerate(ls):
        L.nonneg_product(xv - ks[i] - l, E.inv(l))
        L.nonneg_product(ks[i] - xv, E.inv(l))
        L.nonneg_product(xv - ks[i], E.inv(l))
      hs = [P.lift(v) for v in kout.a[0, u]]    # [y0, y1-y0, ...]
      ys = [hs[0]]
      for h in hs[1:]:
        ys.append(ys[-1] + h)
      for sg in _sigmoid_atoms(args['keypoint_output_parameters'], u, kw):
        L.nonneg_product(sg, omax - omin)
        L.nonneg_product(1 - sg, omax - omin)
      for yi, y in enumerate(ys):
        cl.append(('have:keypoint-output-in-range[u%d,%d]' % (u, yi), (y >= omin) & (y <= omax)))
      w = [P.const(1)] + ws[u] + [P.const(0)]
      # weights are non-increasing along the keypoints (a later segment is only entered once the
      # earlier ones are complete): staged facts, then the convex-combination bound
      for i in range(1, len(w) - 1):
        cl.append(('have:weights-ordered[u%d,%d]' % (u, i), w[i] >= w[i + 1] if i + 1 < len(w) - 1 else w[i] >= 0))
      for i in range(len(ys)):
        coef = w[i] - w[i + 1]
        L.nonneg_product(coef, ys[i] - omin)
        L.nonneg_product(coef, omax - ys[i])
      o = P.lift(out.a[0, u])
      cl.append(('in-output-range[u%d]' % u, not_missing.implies((o >= omin) & (o <= omax))))
    return cl


CASES = {'cdf': CdfCase(), 'pwl_fn': PwlFnCase(), 'pwl_fn_none': PwlFnSigmoidCase()}


def configs(tier, rng):
  jobs = []
  for kw in cdf_configs(tier):
    for which in ('layer', 'fn'):
      jobs.append(('cdf', dict(kw=kw, which=which)))
  for kw in pwl_fn_configs(tier):
    jobs.append(('pwl_fn', dict(kw=kw)))
    if kw['monotonicity'] == 'none':
      jobs.append(('pwl_fn_none', dict(kw=kw)))
  out, seen = [], set()
  for j in jobs:
    key = json.dumps(j, sort_keys=True)
    if key not in seen:
      seen.add(key)
      out.append(j)
  return out


EVIDENCE = {
    'level': 'other',
    'explanation': (
        'The real pwl_calibration_fn, cdf_fn and CDF.call are executed on free symbolic parameters; softmax / sigmoid / exp / '
        'log are uninterpreted results under their axioms. Obligations: documented call forms are accepted (incl. omitted '
        'interior keypoint parameters), outputs inside [keypoint_output_min, keypoint_output_max] resp. [0, 1], '
        'non-decreasing in the input for every pair x <= y, clamped ends reached at the end keypoints, equal end values when '
        'cyclic, missing input mapped to the missing output. Products of bounded quantities are discharged through '
        'abstract product lemmas proved once and instantiated; derived-parameter facts (gaps > 0, increments >= 0, start + '
        'increments <= output_max, squashed outputs inside the range) are staged `have:` obligations. Level `other`: the '
        'geometric-mean bound: 0 < out <= 1 + eps from instances of the log / exp monotonicity axioms at the end points.'),
    'rule': 'one obligation = (function, configuration, clause, unit)',
    'bounds': 'pwl_calibration_fn: 2-3 (quick) / 2-4 keypoints, units <= 2, clamp / cyclic / missing modes; CDF: input_dim <= 2, '
              'units <= 2, keypoints <= 2/3, both activations, three reductions, three scaling types, sparsity factors 1-2',
    'exhaustive_tiers': {'quick': False, 'thorough': False},
    'trusted_base': ['vt operator contracts', 'axioms: softmax entries > 0 summing to 1; sigmoid in (0,1) monotone; exp/log '
                     'monotone', 'keras NonNeg constraint keeps learned input scaling >= 0', 'z3 and cvc5'],
    'assumptions': ['float arithmetic treated as exact real arithmetic',
                    'geometric-mean reduction: log / exp monotonicity instantiated at the constants eps and 1 + eps (floating constants rounded outwards)'],
}

if __name__ == '__main__':
  import sys
  from vt import prop
  sys.exit(prop.main(sys.modules[__name__]))
