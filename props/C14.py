"""C14 - alternative representations of the same function agree.

Both real code paths of each pair are executed on shared symbols and the results are proved equal
(exact normal form per region / structurally; solver behind it).
"""
import itertools
import json

import numpy as np

from vt import ctx as C
from vt import expr as E
from vt import harness as H
from vt import kerasc
from vt import load
from vt import tfc
from vt.expr import P, B
from vt.prop import Case
from spec import interp as SI
from spec.lattice import flat, vertices

PROPERTY = 'C14'


def _eq(label, a, b, R=None, hyp=None):
  a, b = P.lift(a), P.lift(b)
  d = a - b
  if R is not None:
    d = R.simplify(d)
  if d.same(0):
    return [(label, E.TRUE)]
  g = a.eq(b)
  if hyp is not None:
    g = hyp.implies(g)
  return [(label, g)]


_CDF_PAIR_SCRIPT = """
import numpy as np
kw = args[0]
cdf = mod('cdf_layer'); cc = mod('conditional_cdf')
rng = np.random.RandomState(11)
layer = cdf.CDF(num_keypoints=kw['num_keypoints'], units=kw['units'], activation=kw['activation'], reduction=kw['reduction'],
                input_scaling_type=kw['input_scaling_type'], sparsity_factor=kw['sparsity_factor'], input_scaling_init=2.5)
x = rng.uniform(-0.5, 1.5, size=(5, kw['input_dim'])).astype('float32')
layer(tf.constant(x))
worst = 0.0
for trial in range(4):
  layer.kernel.assign(rng.uniform(0.0, 1.0, size=tuple(layer.kernel.shape)).astype('float32'))
  sc = None
  if kw['input_scaling_type'] != 'fixed':
    layer.input_scaling.assign(rng.uniform(0.5, 3.0, size=tuple(layer.input_scaling.shape)).astype('float32'))
    sc = tf.identity(layer.input_scaling)
  else:
    sc = tf.constant([2.5])
  a = layer(tf.constant(x)).numpy()
  b = cc.cdf_fn(tf.constant(x), tf.identity(layer.kernel), sc, units=kw['units'], activation=kw['activation'],
                reduction=kw['reduction'], sparsity_factor=kw['sparsity_factor']).numpy()
  worst = max(worst, float(np.max(np.abs(a - b))) if a.shape == b.shape else 1e9)
result = {'max_abs_difference': worst}
"""

_KFL_PAIR_SCRIPT = """
import itertools
import numpy as np
spec = args[0]
kl = mod('kronecker_factored_lattice_lib'); ll = mod('lattice_lib')
L, U, D, T = spec['L'], spec['units'], spec['dims'], spec['terms']
rng = np.random.RandomState(5)
worst = 0.0
for trial in range(4):
  sc = rng.uniform(-1, 1, size=(U, T)); bias = rng.uniform(-1, 1, size=(U,)); w = rng.uniform(-1, 1, size=(1, L, U * D, T))
  K = np.zeros((L ** D, U))
  for fi, v in enumerate(itertools.product(range(L), repeat=D)):
    for u in range(U):
      K[fi, u] = bias[u] + sum(sc[u, t] * np.prod([w[0, v[d], u * D + d, t] for d in range(D)]) for t in range(T)) / T
  shape = (6, U, D) if U > 1 else (6, D)
  x = rng.uniform(-0.5, L - 0.5, size=shape)
  a = kl.evaluate_with_hypercube_interpolation(tf.constant(x, 'float32'), tf.constant(sc, 'float32'), tf.constant(bias, 'float32'),
                                               tf.constant(w, 'float32'), U, T, L, True).numpy()
  b = ll.evaluate_with_hypercube_interpolation(tf.constant(x, 'float32'), tf.constant(K, 'float32'), U, [L] * D, True).numpy()
  worst = max(worst, float(np.max(np.abs(a - b))) if a.shape == b.shape else 1e9)
result = {'max_abs_difference': worst}
"""


_AGG_SCRIPT = """
import numpy as np
spec = args[0]
al = mod('aggregation_layer'); ll = mod('lattice_layer'); pl = mod('pwl_calibration_layer')
keras = al.keras
rng = np.random.RandomState(spec['seed'])
nf = spec['features']
ins = [keras.Input(shape=(1,)) for _ in range(nf)]
if spec['inner'] == 'lattice':
  z = keras.layers.Concatenate(axis=1)(ins)
  lat = ll.Lattice(lattice_sizes=[2, 3, 2][:nf], output_min=0.0, output_max=1.0)
  model = keras.Model(ins, lat(z))
  lat.kernel.assign(rng.uniform(0, 1, size=tuple(lat.kernel.shape)).astype('float32'))
else:
  cals = [pl.PWLCalibration(input_keypoints=[0.0, 1.0, 2.0], units=1)(i) for i in ins]
  model = keras.Model(ins, keras.layers.Add()(cals) if nf > 1 else cals[0])
  for v in model.trainable_variables:
    v.assign(rng.uniform(-1, 1, size=tuple(v.shape)).astype('float32'))
agg = al.Aggregation(model)
worst = 0.0
detail = None
for trial in range(6):
  lengths = [int(l) for l in rng.choice(spec['lengths'], size=spec['batch'])]
  cols = [[rng.uniform(-0.5, 2.5, size=l).astype('float32').tolist() for l in lengths] for _ in range(nf)]
  got = agg([tf.ragged.constant(c, dtype=tf.float32, ragged_rank=1) for c in cols]).numpy().reshape(-1)
  for b, l in enumerate(lengths):
    xs = [np.array(cols[f][b], 'float32').reshape(-1, 1) for f in range(nf)]
    want = float(np.mean(model(xs).numpy()))
    err = abs(float(got[b]) - want)
    if err > worst:
      worst, detail = err, {'lengths': lengths, 'row': b, 'got': float(got[b]), 'per_example_mean': want}
result = {'max_abs_difference': worst, 'detail': detail}
"""


class AggregationCase(Case):
  """BOUNDED stand-in (labelled): tf.ragged.map_flat_values over a Keras model has no operator contract.
  Aggregation(model) is compared natively with the per-example mean of the wrapped model over the ragged
  elements, for rows of 1-4 elements, two inner models, 1-3 features."""
  contract_key = None
  xcheck = False

  def replay(self, cfg, model, g):
    return {'failing': [g['name']] if 'differs' in g['name'] else [], 'note': 'evaluated natively in the check itself'}

  def body(self, cfg, c):
    from vt import prop
    res = prop.run_native([{'kind': 'script', 'code': _AGG_SCRIPT, 'floatx': 'float32', 'args': [cfg], 'kwargs': {}}])[0]
    if 'error' in res:
      return [('bounded:aggregation-evaluates: raised %s' % res['error'][:160], E.FALSE)]
    r = res['ok']
    ok = r['max_abs_difference'] <= 1e-5
    return [('bounded:aggregation-equals-per-example-mean' + ('' if ok else ': differs by %g at %s' % (r['max_abs_difference'], r['detail'])),
             B.const(bool(ok)))]


class PairCase(Case):
  contract_key = None
  xcheck = False

  def replay_desc(self, cfg, model, g):
    """Bounded native differential search (random parameters) for the two most exposed pairs."""
    if cfg['pair'] == 'cdf_fn_vs_layer':
      return {'kind': 'script', 'code': _CDF_PAIR_SCRIPT, 'floatx': 'float32', 'args': [cfg['kw']], 'kwargs': {}}
    if cfg['pair'] == 'kfl_vs_lattice':
      return {'kind': 'script', 'code': _KFL_PAIR_SCRIPT, 'floatx': 'float32', 'args': [cfg], 'kwargs': {}}
    return None

  def replay_eval(self, cfg, model, g, desc, nat):
    failing = []
    if 'error' in nat:
      return {'native': {k: v for k, v in nat.items() if k != 'trace'}, 'failing': [], 'note': 'native search could not run'}
    if nat['ok']['max_abs_difference'] > 1e-4:
      failing.append('the two representations differ by %g on random parameters' % nat['ok']['max_abs_difference'])
    return {'native': nat, 'failing': failing, 'note': 'bounded native differential search, 4 random parameter draws'}

  def setup(self, cfg, c):
    c.int_cast_range = (0, 3)

  def body(self, cfg, c):
    t = cfg['pair']
    cl = []
    if t == 'kfl_vs_lattice':
      kl = load.mod('kronecker_factored_lattice_lib')
      ll = load.mod('lattice_lib')
      L, U, D, T = cfg['L'], cfg['units'], cfg['dims'], cfg['terms']
      sc, bias, w = tfc.sym([U, T], 'scale'), tfc.sym([U], 'bias'), tfc.sym([1, L, U * D, T], 'w')
      sizes = [L] * D
      n = L ** D
      K = np.empty((n, U), dtype=object)
      for v in vertices(sizes):
        for u in range(U):
          tot = P.const(0)
          for tt in range(T):
            prod = P.lift(sc.a[u, tt])
            for d in range(D):
              prod = prod * w.a[0, v[d], u * D + d, tt]
            tot = tot + prod
          K[flat(sizes, v), u] = P.lift(bias.a[u]) + tot / T
      K = tfc.Tensor(K, tfc.float32)
      x = tfc.sym([1] + ([U] if U > 1 else []) + [D], 'x')
      xin = [x[..., d:d + 1] for d in range(D)] if cfg.get('as_list') else x   # list of per-dimension tensors
      a = kl.evaluate_with_hypercube_interpolation(xin, sc, bias, w, U, T, L, True)
      b = ll.evaluate_with_hypercube_interpolation(xin, K, U, sizes, True)
      cl.append(('same-shape', B.const(tuple(a.a.shape) == tuple(b.a.shape))))
      from props.C02 import _rows, _names
      for bidx, xs in _rows(x, D):
        for region in SI.regions(sizes, True):
          R = E.Region(SI.region_bounds(sizes, region, _names(xs)))
          ia = bidx + (0,) if U == 1 else bidx
          cl += _eq('KFL==Lattice-of-outer-product%s@%s' % (list(bidx), list(region)), a.a[ia], b.a[ia], R, R.formula())
    elif t == 'cdf_fn_vs_layer':
      import props.C15 as C15
      kw = cfg['kw']
      x = tfc.sym([2, kw['input_dim']], 'x')
      layer = C15.cdf_layer(kw)
      a = layer.call(x)
      b = C15.call_cdf_fn(kw, x, nonneg=False) if kw['input_scaling_type'] != 'fixed' else None
      if b is None:
        cc = load.mod('conditional_cdf')
        loc = tfc.sym([1, kw['input_dim'], kw['num_keypoints'], kw['units'] // kw['sparsity_factor']], 'ck')
        b = cc.cdf_fn(x, loc, tfc.convert_to_tensor([2.5], dtype=tfc.float32), units=kw['units'],
                      activation=kw['activation'], reduction=kw['reduction'], sparsity_factor=kw['sparsity_factor'])
      cl.append(('same-shape', B.const(tuple(a.a.shape) == tuple(b.a.shape))))
      if tuple(a.a.shape) == tuple(b.a.shape):
        for idx in np.ndindex(*a.a.shape):
          cl += _eq('CDF==cdf_fn%s' % (list(idx),), a.a[idx], b.a[idx])
    elif t == 'pwl_fn_vs_layer':
      import props.C15 as C15
      cp = load.mod('conditional_pwl_calibration')
      ly = load.mod('pwl_calibration_layer')
      kw = cfg['kw']
      U, nk = kw['units'], kw['nk']
      args = C15._pwl_fn_params(kw, symbolic_range=False)
      x = tfc.sym([2, 1], 'x')
      out, deltas, kout = cp.pwl_calibration_fn(inputs=x, return_derived_parameters=True, **args)
      # a PWLCalibration layer holding the derived keypoints (unit 0) and the derived kernel
      for u in range(U):
        gaps = [P.lift(v) for v in deltas.a[0, u]]
        kps = [P.const(args['keypoint_input_min'])]
        for g in gaps:
          kps.append(kps[-1] + g)
        kps[-1] = P.const(args['keypoint_input_max'])
        for g in gaps:
          c.assume(g > 0, 'derived gap > 0 (positive softmax entry times positive range)')
        kern = tfc.Tensor(np.array([[P.lift(v)] for v in kout.a[0, u]], dtype=object), tfc.float32)
        if kern.a.shape[0] != nk:
          # clamp_max without the closing increment etc.: the derived kernel already has nk rows otherwise
          cl.append(('derived-kernel-has-one-row-per-keypoint[u%d]' % u, E.FALSE))
          continue
        # the layer holds the corresponding missing output too: the fixed value, or (derived)
        # output_min + sigmoid(last output parameter) * (output_max - output_min)   [property text]
        lkw = dict(input_keypoints=kps, units=1)
        miss_w = None
        if kw['missing']:
          lkw.update(impute_missing=True, missing_input_value=args['missing_input_value'])
          if kw['missing'] == 'fixed':
            lkw['missing_output_value'] = args['missing_output_value']
          else:
            q = tfc.Tensor(np.array([[P.lift(args['keypoint_output_parameters'].a[0, u, -1])]], dtype=object), tfc.float32)
            lo_, hi_ = args['keypoint_output_min'], args['keypoint_output_max']
            miss_w = tfc.add(tfc.multiply(tfc.sigmoid(q), hi_ - lo_), lo_)
        kerasc.WEIGHT_PROVIDER[0] = lambda layer, name, shape, dt, init, cons: (miss_w if 'missing' in name else kern)
        try:
          layer = ly.PWLCalibration(**lkw)
          layer.build(tfc.TensorShape([None, 1]))
        finally:
          kerasc.WEIGHT_PROVIDER[0] = None
        lo = layer.call(x)
        for b in range(2):
          # with a missing value the symbolic rows are the non-missing inputs; the missing input itself is compared below
          hyp = P.lift(x.a[b, 0]).ne(args['missing_input_value']) if kw['missing'] else None
          cl += _eq('pwl_calibration_fn==PWLCalibration[%d,u%d]' % (b, u), out.a[b, u], lo.a[b, 0], None, hyp)
        if kw['missing']:
          xm = tfc.convert_to_tensor([[args['missing_input_value']]], dtype=tfc.float32)
          fm = cp.pwl_calibration_fn(inputs=xm, **args)
          cl += _eq('pwl_calibration_fn==PWLCalibration-at-the-missing-input[u%d]' % u, fm.a[0, u], layer.call(xm).a[0, 0])
    elif t == 'parallel':
      import props.C05 as C05
      pc = load.mod('parallel_combination_layer')
      layers = [C05._pwl_layer(dict(nk=3, units=1)), C05._pwl_layer(dict(nk=2, units=1, kpset=1)),
                C05._pwl_layer(dict(nk=4, units=1, cyclic=True))]
      for k, l in enumerate(layers):
        l.kernel.a = tfc.sym(list(l.kernel.a.shape), 'K%d' % k).a
      for single in (True, False):
        for as_list in (False, True):
          comb = pc.ParallelCombination(single_output=single)
          for l in layers:
            comb.append(l)
          x = tfc.sym([2, 3], 'x')
          inp = [x[:, i:i + 1] for i in range(3)] if as_list else x
          comb.build([tfc.TensorShape([None, 1])] * 3 if as_list else tfc.TensorShape([None, 3]))
          out = comb.call(inp)
          for i, l in enumerate(layers):
            ref = l.call(x[:, i:i + 1])
            for b in range(2):
              got = out.a[b, i] if single else out[i].a[b, 0]
              cl += _eq('ParallelCombination==column-%d[%d,single=%s,list=%s]' % (i, b, single, as_list), got, ref.a[b, 0])
    elif t == 'rtl':
      rl = load.mod('rtl_layer')
      ll = load.mod('lattice_lib')
      kw = cfg['kw']
      kernels = {}

      def provider(layer, name, shape, dt, init, cons):
        k = tfc.sym(shape, 'K%d' % len(kernels))
        kernels[id(layer)] = k
        return k
      kerasc.WEIGHT_PROVIDER[0] = provider
      try:
        layer = rl.RTL(num_lattices=kw['num_lattices'], lattice_rank=kw['rank'], lattice_size=kw.get('size', 2),
                       separate_outputs=kw.get('separate', False), average_outputs=kw.get('average', False),
                       random_seed=kw.get('seed', 1))
        shapes = {}
        xs = {}
        if kw.get('n_unc'):
          xs['unconstrained'] = tfc.sym([2, kw['n_unc']], 'xu')
          shapes['unconstrained'] = tfc.TensorShape([None, kw['n_unc']])
        if kw.get('n_inc'):
          xs['increasing'] = tfc.sym([2, kw['n_inc']], 'xi')
          shapes['increasing'] = tfc.TensorShape([None, kw['n_inc']])
        layer.build(shapes)
        for sub in layer._lattice_layers.values():
          sub.build(tfc.TensorShape([None, kw['rank']] if sub.units == 1 else [None, sub.units, kw['rank']]))
          sub.built = True
      finally:
        kerasc.WEIGHT_PROVIDER[0] = None
      out = layer.call(xs)
      flat_in = tfc.concat([xs[k] for k in sorted(xs)], axis=1) if len(xs) > 1 else list(xs.values())[0]
      refs = [[], []]
      for monos, inputs_for_units in layer._rtl_structure:
        sub = layer._lattice_layers[str(monos)]
        K = sub.kernel
        for u, idxs in enumerate(inputs_for_units):
          pts = tfc.stack([flat_in[:, i] for i in idxs], axis=1)
          r = ll.evaluate_with_hypercube_interpolation(pts, K[:, u:u + 1], 1, [kw.get('size', 2)] * kw['rank'], True)
          refs[max(monos)].append(r)
      if kw.get('separate'):
        for key, mono in (('unconstrained', 0), ('increasing', 1)):
          if refs[mono]:
            got = out[key]
            for j, r in enumerate(refs[mono]):
              for b in range(2):
                cl += _eq('RTL[%s]==gathered-lattice-%d[%d]' % (key, j, b), got.a[b, j], r.a[b, 0])
          else:
            cl.append(('RTL[%s]-absent' % key, B.const(key not in out)))
      else:
        allr = refs[0] + refs[1]
        if kw.get('average'):
          for b in range(2):
            mean = sum((P.lift(r.a[b, 0]) for r in allr), P.const(0)) / len(allr)
            cl += _eq('RTL(average)==mean-of-gathered-lattices[%d]' % b, out.a[b, 0], mean)
        else:
          for j, r in enumerate(allr):
            for b in range(2):
              cl += _eq('RTL==gathered-lattice-%d[%d]' % (j, b), out.a[b, j], r.a[b, 0])
    return cl


_FLOAT_CORNER_SCRIPT = """
import numpy as np
cpwl = mod('conditional_pwl_calibration')
pl = mod('pwl_calibration_layer')
out = []
for case in args[0]:
  ip = np.asarray(case['input_params'], np.float32)
  op = np.asarray(case['output_params'], np.float32)
  units = ip.shape[0]
  lo, hi, omin, omax = case['in_min'], case['in_max'], case['out_min'], case['out_max']
  x = tf.constant(np.asarray(case['xs'], np.float32).reshape(-1, 1))
  fn = cpwl.pwl_calibration_fn(inputs=x, keypoint_input_parameters=tf.constant(ip[np.newaxis]),
                               keypoint_output_parameters=tf.constant(op[np.newaxis]), keypoint_input_min=lo,
                               keypoint_input_max=hi, keypoint_output_min=omin, keypoint_output_max=omax, units=units,
                               monotonicity='none').numpy()
  nk = ip.shape[1] + 2
  layer = pl.PWLCalibration(input_keypoints=np.linspace(lo, hi, nk), units=units, input_keypoints_type='learned_interior',
                            dtype=tf.float32)
  layer.build((None, 1))
  layer.interpolation_logits.assign(np.concatenate([np.zeros((units, 1), np.float32), ip], axis=1))
  outs = 1.0 / (1.0 + np.exp(-op.astype(np.float64))) * (omax - omin) + omin
  layer.kernel.assign(np.concatenate([outs[:, :1], np.diff(outs, axis=1)], axis=1).T.astype(np.float32))
  ly = layer(x).numpy()
  d = np.abs(fn - ly)
  bad = np.argwhere(~(d <= 1e-5))
  out.append({'max_diff': float(np.nanmax(d)) if d.size else 0.0, 'nan': bool(np.isnan(d).any()),
              'first': None if not bad.size else {'x': float(case['xs'][bad[0][0]]), 'unit': int(bad[0][1]),
                                                  'fn': float(fn[tuple(bad[0])]), 'layer': float(ly[tuple(bad[0])])}})
result = out
"""

_FLOAT_CORNERS = [
    dict(name='regular keypoints', input_params=[[0.3, -0.7, 1.1]], output_params=[[-1.0, 0.5, 2.0, -0.3, 0.8]],
         xs=[-0.5, 0.0, 0.1, 0.33, 0.5, 0.77, 1.0, 1.4], in_min=0.0, in_max=1.0, out_min=0.0, out_max=1.0),
    dict(name='interior piece collapsed by float32 underflow (logit -200)', input_params=[[-200.0, 0.0]],
         output_params=[[-2.0, -1.0, 1.5, 2.5]], xs=[0.1, 0.3, 0.45, 0.55, 0.75, 0.9, 1.2], in_min=0.0, in_max=1.0, out_min=0.0,
         out_max=1.0),
    dict(name='last piece collapsed, 2 units (logit -150)', input_params=[[0.5, -150.0], [0.0, 0.0]],
         output_params=[[0.0, 1.0, -1.0, 2.0], [0.0, 1.0, -1.0, 2.0]], xs=[-1.0, 0.2, 0.6, 0.99, 1.5, 2.0], in_min=0.0, in_max=1.0,
         out_min=-1.0, out_max=1.0),
]


class FloatCornerCase(Case):
  """BOUNDED stand-in for a corner the exact-real contracts cannot express: keypoint logits so extreme that the float32
  softmax gives a piece of length exactly 0 (over the reals every piece is positive).  pwl_calibration_fn and the
  PWLCalibration layer holding the same logits and outputs are compared natively on a few such parameter sets."""
  contract_key = None
  xcheck = False

  def replay_desc(self, cfg, model, g):
    return {'kind': 'script', 'code': _FLOAT_CORNER_SCRIPT, 'floatx': 'float32', 'args': [_FLOAT_CORNERS], 'kwargs': {}}

  def replay_eval(self, cfg, model, g, desc, nat):
    if 'error' in nat:
      failing = ['native comparison raised ' + nat['error'][:200]]
    else:
      failing = ['%s: %s' % (cs['name'], r['first'] or 'nan') for cs, r in zip(_FLOAT_CORNERS, nat.get('ok') or [])
                 if r['nan'] or r['max_diff'] > 1e-5]
    return {'desc': {'kind': 'pwl_calibration_fn against the PWLCalibration layer on float32 corner parameters',
                     'cases': _FLOAT_CORNERS}, 'native': {k: v for k, v in nat.items() if k != 'trace'}, 'failing': failing}

  def body(self, cfg, c):
    from vt import prop
    res = prop.run_native([{'kind': 'script', 'code': _FLOAT_CORNER_SCRIPT, 'floatx': 'float32', 'args': [_FLOAT_CORNERS],
                            'kwargs': {}}])[0]
    if 'error' in res:
      raise RuntimeError('native float-corner runner: ' + res['error'] + res.get('trace', '')[-600:])
    cl = []
    for case, r in zip(_FLOAT_CORNERS, res['ok']):
      ok = (not r['nan']) and r['max_diff'] <= 1e-5
      detail = ''
      if not ok:
        f = r.get('first')
        detail = ': nan' if not f else ': x=%s unit %s function %s layer %s' % (f['x'], f['unit'], f['fn'], f['layer'])
      cl.append(('native:pwl_calibration_fn==PWLCalibration[%s]%s' % (case['name'], detail), B.const(ok)))
    return cl


CASES = {'pair': PairCase(), 'aggregation': AggregationCase(), 'float_corner': FloatCornerCase()}


def configs(tier, rng):
  import props.C15 as C15
  jobs = []
  jobs.append(('float_corner', {}))
  for inner in ('lattice', 'pwl'):
    for nf in ((1, 2) if tier == 'quick' else (1, 2, 3)):
      jobs.append(('aggregation', dict(inner=inner, features=nf, batch=4, lengths=[1, 2, 3, 4], seed=3 + nf)))
  for (L, U, D, T) in [(2, 1, 1, 1), (2, 1, 2, 1), (3, 1, 2, 1), (2, 2, 2, 1), (2, 1, 2, 2), (3, 1, 1, 2), (2, 2, 1, 2)] + (
      [(3, 2, 2, 2), (2, 1, 3, 2)] if tier == 'thorough' else []):
    jobs.append(('pair', dict(pair='kfl_vs_lattice', L=L, units=U, dims=D, terms=T)))
    if D > 1:
      jobs.append(('pair', dict(pair='kfl_vs_lattice', L=L, units=U, dims=D, terms=T, as_list=True)))
  for kw in C15.cdf_configs(tier):
    if kw['reduction'] in ('mean', 'none'):
      jobs.append(('pair', dict(pair='cdf_fn_vs_layer', kw=kw)))
  for kw in C15.pwl_fn_configs(tier):
    if not kw['is_cyclic']:
      jobs.append(('pair', dict(pair='pwl_fn_vs_layer', kw=kw)))
  jobs.append(('pair', dict(pair='parallel')))
  for kw in (dict(num_lattices=2, rank=2, n_unc=3), dict(num_lattices=3, rank=2, n_unc=2, n_inc=2),
             dict(num_lattices=3, rank=2, n_unc=2, n_inc=2, separate=True),
             dict(num_lattices=2, rank=2, n_inc=3, average=True),
             dict(num_lattices=2, rank=3, n_unc=2, n_inc=2, seed=7),
             dict(num_lattices=4, rank=2, n_unc=3, n_inc=1, seed=3, separate=True)):
    jobs.append(('pair', dict(pair='rtl', kw=kw)))
  return jobs


EVIDENCE = {
    'level': 'other',
    'explanation': (
        'Both real code paths of each pair are executed symbolically on shared parameters and inputs and their outputs are '
        'proved equal: KroneckerFactoredLattice vs Lattice on bias + term-average of scale times the outer product (per '
        'region, exact normal form); cdf_fn vs CDF.call (mean / none reductions); pwl_calibration_fn vs a PWLCalibration '
        'layer holding the derived keypoints and kernel; ParallelCombination vs column-wise calibrators (tensor / list '
        'input, single_output on/off); RTL.call vs gathering its recorded indices into its lattices (separate / average '
        'outputs). Level `other`: Aggregation over ragged tensors is outside the operator contracts and is not claimed.'),
    'rule': 'one obligation = (pair, configuration, output element [, region])',
    'bounds': 'KFL sizes <= 3, dims <= 2/3, units <= 2, terms <= 2; CDF as in C15; pwl_calibration_fn 2-3/4 keypoints; RTL up to 4 '
              'lattices of rank 2-3 on <= 4 inputs; batch 2',
    'exhaustive_tiers': {'quick': False, 'thorough': False},
    'trusted_base': ['vt operator contracts', 'Keras stub', 'z3 and cvc5'],
    'assumptions': ['float arithmetic treated as exact real arithmetic',
                    'Aggregation (tf.ragged.map_flat_values over a Keras model) has no operator contract: not claimed'],
}

if __name__ == '__main__':
  import sys
  from vt import prop
  sys.exit(prop.main(sys.modules[__name__]))
