"""C01 - the Lattice weight constraint returns kernels meeting every strict shape constraint.

Functions under contract (real bodies from /repo):
  lattice_lib._approximately_project_monotonicity / _edgeworth / _trapezoid / _bounds,
  lattice_lib.finalize_constraints, lattice_layer.LatticeConstraints.__call__,
  lattice_layer.Lattice.finalize_constraints (through the real Lattice.build).
project_by_dykstra is used through its contract only (proved in C08).
"""
import itertools

from vt import ctx as C
from vt import expr as E
from vt import harness as H
from vt import load
from vt import tfc
from vt import kerasc
from vt.expr import P, B
from vt.prop import Case
from contracts import lattice as CL
from spec import lattice as S

PROPERTY = 'C01'


def _tuples(x):
  return [tuple(t) for t in (x or [])]


def _bounds(cfg, symbolic=True):
  """Returns (output_min, output_max, assumptions)."""
  kind = cfg.get('bounds', 'none')
  lo = hi = None
  hyp = []
  rng = getattr(C.cur(), 'concrete_rng', None) if C.active() else None
  if rng is not None and symbolic:
    a = rng.randint(-8, 4) / 2.0
    b = a + rng.randint(1, 8) / 2.0
    if kind in ('min', 'both'):
      lo = a
    if kind in ('max', 'both'):
      hi = b
  elif symbolic:
    if kind in ('min', 'both'):
      lo = P.var('output_min')
    if kind in ('max', 'both'):
      hi = P.var('output_max')
    if kind == 'both':
      hyp.append(('min<max', lo < hi))
  else:
    vals = cfg.get('bound_values', [-1.5, 2.0])
    if kind in ('min', 'both'):
      lo = float(vals[0])
    if kind in ('max', 'both'):
      hi = float(vals[1])
  return lo, hi, hyp


def _shaped(cfg):
  sizes, units = list(cfg['sizes']), cfg['units']
  shp = sizes + ([units] if units > 1 else [])
  monos = list(cfg['monos']) + ([0] if units > 1 else [])
  return shp, monos


def _ghost(cfg, c):
  c.ghost = dict(monotonicities=list(cfg['monos']), edgeworth_trusts=_tuples(cfg.get('ew')),
                 trapezoid_trusts=_tuples(cfg.get('tz')))


class _Helper(Case):
  public = False
  lift_case = 'finalize'

  def setup(self, cfg, c):
    _ghost(cfg, c)


class ApmCase(_Helper):
  contract_key = 'lattice_lib._approximately_project_monotonicity'

  def build(self, cfg):
    shp, monos = _shaped(cfg)
    return (tfc.sym(shp, 'w'), shp, monos), {}


class ApeCase(_Helper):
  contract_key = 'lattice_lib._approximately_project_edgeworth'

  def build(self, cfg):
    shp, _ = _shaped(cfg)
    return (tfc.sym(shp, 'w'), shp, cfg['units'], _tuples(cfg.get('ew'))), {}


class AptCase(_Helper):
  contract_key = 'lattice_lib._approximately_project_trapezoid'

  def build(self, cfg):
    shp, _ = _shaped(cfg)
    return (tfc.sym(shp, 'w'), shp, cfg['units'], _tuples(cfg.get('tz')),
            _tuples(cfg.get('ew'))), {}


class ApbCase(_Helper):
  contract_key = 'lattice_lib._approximately_project_bounds'

  def build(self, cfg):
    shp, _ = _shaped(cfg)
    lo, hi, hyp = _bounds(cfg)
    return (tfc.sym(shp, 'w'), cfg['units'], lo, hi), {}


class FinalizeCase(Case):
  contract_key = 'lattice_lib.finalize_constraints'

  def setup(self, cfg, c):
    _ghost(cfg, c)

  def build(self, cfg):
    n = 1
    for s in cfg['sizes']:
      n *= s
    lo, hi, hyp = _bounds(cfg)
    kw = dict(edgeworth_trusts=_tuples(cfg.get('ew')) or None,
              trapezoid_trusts=_tuples(cfg.get('tz')) or None, output_min=lo, output_max=hi)
    return (tfc.sym([n, cfg['units']], 'w'), list(cfg['sizes']), list(cfg['monos'])), kw


def _constraint_kwargs(cfg, lo, hi):
  kw = dict(lattice_sizes=list(cfg['sizes']), monotonicities=list(cfg['monos']),
            unimodalities=cfg.get('unimodalities'),
            edgeworth_trusts=_tuples(cfg.get('ew')) or None,
            trapezoid_trusts=_tuples(cfg.get('tz')) or None,
            monotonic_dominances=_tuples(cfg.get('mono_dom')) or None,
            range_dominances=_tuples(cfg.get('range_dom')) or None,
            joint_monotonicities=_tuples(cfg.get('joint_mono')) or None,
            joint_unimodalities=[(tuple(d), k) for d, k in cfg.get('joint_uni') or []] or None,
            output_min=lo, output_max=hi)
  return kw


class ConstraintCallCase(Case):
  contract_key = 'lattice_layer.LatticeConstraints.__call__'
  lift_keep_stubs = ('lattice_lib.project_by_dykstra',)

  def build(self, cfg):
    ly = load.mod('lattice_layer')
    lo, hi, hyp = _bounds(cfg)
    kw = _constraint_kwargs(cfg, lo, hi)
    kw['num_projection_iterations'] = cfg.get('iters', 1)
    kw['enforce_strict_monotonicity'] = cfg.get('strict', True)
    this = ly.LatticeConstraints(**kw)
    this._vt_native = {'module': 'lattice_layer', 'cls': 'LatticeConstraints', 'init': kw}
    n = 1
    for s in cfg['sizes']:
      n *= s
    return (this, tfc.sym([n, cfg['units']], 'w')), {}


@H.register
class LatticeFinalize(H.Contract):
  """layer.kernel after Lattice.finalize_constraints(): strict families, in any mode."""
  module = 'lattice_layer'
  qualname = 'Lattice.finalize_constraints'
  inline = True

  def pre(self, this):
    if this.output_min is not None and this.output_max is not None:
      return [('min<max', P.lift(this.output_min) < P.lift(this.output_max))]
    return []

  def fresh_out(self, this):
    return CL.fresh_like(this.kernel, 'lk')

  def post(self, out, this):
    from vt import utils_shim
    sizes = this.lattice_sizes
    w = this._vt_old_kernel
    monos = utils_shim.canon_monotonicities(this.monotonicities, len(sizes))
    ew = utils_shim.canon_trusts(this.edgeworth_trusts)
    tz = utils_shim.canon_trusts(this.trapezoid_trusts)
    cl = [('shape', B.const(tuple(out.shape) == tuple(w.shape)))]
    cl += S.in_bounds(out, sizes, this.output_min, this.output_max)
    cl += CL.strict_clauses(out, sizes, monos, ew, tz)
    feas = CL.all_family_clauses(w, sizes, monos,
                                 utils_shim.canon_unimodalities(this.unimodalities, len(sizes)),
                                 ew, tz, this.monotonic_dominances, this.range_dominances,
                                 this.joint_monotonicities, this.joint_unimodalities)
    feas += S.in_bounds(w, sizes, this.output_min, this.output_max)
    cl += H.under(H.conj(feas), H.tensors_equal('same', out, w), 'feasible=>unchanged')
    return cl


class LayerFinalizeCase(Case):
  contract_key = 'lattice_layer.Lattice.finalize_constraints'
  stub_only = ('lattice_layer.LatticeConstraints.__call__',)
  lift_keep_stubs = ('lattice_lib.project_by_dykstra',)

  def build(self, cfg):
    ly = load.mod('lattice_layer')
    lo, hi, _ = _bounds(cfg, symbolic=False)
    kw = _constraint_kwargs(cfg, lo, hi)
    if cfg.get('spell'):
      kw['monotonicities'] = ['increasing' if m else 'none' for m in cfg['monos']]
    kw['units'] = cfg['units']
    kw['num_projection_iterations'] = cfg.get('iters', 1)
    kw['monotonic_at_every_step'] = cfg.get('strict', True)
    n = 1
    for s in cfg['sizes']:
      n *= s
    w = tfc.sym([n, cfg['units']], 'w')
    kerasc.WEIGHT_PROVIDER[0] = lambda layer, name, shape, dt, init, cons: w
    try:
      layer = ly.Lattice(**kw)
      rank = len(cfg['sizes'])
      layer.build(tfc.TensorShape([None, rank] if cfg['units'] == 1 else [None, cfg['units'], rank]))
    finally:
      kerasc.WEIGHT_PROVIDER[0] = None
    layer._vt_old_kernel = tfc.Tensor(layer.kernel.a.copy(), layer.kernel.dtype)
    layer._vt_native = {'kind': 'layer', 'module': 'lattice_layer', 'cls': 'Lattice', 'init': kw,
                        'weights': {'kernel': w}, 'return_weights': 'kernel',
                        'build_shape': [None, rank] if cfg['units'] == 1 else [None, cfg['units'], rank]}
    return (layer,), {}


CASES = {
    'apm': ApmCase(), 'ape': ApeCase(), 'apt': AptCase(), 'apb': ApbCase(),
    'finalize': FinalizeCase(), 'constraint_call': ConstraintCallCase(),
    'layer_finalize': LayerFinalizeCase(),
}

# ---------------------------------------------------------------- configurations

SIZES_QUICK = [[2], [3], [2, 2], [2, 3], [3, 2], [3, 3], [2, 2, 2], [2, 3, 2], [3, 2, 2], [2, 2, 3]]
SIZES_THOROUGH = SIZES_QUICK + [[4], [4, 2], [2, 4], [3, 3, 2], [2, 3, 3], [3, 2, 3]]


def valid(cfg):
  ll = load.mod('lattice_lib')
  try:
    ll.verify_hyperparameters(
        lattice_sizes=list(cfg['sizes']), monotonicities=list(cfg['monos']),
        unimodalities=cfg.get('unimodalities'),
        edgeworth_trusts=_tuples(cfg.get('ew')) or None,
        trapezoid_trusts=_tuples(cfg.get('tz')) or None,
        monotonic_dominances=_tuples(cfg.get('mono_dom')) or None,
        range_dominances=_tuples(cfg.get('range_dom')) or None,
        joint_monotonicities=_tuples(cfg.get('joint_mono')) or None,
        joint_unimodalities=[(tuple(d), k) for d, k in cfg.get('joint_uni') or []] or None)
    return True
  except ValueError:
    return False


def trust_sets(sizes, monos, max_each=2):
  rank = len(sizes)
  singles = [(m, c, d) for m in range(rank) for c in range(rank) for d in (1, -1)
             if m != c and monos[m] == 1]
  sets = [[]]
  for k in range(1, max_each + 1):
    for comb in itertools.combinations(singles, k):
      sets.append(list(comb))
  return sets


def base_space(tier):
  sizes_list = SIZES_QUICK if tier == 'quick' else SIZES_THOROUGH
  for sizes in sizes_list:
    rank = len(sizes)
    for monos in itertools.product([0, 1], repeat=rank):
      monos = list(monos)
      ts = trust_sets(sizes, monos)
      for ew in ts:
        for tz in ts:
          cfg = dict(sizes=sizes, monos=monos, ew=[list(t) for t in ew], tz=[list(t) for t in tz])
          if (ew or tz) and not valid(dict(cfg)):
            continue
          yield cfg


def extras(cfg, rng):
  """Adds approximately-enforced families that must not disturb the strict ones."""
  sizes, monos = cfg['sizes'], cfg['monos']
  rank = len(sizes)
  free3 = [d for d in range(rank) if monos[d] == 0 and sizes[d] >= 3]
  mono_dims = [d for d in range(rank) if monos[d] == 1]
  out = dict(cfg)
  if free3 and rng.random() < 0.5:
    u = [0] * rank
    u[rng.choice(free3)] = rng.choice([1, -1])
    out['unimodalities'] = u
  elif free3 and rng.random() < 0.5:
    out['joint_uni'] = [[[rng.choice(free3)], rng.choice(['valley', 'peak'])]]
  if len(mono_dims) >= 2 and rng.random() < 0.5:
    a, b = rng.sample(mono_dims, 2)
    out[rng.choice(['mono_dom', 'range_dom'])] = [[a, b]]
  if rank >= 2 and rng.random() < 0.4:
    a, b = rng.sample(range(rank), 2)
    out['joint_mono'] = [[a, b]]
  return out if valid(out) else dict(cfg)


CORNERS = [
    # documented exception: two trapezoid trusts sharing the conditional feature + Edgeworth
    dict(sizes=[2, 2, 2], monos=[1, 0, 1], ew=[[0, 1, 1]], tz=[[0, 1, 1], [2, 1, 1]]),
    # matching Edgeworth/trapezoid pair
    dict(sizes=[3, 3], monos=[1, 0], ew=[[0, 1, 1]], tz=[[0, 1, 1]]),
    dict(sizes=[3, 3], monos=[1, 0], ew=[[0, 1, -1]], tz=[[0, 1, -1]]),
    # monotone conditional feature (F-C01 family)
    dict(sizes=[2, 2, 2], monos=[1, 1, 1], ew=[[0, 1, 1]], tz=[[2, 1, -1]]),
    dict(sizes=[2, 2], monos=[1, 1], ew=[], tz=[[0, 1, 1]]),
    dict(sizes=[2, 3], monos=[1, 1], ew=[[0, 1, 1]], tz=[[0, 1, 1]]),
    dict(sizes=[2, 3, 2], monos=[1, 0, 1], ew=[[0, 1, 1], [2, 1, -1]], tz=[[0, 1, 1]]),
    dict(sizes=[3, 2], monos=[1, 1], ew=[], tz=[]),
    dict(sizes=[2, 2], monos=[0, 0], ew=[], tz=[]),
    # more than one constraint of the same family
    dict(sizes=[2, 2, 2], monos=[1, 1, 1], ew=[], tz=[], mono_dom=[[0, 1], [1, 2]]),
    dict(sizes=[2, 2, 2], monos=[1, 1, 1], ew=[], tz=[], range_dom=[[0, 1], [0, 2]]),
    dict(sizes=[2, 2, 2], monos=[0, 0, 0], ew=[], tz=[], joint_mono=[[0, 1], [1, 2]]),
    dict(sizes=[2, 2, 2], monos=[1, 0, 0], ew=[[0, 1, 1], [0, 2, -1]], tz=[]),
]


def rank4_space(rng, n):
  """Rank-4 lattices: the smallest shape on which two trusts can sit on disjoint feature pairs."""
  out = []
  for de in (1, -1):
    for dt in (1, -1):
      out.append(dict(sizes=[2, 2, 2, 2], monos=[1, 0, 1, 0], ew=[[0, 1, de]], tz=[[2, 3, dt]]))
      out.append(dict(sizes=[2, 2, 2, 2], monos=[1, 1, 1, 0], ew=[[0, 3, de], [1, 3, de]], tz=[[2, 3, dt]]))
  out.append(dict(sizes=[2, 2, 2, 2], monos=[1, 0, 1, 0], ew=[[0, 1, 1], [2, 3, 1]], tz=[[0, 1, 1], [2, 3, 1]]))
  out.append(dict(sizes=[2, 3, 2, 2], monos=[1, 0, 1, 0], ew=[[0, 1, 1]], tz=[[2, 3, -1]]))
  tries = 0
  while len(out) < n and tries < 50 * n:
    tries += 1
    sizes = [rng.choice([2, 2, 3]) for _ in range(4)]
    if sum(s == 3 for s in sizes) > 1:
      continue
    monos = [rng.choice([0, 1]) for _ in range(4)]
    singles = [(m, c, d) for m in range(4) for c in range(4) for d in (1, -1) if m != c and monos[m] == 1]
    if not singles:
      continue
    ew = rng.sample(singles, rng.choice([0, 1, 1, 2]))
    tz = rng.sample(singles, rng.choice([0, 1, 1, 2]))
    cfg = dict(sizes=sizes, monos=monos, ew=[list(t) for t in ew], tz=[list(t) for t in tz])
    if (ew or tz) and valid(dict(cfg)):
      out.append(cfg)
  return out


def configs(tier, rng):
  space = list(base_space(tier))
  if tier == 'quick':
    picked = [dict(c) for c in CORNERS]
    # stratified: every (sizes, has-ew, has-tz) class gets a few samples
    rng.shuffle(space)
    seen = collections_counter()
    for c in space:
      key = (tuple(c['sizes']), len(c['ew']), len(c['tz']))
      if seen[key] < (2 if len(c['sizes']) < 3 else 1):
        seen[key] += 1
        picked.append(c)
    space = picked + rank4_space(rng, 30)
  else:
    # the whole space inside the bounds has ~330000 cases (about 15 h on 16 cores): the thorough tier
    # takes a VERIF_SEED-seeded stratified sample about ten times the quick one
    picked = [dict(c) for c in CORNERS]
    rng.shuffle(space)
    seen = collections_counter()
    for c in space:
      key = (tuple(c['sizes']), len(c['ew']), len(c['tz']), tuple(c['monos']))
      if seen[key] < 2:
        seen[key] += 1
        picked.append(c)
    space = picked[:800] + rank4_space(rng, 100)
  jobs = []
  bkinds = ['none', 'min', 'max', 'both']
  for i, base in enumerate(space):
    for units in ((1, 2) if tier == 'thorough' else (1 + (i % 2),)):
      for bounds in ([bkinds[i % 4], bkinds[(i + 2) % 4]] if tier == 'thorough' else [bkinds[(i // 2) % 4], 'both']):
        cfg = dict(base, units=units, bounds=bounds)
        if any(cfg['monos']):
          jobs.append(('apm', dict(sizes=cfg['sizes'], monos=cfg['monos'], units=units)))
        if cfg['ew'] or cfg['tz']:
          jobs.append(('ape', cfg))
          jobs.append(('apt', cfg))
          if bounds != 'none':
            jobs.append(('apb', cfg))
        jobs.append(('finalize', cfg))
        full = extras(cfg, rng)
        for strict in (True, False):
          jobs.append(('constraint_call', dict(full, strict=strict, iters=rng.choice([0, 1, 7]))))
        jobs.append(('layer_finalize', dict(full, strict=bool(i % 2), iters=1, spell=bool(i % 3 == 0),
                                            bound_values=rng.choice([[-1.5, 2.0], [0.0, 1.0], [-3.0, 0.5]]))))
  # de-duplicate
  out, seen = [], set()
  import json
  for j in jobs:
    k = json.dumps(j, sort_keys=True)
    if k not in seen:
      seen.add(k)
      out.append(j)
  return out


def collections_counter():
  import collections
  return collections.Counter()


EVIDENCE = {
    'level': 'other',
    'explanation': (
        'Deductive verification of the real function bodies of lattice_lib / lattice_layer against '
        'contracts, per discrete configuration: each obligation holds for ALL real-valued kernels, '
        'all (symbolic) output bounds with min < max and any number of Dykstra iterations (the '
        'Dykstra result is an arbitrary tensor for the strictness clauses). Level is `other`, not '
        '`proof`, because the obligations listed under known findings are refuted on the unchanged '
        'tree (genuine defect, see known_findings.jsonl) and because configurations are enumerated '
        'up to the stated bounds.'),
    'rule': ('one obligation = (function under contract, discrete configuration, contract clause, '
             'tensor element / unit); non-trivial = needed a solver call (not closed by the '
             'normal-form simplifier); distinct by (function, configuration, clause, path)'),
    'bounds': 'rank <= 3: stratified seeded sample of the trust-set space (quick ~1400 cases, thorough ~16000 of ~330000) plus sampled rank-4 lattices (trusts on disjoint feature pairs), sizes <= 3 (quick) / one size-4 dimension (thorough), units <= 2, '
              '<= 2 Edgeworth and <= 2 trapezoid trusts, bounds in {none,min,max,both} symbolic',
    'exhaustive_tiers': {'quick': False, 'thorough': False},
    'trusted_base': [
        'vt operator contracts for the tf.* operators used (vt/tfc.py), differentially tested '
        'against TensorFlow on every run by the cross-check',
        'Keras plumbing stub vt/kerasc.py (Layer.build/add_weight, variable.assign_add)',
        'z3 4.x/5.x and cvc5 as SMT back ends',
        'contract of lattice_lib.project_by_dykstra (shape; feasible => unchanged), proved in C08',
    ],
    'assumptions': [
        'float32/float64 arithmetic treated as exact real arithmetic',
        'Keras re-applies variable.constraint after every optimizer update (not part of this check)',
        'per-configuration proof; configurations enumerated up to the stated bounds',
    ],
}

if __name__ == '__main__':
  import sys
  from vt import prop
  sys.exit(prop.main(sys.modules[__name__]))
