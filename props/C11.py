"""C11 - config and weight round-trips reproduce the same function.

What contracts can decide for all instances: the KEY CONTRACT between __init__ and get_config of each
class (every returned key is a constructor parameter, every constructor parameter is returned, the
value under key k is the attribute set from parameter k) - instance-independent, decided on the AST.
In addition the real get_config / from_config are executed (Keras stub) on enumerated constructor
arguments, and - as a bounded stand-in, labelled - under real Keras natively.
"Saving at any point of training" (histories / crash points) has no contract shape: not claimed.
"""
import ast
import itertools
import json
import os

import numpy as np

from vt import ctx as C
from vt import expr as E
from vt import kerasc
from vt import load
from vt import tfc
from vt.expr import P, B
from vt.prop import Case

PROPERTY = 'C11'
BASE_KEYS = {'name', 'trainable', 'dtype'}


def _class_node(modname, clsname):
  with open(os.path.join(load.PYDIR, modname + '.py')) as f:
    tree = ast.parse(f.read())
  for n in tree.body:
    if isinstance(n, ast.ClassDef) and n.name == clsname:
      return n
  return None


def _method(cls, name):
  for n in cls.body:
    if isinstance(n, ast.FunctionDef) and n.name == name:
      return n
  return None


def analyse(modname, clsname):
  cls = _class_node(modname, clsname)
  init, gc = _method(cls, '__init__'), _method(cls, 'get_config')
  params = [a.arg for a in init.args.args[1:]] + [a.arg for a in init.args.kwonlyargs]
  keys = {}
  conditional = set()
  local = {}      # simple local assignments in get_config: name -> expression
  for node in ast.walk(gc):
    if isinstance(node, ast.Dict):
      for k, v in zip(node.keys, node.values):
        if isinstance(k, ast.Constant) and isinstance(k.value, str):
          keys.setdefault(k.value, v)
    if isinstance(node, ast.Call) and ((isinstance(node.func, ast.Name) and node.func.id == 'dict') or
                                       (isinstance(node.func, ast.Attribute) and node.func.attr == 'update')):
      for kwd in node.keywords:
        if kwd.arg is not None:
          keys.setdefault(kwd.arg, kwd.value)
    if isinstance(node, ast.Assign):
      for t in node.targets:
        if isinstance(t, ast.Subscript) and isinstance(t.slice, ast.Constant) and isinstance(t.slice.value, str):
          keys.setdefault(t.slice.value, node.value)
          conditional.add(t.slice.value)
        if isinstance(t, ast.Name):
          local[t.id] = node.value
  # attributes assigned in __init__ from which parameter
  assigned = {}
  for node in ast.walk(init):
    if isinstance(node, ast.Assign):
      for t in node.targets:
        if isinstance(t, ast.Attribute) and isinstance(t.value, ast.Name) and t.value.id == 'self':
          names = {n.id for n in ast.walk(node.value) if isinstance(n, ast.Name)}
          assigned.setdefault(t.attr, set()).update(names)
  return params, keys, assigned, conditional, local


def _self_attrs(expr, local, depth=3):
  """self.<attr> names an expression reads, following simple local variables of get_config."""
  out = set()
  for n in ast.walk(expr):
    if isinstance(n, ast.Attribute) and isinstance(n.value, ast.Name) and n.value.id == 'self':
      out.add(n.attr)
    elif isinstance(n, ast.Name) and n.id in local and depth > 0:
      out |= _self_attrs(local[n.id], local, depth - 1)
  return out


def _runtime_keys(modname, clsname):
  """Keys get_config() returns on the enumerated instances (for forms the AST reading cannot see)."""
  ks = None
  for kw in ROUNDTRIPS.get((modname, clsname), []):
    try:
      got = set(_mk(modname, clsname, kw).get_config())
    except Exception:  # pylint: disable=broad-except
      continue
    ks = got if ks is None else (ks & got)
  return ks or set()


class KeysCase(Case):
  contract_key = None
  xcheck = False

  def body(self, cfg, c):
    params, keys, assigned, conditional, local = analyse(cfg['module'], cfg['cls'])
    runtime = _runtime_keys(cfg['module'], cfg['cls'])
    own = [k for k in list(keys) + sorted(runtime - set(keys)) if k not in BASE_KEYS]
    cl = []
    for k in own:
      cl.append(('key-is-a-constructor-parameter[%s]' % k, B.const(k in params)))
    for p_ in params:
      cl.append(('constructor-parameter-is-serialised[%s]' % p_, B.const(p_ in keys or p_ in runtime)))
    tied = {a: ps & set(params) for a, ps in assigned.items()}
    for k in own:
      if k not in params or k not in keys:
        continue
      attrs = _self_attrs(keys[k], local)
      # the value is read from an attribute that __init__ sets from the parameter of the same name;
      # refuted only when it reads attributes that are all tied to OTHER parameters (forms the AST
      # reading cannot resolve are left to the executed round trips)
      ok = any(k in tied.get(a, set()) or a in (k, '_' + k) for a in attrs)
      other = [a for a in attrs if tied.get(a) and k not in tied[a] and a not in (k, '_' + k)]
      cl.append(('value-comes-from-its-own-parameter[%s]' % k, B.const(ok or not other)))
    return cl


def _val(v):
  if isinstance(v, dict) and '__enum__' in v:
    mm, cc, nn = v['__enum__']
    return getattr(getattr(load.mod(mm), cc), nn)
  if isinstance(v, dict) and '__tuples__' in v:
    return [tuple(t) for t in v['__tuples__']]
  if isinstance(v, dict) and '__tuple__' in v:
    return tuple(_val(t) for t in v['__tuple__'])
  if isinstance(v, dict) and '__tensor__' in v:
    return tfc.convert_to_tensor(v['__tensor__'], dtype=tfc.float32)
  if isinstance(v, dict) and '__obj__' in v:
    return _mk(v['__obj__'][0], v['__obj__'][1], v['__obj__'][2])
  if isinstance(v, list):
    return [_val(t) for t in v]
  return v


def _mk(modname, clsname, kwargs):
  m = load.mod(modname)
  return getattr(m, clsname)(**{k: _val(v) for k, v in kwargs.items()})


def _plain(x):
  """Comparable form of a config value."""
  if isinstance(x, tfc.Tensor):
    return ('tensor', json.dumps(tfc.to_numpy(x).tolist()))
  if isinstance(x, dict):
    return {k: _plain(v) for k, v in x.items()}
  if isinstance(x, (list, tuple)):
    return [_plain(v) for v in x]
  if isinstance(x, np.ndarray):
    return x.tolist()
  if hasattr(x, 'get_config') and not isinstance(x, type):
    return {'class': type(x).__name__, 'config': _plain(x.get_config())}
  if hasattr(x, 'name') and hasattr(x, 'value') and type(x).__module__.endswith('pwl_calibration_lib'):
    return 'enum:' + x.name
  return x


class RoundTripCase(Case):
  """Executes the real get_config / from_config (Keras stub) for one constructor-argument tuple."""
  contract_key = None
  xcheck = False

  def body(self, cfg, c):
    try:
      obj = _mk(cfg['module'], cfg['cls'], cfg['kwargs'])
    except ValueError as e:
      return [('constructible (not part of the property): %s' % str(e)[:50], E.TRUE)]
    conf = obj.get_config()
    cl = []
    try:
      cls = getattr(load.mod(cfg['module']), cfg['cls'])
      with kerasc.custom_object_scope(_custom_objects()):
        obj2 = cls.from_config(dict(conf))
    except Exception as e:  # pylint: disable=broad-except
      return [('rebuild-from-get_config-succeeds: %s: %s' % (type(e).__name__, str(e)[:80]), E.FALSE)]
    cl.append(('rebuild-from-get_config-succeeds', E.TRUE))
    conf2 = obj2.get_config()
    a, b = _plain(conf), _plain(conf2)
    cl.append(('rebuilt-object-has-equal-config', B.const(a == b)))
    for k in cfg['kwargs']:
      # an argument that was passed explicitly must be serialised (a key emitted only for some option
      # combinations loses it for the others)
      cl.append(('passed-argument-is-serialised[%s]' % k, B.const(k in conf)))
      if k in conf:
        # non-default constructor arguments survive the round trip
        cl.append(('argument-preserved[%s]' % k, B.const(_plain(conf[k]) == _plain(conf2.get(k)))))
        v = cfg['kwargs'][k]
        if v is None or isinstance(v, (bool, int, float)):
          # plain numbers / flags are reported as given (a falsy 0 must not turn into None)
          cl.append(('scalar-argument-is-reported-as-given[%s=%r]' % (k, v), B.const(conf[k] is not None and conf[k] == v if v is not None else conf[k] is None)))
    return cl


def _custom_objects():
  out = {}
  for m in ('lattice_layer', 'pwl_calibration_layer', 'linear_layer', 'categorical_calibration_layer',
            'kronecker_factored_lattice_layer', 'cdf_layer', 'configs'):
    mod = load.mod(m)
    for n in dir(mod):
      o = getattr(mod, n)
      if isinstance(o, type) and hasattr(o, 'get_config'):
        out[n] = o
  return out


class LayerFunctionCase(Case):
  """A rebuilt layer given the original weights computes structurally identical outputs."""
  contract_key = None
  xcheck = False

  def setup(self, cfg, c):
    c.int_cast_range = (0, 3)

  def body(self, cfg, c):
    cls = getattr(load.mod(cfg['module']), cfg['cls'])
    weights = {}
    phase = [None, 0]

    def provider(layer, name, shape, dt, init, cons):
      # the k-th variable created for the original and for the rebuilt layer share one symbolic value
      key = (phase[1], name, tuple(int(d) for d in shape))
      phase[1] += 1
      return weights.setdefault(key, tfc.sym(shape, 'w%d_%s' % (key[0], name)))
    kerasc.WEIGHT_PROVIDER[0] = provider
    try:
      a = _mk(cfg['module'], cfg['cls'], cfg['kwargs'])
      with kerasc.custom_object_scope(_custom_objects()):
        b = cls.from_config(a.get_config())
      shape = tfc.TensorShape(cfg['input_shape'])
      x = tfc.sym([2] + list(cfg['input_shape'][1:]), 'x')
      if cfg.get('int_inputs'):
        x = tfc.convert_to_tensor(cfg.get('int_rows') or [[0.0, 2.0], [-1.0, 1.0]], dtype=tfc.float32)
      if cfg.get('fixed_rows'):
        x = tfc.convert_to_tensor(cfg['fixed_rows'], dtype=tfc.float32)
      if cfg.get('unit_box'):
        for v in x.a.flat:
          c.assume((P.lift(v) >= 0) & (P.lift(v) <= 1), 'inputs in the first cell (simplex oracle)')
      phase[1] = 0
      a.build(shape)
      ya = a.call(x)
      na = phase[1]
      phase[1] = 0
      b.build(shape)
      yb = b.call(x)
      nb = phase[1]
    finally:
      kerasc.WEIGHT_PROVIDER[0] = None
    cl = [('same-number-of-variables', B.const(na == nb and len(a.weights) == len(b.weights)))]
    for va, vb in zip(a.weights, b.weights):
      cl.append(('same-variable-shape[%s]' % va.name, B.const(va.a.shape == vb.a.shape)))
      ca, cb = getattr(va, 'constraint', None), getattr(vb, 'constraint', None)
      cl.append(('same-constraint-config[%s]' % va.name,
                 B.const((ca is None) == (cb is None) and (ca is None or _plain(ca.get_config()) == _plain(cb.get_config())))))
    if isinstance(ya, dict):
      cl.append(('same-output-keys', B.const(isinstance(yb, dict) and sorted(ya) == sorted(yb))))
      ya, yb = [ya[k] for k in sorted(ya)], [yb[k] for k in sorted(ya) if k in yb]
    ya = ya if isinstance(ya, list) else [ya]
    yb = yb if isinstance(yb, list) else [yb]
    cl.append(('same-output-structure', B.const(len(ya) == len(yb))))
    for ta, tb in zip(ya, yb):
      if ta.a.shape != tb.a.shape:
        cl.append(('same-output-shape', E.FALSE))
        continue
      for idx in np.ndindex(*ta.a.shape):
        pa, pb = P.lift(ta.a[idx]), P.lift(tb.a[idx])
        cl.append(('identical-output%s' % (list(idx),), E.TRUE if pa.same(pb) else pa.eq(pb)))
    return cl


class ConfigObjectCase(Case):
  """tfl.configs objects: from_config(get_config()) rebuilds an equal config (nested feature /
  regularizer / trust / dominance configs included)."""
  contract_key = None
  xcheck = False

  def body(self, cfg, c):
    cf = load.mod('configs')
    obj = self._build(cf, cfg['spec'])
    conf = obj.get_config()
    try:
      with kerasc.custom_object_scope(_custom_objects()):
        obj2 = type(obj).from_config(conf, custom_objects=_custom_objects())
    except Exception as e:  # pylint: disable=broad-except
      return [('rebuild-from-get_config-succeeds: %s: %s' % (type(e).__name__, str(e)[:80]), E.FALSE)]
    return [('rebuild-from-get_config-succeeds', E.TRUE),
            ('rebuilt-object-has-equal-config', B.const(_plain(conf) == _plain(obj2.get_config())))]

  def _build(self, cf, spec):
    kw = {}
    for k, v in spec['kwargs'].items():
      if isinstance(v, list) and v and isinstance(v[0], dict) and 'cls' in v[0]:
        v = [self._build(cf, s) for s in v]
      kw[k] = v
    return getattr(cf, spec['cls'])(**kw)


def _locally_scoped(modname):
  """Class names a module passes to keras.utils.custom_object_scope itself (AST)."""
  with open(os.path.join(load.PYDIR, modname + '.py')) as f:
    tree = ast.parse(f.read())
  names = set()
  for node in ast.walk(tree):
    if (isinstance(node, ast.Call) and isinstance(node.func, ast.Attribute) and node.func.attr == 'custom_object_scope'
        and node.args and isinstance(node.args[0], ast.Dict)):
      for k, v in zip(node.args[0].keys, node.args[0].values):
        if isinstance(k, ast.Constant) and isinstance(v, ast.Name) and k.value == v.id:
          names.add(k.value)
  return names


class RegistryCase(Case):
  """"With the tfl custom objects": premade.get_custom_objects() maps every public class with
  get_config to that class, unless the owning module scopes the class itself when deserialising."""
  contract_key = None
  xcheck = False

  def body(self, cfg, c):
    reg = load.mod('premade').get_custom_objects()
    cl = []
    pub = [(m, n) for m, n in CLASSES] + [('configs', n) for n in (
        'FeatureConfig', 'RegularizerConfig', 'TrustConfig', 'DominanceConfig', 'CalibratedLinearConfig',
        'CalibratedLatticeConfig', 'CalibratedLatticeEnsembleConfig', 'AggregateFunctionConfig')] + [
            ('premade', n) for n in ('CalibratedLinear', 'CalibratedLattice', 'CalibratedLatticeEnsemble', 'AggregateFunction')]
    for m, n in pub:
      cls = getattr(load.mod(m), n)
      if reg.get(n) is cls:
        ok = True
      else:
        ok = n in _locally_scoped(m)
      cl.append(('registered-in-get_custom_objects[%s.%s]' % (m, n), B.const(ok)))
    for n, o in reg.items():
      cl.append(('registry-name-is-the-class-name[%s]' % n, B.const(getattr(o, '__name__', None) == n)))
    return cl


_NATIVE_SCRIPT = """
import json
import numpy as np
import tensorflow_lattice as tfl
keras = mod('lattice_layer').keras
jobs = args[0]
custom = tfl.premade.get_custom_objects()

def plain(x):
  if isinstance(x, dict):
    return {k: plain(v) for k, v in x.items()}
  if isinstance(x, (list, tuple)):
    return [plain(v) for v in x]
  if hasattr(x, 'numpy'):
    return np.asarray(x.numpy()).tolist()
  if isinstance(x, np.ndarray):
    return x.tolist()
  if isinstance(x, (np.floating, np.integer)):
    return x.item()
  if hasattr(x, 'get_config') and not isinstance(x, type):
    return {'class': type(x).__name__, 'config': plain(x.get_config())}
  if x is None or isinstance(x, (bool, int, float, str)):
    return x
  return repr(x)

out = []
rng = np.random.RandomState(7)
for job in jobs:
  r = {}
  try:
    cls = getattr(mod(job['module']), job['cls'])
    def build(v):
      # nested layer arguments (ParallelCombination, Aggregation): {'__layer__': [module, class, kwargs]}
      if isinstance(v, dict) and '__layer__' in v:
        m_, c_, k_ = v['__layer__']
        return getattr(mod(m_), c_)(**build(k_))
      if isinstance(v, dict) and '__model__' in v:
        inp_ = keras.layers.Input(shape=(v['__model__']['input_dim'],))
        y_ = inp_
        for spec_ in v['__model__']['layers']:
          y_ = build(spec_)(y_)
        return keras.models.Model(inp_, y_)
      if isinstance(v, dict):
        return {k: build(x) for k, x in v.items()}
      if isinstance(v, list):
        return [build(x) for x in v]
      return v
    a = cls(**build(job['kwargs']))
    conf = a.get_config()
    with keras.utils.custom_object_scope(custom):
      b = cls.from_config(dict(conf))
    r['config_equal'] = plain(conf) == plain(b.get_config())
    if not r['config_equal']:
      r['conf'] = json.dumps(plain(conf), sort_keys=True, default=str)[:1500]
      r['conf2'] = json.dumps(plain(b.get_config()), sort_keys=True, default=str)[:1500]
    if job.get('input_shape'):
      shp = [4] + list(job['input_shape'][1:])
      x = rng.uniform(0.0, 1.0, size=shp)
      if job.get('int_inputs'):
        x = rng.randint(-1, 3, size=shp).astype('float32')
      inp = keras.layers.Input(shape=shp[1:])
      ya = a(inp)
      model = keras.models.Model(inp, ya)
      ws = [rng.uniform(0.1, 0.9, size=w.shape) for w in model.get_weights()]
      model.set_weights(ws)
      with keras.utils.custom_object_scope(custom):
        model2 = keras.models.Model.from_config(model.get_config())
      r['same_weight_shapes'] = [list(w.shape) for w in model.get_weights()] == [list(w.shape) for w in model2.get_weights()]
      if r['same_weight_shapes']:
        model2.set_weights(model.get_weights())
        pa, pb = model.predict(x, verbose=0), model2.predict(x, verbose=0)
        if isinstance(pa, dict):
          pa, pb = [pa[k] for k in sorted(pa)], [pb[k] for k in sorted(pb)]
        pa = pa if isinstance(pa, list) else [pa]
        pb = pb if isinstance(pb, list) else [pb]
        r['max_output_difference'] = float(max(np.max(np.abs(u - v)) for u, v in zip(pa, pb)))
  except Exception as e:
    import traceback
    r['error'] = '%s: %s' % (type(e).__name__, str(e)[:300])
    r['trace'] = traceback.format_exc()[-1200:]
  out.append(r)
result = out
"""


def _to_native(v):
  if isinstance(v, dict) and '__tuples__' in v:
    return [{'__tuple__': list(t)} for t in v['__tuples__']]
  if isinstance(v, dict) and '__tensor__' in v:
    return {'__t__': v['__tensor__'], 'dtype': 'float32'}
  if isinstance(v, dict) and '__tuple__' in v:
    return {'__tuple__': [_to_native(t) for t in v['__tuple__']]}
  if isinstance(v, dict) and '__enum__' in v:
    return v
  if isinstance(v, dict):
    return {k: _to_native(x) for k, x in v.items()}
  if isinstance(v, list):
    return [_to_native(x) for x in v]
  return v


class NativeRoundTripCase(Case):
  """BOUNDED stand-in: the same round trips under the real Keras (real (de)serialisation of nested
  initializers / regularizers, functional-model config round trip with weights copied)."""
  contract_key = None
  xcheck = False

  def body(self, cfg, c):
    from vt import prop
    jobs = [dict(j, kwargs=_to_native(j['kwargs'])) for j in cfg['jobs']]
    res = prop.run_native([{'kind': 'script', 'code': _NATIVE_SCRIPT, 'floatx': 'float32', 'args': [jobs], 'kwargs': {}}])[0]
    if 'error' in res:
      raise RuntimeError('native round-trip runner: ' + res['error'] + res.get('trace', ''))
    cl = []
    for j, r in zip(cfg['jobs'], res['ok']):
      tag = '%s.%s(%s)' % (j['module'], j['cls'], ','.join(sorted(j['kwargs'])))
      if 'error' in r:
        cl.append(('native:round-trip-does-not-raise[%s]: %s' % (tag, r['error'][:160]), E.FALSE))
        continue
      cl.append(('native:round-trip-does-not-raise[%s]' % tag, E.TRUE))
      cl.append(('native:rebuilt-object-has-equal-config[%s]' % tag, B.const(bool(r['config_equal']))))
      if 'same_weight_shapes' in r:
        cl.append(('native:model-rebuilt-with-same-weight-shapes[%s]' % tag, B.const(bool(r['same_weight_shapes']))))
      if 'max_output_difference' in r:
        cl.append(('native:model-rebuilt-same-predictions[%s]' % tag, B.const(r['max_output_difference'] <= 1e-6)))
    return cl


CASES = {'keys': KeysCase(), 'roundtrip': RoundTripCase(), 'layer_function': LayerFunctionCase(),
         'config_object': ConfigObjectCase(),
         'native_roundtrip': NativeRoundTripCase(), 'registry': RegistryCase()}

CLASSES = [
    ('lattice_layer', 'Lattice'), ('lattice_layer', 'LinearInitializer'), ('lattice_layer', 'RandomMonotonicInitializer'),
    ('lattice_layer', 'LatticeConstraints'), ('lattice_layer', 'TorsionRegularizer'), ('lattice_layer', 'LaplacianRegularizer'),
    ('pwl_calibration_layer', 'PWLCalibration'), ('pwl_calibration_layer', 'UniformOutputInitializer'),
    ('pwl_calibration_layer', 'PWLCalibrationConstraints'), ('pwl_calibration_layer', 'NaiveBoundsConstraints'),
    ('pwl_calibration_layer', 'LaplacianRegularizer'), ('pwl_calibration_layer', 'HessianRegularizer'),
    ('pwl_calibration_layer', 'WrinkleRegularizer'),
    ('linear_layer', 'Linear'), ('linear_layer', 'LinearConstraints'),
    ('categorical_calibration_layer', 'CategoricalCalibration'),
    ('categorical_calibration_layer', 'CategoricalCalibrationConstraints'),
    ('kronecker_factored_lattice_layer', 'KroneckerFactoredLattice'),
    ('kronecker_factored_lattice_layer', 'KFLRandomMonotonicInitializer'),
    ('kronecker_factored_lattice_layer', 'ScaleInitializer'), ('kronecker_factored_lattice_layer', 'BiasInitializer'),
    ('kronecker_factored_lattice_layer', 'KroneckerFactoredLatticeConstraints'),
    ('kronecker_factored_lattice_layer', 'ScaleConstraints'),
    ('cdf_layer', 'CDF'), ('rtl_layer', 'RTL'), ('parallel_combination_layer', 'ParallelCombination'),
    ('aggregation_layer', 'Aggregation'),
]

T = lambda *ts: {'__tuples__': [list(t) for t in ts]}
ENUM = lambda n: {'__enum__': ['pwl_calibration_lib', 'BoundConstraintsType', n]}

ROUNDTRIPS = {
    ('lattice_layer', 'Lattice'): [
        dict(lattice_sizes=[2, 3]),
        dict(lattice_sizes=[2, 3], units=2, monotonicities=['increasing', 'none'], unimodalities=[0, 1],
             edgeworth_trusts={'__tuple__': [0, 1, 1]}, output_min=0.0, output_max=2.0, num_projection_iterations=3,
             monotonic_at_every_step=False, clip_inputs=False, interpolation='simplex',
             kernel_initializer='random_monotonic_initializer',
             kernel_regularizer=[{'__tuple__': ['torsion', 0.1, [0.2, 0.3]]}, {'__tuple__': ['laplacian', [0.1, 0.0], 0.5]}]),
        dict(lattice_sizes=[3, 3], monotonicities=[1, 1], trapezoid_trusts=T((0, 1, -1)), monotonic_dominances=T((0, 1)),
             range_dominances=None, joint_monotonicities={'__tuple__': [0, 1]}),
        dict(lattice_sizes=[3, 3], joint_unimodalities={'__tuple__': [[0, 1], 'peak']},
             kernel_initializer='random_uniform_or_linear_initializer'),
    ],
    ('lattice_layer', 'LinearInitializer'): [dict(lattice_sizes=[2, 3], monotonicities=[1, 0], output_min=-1.0, output_max=2.0,
                                                 unimodalities=[0, 1])],
    ('lattice_layer', 'RandomMonotonicInitializer'): [dict(lattice_sizes=[2, 3], output_min=-1.0, output_max=2.0,
                                                          unimodalities=[0, -1])],
    ('lattice_layer', 'LatticeConstraints'): [
        dict(lattice_sizes=[2, 3], monotonicities=['increasing', 0], unimodalities=[0, 'valley'],
             edgeworth_trusts=T((0, 1, 'positive')), trapezoid_trusts=T((0, 1, 1)), output_min=0.0, output_max=1.0,
             num_projection_iterations=4, enforce_strict_monotonicity=False),
        dict(lattice_sizes=[2, 2], monotonicities=[1, 1], monotonic_dominances=T((0, 1)), range_dominances=T((1, 0)),
             joint_monotonicities=T((0, 1)), joint_unimodalities=None)],
    ('lattice_layer', 'TorsionRegularizer'): [dict(lattice_sizes=[2, 3], l1=0.5, l2=[0.1, 0.2])],
    ('lattice_layer', 'LaplacianRegularizer'): [dict(lattice_sizes=[2, 3], l1=[0.5, 0.0], l2=0.25)],
    ('pwl_calibration_layer', 'PWLCalibration'): [
        dict(input_keypoints=[0.0, 1.0, 3.0]),
        dict(input_keypoints=[0.0, 1.0, 3.0], units=2, output_min=0.0, output_max=1.0, clamp_min=True, clamp_max=True,
             monotonicity='increasing', convexity='concave', kernel_initializer='equal_slopes',
             kernel_regularizer=[{'__tuple__': ['hessian', 0.1, 0.2]}, {'__tuple__': ['wrinkle', 0.0, 0.3]}],
             impute_missing=True, missing_input_value=-1.0, missing_output_value=0.5, num_projection_iterations=3,
             split_outputs=True),
        dict(input_keypoints=[0.0, 1.0, 3.0], is_cyclic=True, impute_missing=True,
             kernel_regularizer={'__tuple__': ['laplacian', 0.1, 0.0]}, input_keypoints_type='learned_interior'),
        dict(input_keypoints=[-1.0, 1.0, 3.0], impute_missing=True, missing_input_value=0.0, missing_output_value=0.0,
             output_min=0.0, output_max=0.0, num_projection_iterations=0, units=1)],
    ('pwl_calibration_layer', 'UniformOutputInitializer'): [dict(output_min=0.0, output_max=2.0, monotonicity=-1,
                                                                keypoints=[0.0, 1.0, 4.0])],
    ('pwl_calibration_layer', 'PWLCalibrationConstraints'): [
        dict(monotonicity='decreasing', convexity='convex', lengths={'__tensor__': [1.0, 2.0]}, output_min=0.0, output_max=1.0,
             output_min_constraints=ENUM('CLAMPED'), output_max_constraints=ENUM('BOUND'), num_projection_iterations=3)],
    ('pwl_calibration_layer', 'NaiveBoundsConstraints'): [dict(lower_bound=-1.0, upper_bound=2.0)],
    ('pwl_calibration_layer', 'LaplacianRegularizer'): [dict(l1=0.1, l2=0.2, is_cyclic=True)],
    ('pwl_calibration_layer', 'HessianRegularizer'): [dict(l1=0.1, l2=0.2, is_cyclic=True)],
    ('pwl_calibration_layer', 'WrinkleRegularizer'): [dict(l1=0.1, l2=0.2, is_cyclic=True)],
    ('linear_layer', 'Linear'): [
        dict(num_input_dims=3),
        dict(num_input_dims=3, units=2, monotonicities=['increasing', 'decreasing', 'none'], use_bias=False,
             normalization_order=1, input_min=[0.0, None, -1.0], input_max=[1.0, 'none', 3.0]),
        dict(num_input_dims=2, monotonicities=[1, 1], monotonic_dominances=T((0, 1)), use_bias=True),
        dict(num_input_dims=2, monotonicities=[1, 1], range_dominances=T((0, 1)), input_min=[0.0, 0.0], input_max=[1.0, 2.0])],
    ('linear_layer', 'LinearConstraints'): [
        dict(monotonicities=[1, 1, 0], monotonic_dominances=T((0, 1)), normalization_order=2),
        dict(monotonicities=[1, 1], range_dominances=T((0, 1)), input_min=[0.0, 0.0], input_max=[1.0, 2.0])],
    ('categorical_calibration_layer', 'CategoricalCalibration'): [
        dict(num_buckets=3),
        dict(num_buckets=4, units=2, output_min=0.0, output_max=1.0, monotonicities=T((0, 1), (1, 2)),
             default_input_value=-1, split_outputs=True, kernel_initializer='constant'),
        dict(num_buckets=3, default_input_value=0, output_min=0.0, output_max=0.0)],
    ('categorical_calibration_layer', 'CategoricalCalibrationConstraints'): [
        dict(output_min=0.0, output_max=1.0, monotonicities=T((0, 1)))],
    ('kronecker_factored_lattice_layer', 'KroneckerFactoredLattice'): [
        dict(lattice_sizes=2),
        dict(lattice_sizes=3, units=2, num_terms=3, monotonicities=['increasing', 'none'], output_min=0.0, output_max=1.0,
             clip_inputs=False)],
    ('kronecker_factored_lattice_layer', 'KFLRandomMonotonicInitializer'): [dict(monotonicities=[1, 0], init_min=0.0, init_max=2.0,
                                                                               seed=7)],
    ('kronecker_factored_lattice_layer', 'ScaleInitializer'): [dict(output_min=0.0, output_max=1.0)],
    ('kronecker_factored_lattice_layer', 'BiasInitializer'): [dict(output_min=0.0, output_max=1.0)],
    ('kronecker_factored_lattice_layer', 'ScaleConstraints'): [dict(output_min=0.0, output_max=1.0)],
    ('cdf_layer', 'CDF'): [
        dict(num_keypoints=3),
        dict(num_keypoints=4, units=2, activation='sigmoid', reduction='geometric_mean', input_scaling_init=2.0,
             input_scaling_type='learned_per_input', input_scaling_monotonicity='none', sparsity_factor=2)],
    ('rtl_layer', 'RTL'): [
        dict(num_lattices=3, lattice_rank=2),
        dict(num_lattices=3, lattice_rank=2, lattice_size=3, output_min=0.0, output_max=1.0, init_min=0.2, init_max=0.8,
             separate_outputs=True, random_seed=7, num_projection_iterations=4, monotonic_at_every_step=False,
             clip_inputs=False, interpolation='simplex', avoid_intragroup_interaction=False,
             kernel_initializer='linear_initializer', kernel_regularizer={'__tuple__': ['torsion', 0.1, 0.2]}),
        dict(num_lattices=2, lattice_rank=2, parameterization='kronecker_factored', num_terms=3, average_outputs=True),
        dict(num_lattices=2, lattice_rank=2, lattice_size=3, parameterization='kronecker_factored', num_terms=2, clip_inputs=False,
             output_min=0.0, output_max=1.0, random_seed=0, kernel_initializer='kfl_random_monotonic_initializer',
             avoid_intragroup_interaction=False)],
}

LAYER_FUNCTIONS = [
    dict(module='lattice_layer', cls='Lattice', kwargs=dict(lattice_sizes=[2, 3], units=2, monotonicities=[1, 0],
                                                            output_min=0.0, output_max=1.0), input_shape=[None, 2, 2]),
    dict(module='lattice_layer', cls='Lattice', kwargs=dict(lattice_sizes=[2, 2], interpolation='simplex', clip_inputs=False),
         input_shape=[None, 2], unit_box=True),
    dict(module='pwl_calibration_layer', cls='PWLCalibration',
         kwargs=dict(input_keypoints=[0.0, 1.0, 3.0], units=2, is_cyclic=True, split_outputs=True), input_shape=[None, 2]),
    dict(module='pwl_calibration_layer', cls='PWLCalibration',
         kwargs=dict(input_keypoints=[0.0, 1.0, 3.0], impute_missing=True, missing_input_value=-1.0, missing_output_value=0.5),
         input_shape=[None, 1]),
    dict(module='linear_layer', cls='Linear', kwargs=dict(num_input_dims=3, units=2, use_bias=False, input_min=[0.0, None, -1.0],
                                                          input_max=[1.0, None, 3.0]), input_shape=[None, 2, 3]),
    dict(module='kronecker_factored_lattice_layer', cls='KroneckerFactoredLattice',
         kwargs=dict(lattice_sizes=3, units=2, num_terms=2, clip_inputs=False), input_shape=[None, 2, 2]),
    dict(module='rtl_layer', cls='RTL', kwargs=dict(num_lattices=3, lattice_rank=2, random_seed=7, separate_outputs=True),
         input_shape=[None, 4]),
    dict(module='rtl_layer', cls='RTL', kwargs=dict(num_lattices=2, lattice_rank=2, random_seed=3, average_outputs=True,
                                                    parameterization='kronecker_factored', num_terms=2,
                                                    kernel_initializer='kfl_random_monotonic_initializer'), input_shape=[None, 3]),
    dict(module='categorical_calibration_layer', cls='CategoricalCalibration',
         kwargs=dict(num_buckets=3, units=2, default_input_value=-1, split_outputs=True), input_shape=[None, 2], int_inputs=True),
    dict(module='rtl_layer', cls='RTL', kwargs=dict(num_lattices=2, lattice_rank=2, random_seed=3, clip_inputs=False,
                                                    parameterization='kronecker_factored', num_terms=2,
                                                    kernel_initializer='kfl_random_monotonic_initializer'), input_shape=[None, 3]),
    dict(module='categorical_calibration_layer', cls='CategoricalCalibration',
         kwargs=dict(num_buckets=3, default_input_value=0), input_shape=[None, 1], int_inputs=True, int_rows=[[0], [2]]),
    dict(module='pwl_calibration_layer', cls='PWLCalibration',
         kwargs=dict(input_keypoints=[-1.0, 1.0, 3.0], impute_missing=True, missing_input_value=0.0, missing_output_value=0.0),
         input_shape=[None, 1], fixed_rows=[[0.0], [2.0]]),
    dict(module='cdf_layer', cls='CDF', kwargs=dict(num_keypoints=2, units=2, activation='sigmoid', reduction='none',
                                                    sparsity_factor=2, input_scaling_type='learned_shared'), input_shape=[None, 2]),
]


def _config_specs():
  reg = dict(cls='RegularizerConfig', kwargs=dict(name='torsion', l1=0.1, l2=0.2))
  trust = dict(cls='TrustConfig', kwargs=dict(feature_name='b', trust_type='trapezoid', direction='negative'))
  dom = dict(cls='DominanceConfig', kwargs=dict(feature_name='b', dominance_type='monotonic'))
  fa = dict(cls='FeatureConfig', kwargs=dict(name='a', monotonicity='increasing', lattice_size=3, pwl_calibration_num_keypoints=5,
                                             regularizer_configs=[reg], reflects_trust_in=[trust], dominates=[dom]))
  fb = dict(cls='FeatureConfig', kwargs=dict(name='b', num_buckets=3, vocabulary_list=['x', 'y', 'z'], default_value=-1))
  return [reg, trust, dom, fa, fb,
          dict(cls='CalibratedLinearConfig', kwargs=dict(feature_configs=[fa, fb], regularizer_configs=[reg], use_bias=False,
                                                         output_min=0.0, output_max=1.0, output_calibration=True)),
          dict(cls='CalibratedLatticeConfig', kwargs=dict(feature_configs=[fa, fb], interpolation='simplex',
                                                          parameterization='kronecker_factored', num_terms=3)),
          dict(cls='CalibratedLatticeEnsembleConfig', kwargs=dict(feature_configs=[fa, fb], lattices=[['a', 'b'], ['b']],
                                                                  num_lattices=2, lattice_rank=2, random_seed=11,
                                                                  separate_calibrators=False)),
          dict(cls='CalibratedLatticeEnsembleConfig', kwargs=dict(feature_configs=[fa, fb], lattices='rtl_layer', num_lattices=3,
                                                                  lattice_rank=2, random_seed=5)),
          dict(cls='AggregateFunctionConfig', kwargs=dict(feature_configs=[fa, fb], middle_dimension=3, middle_lattice_size=3, middle_calibration=True))]


def configs(tier, rng):
  jobs = []
  for m, cname in CLASSES:
    jobs.append(('keys', dict(module=m, cls=cname)))
  for (m, cname), lst in ROUNDTRIPS.items():
    for kw in lst:
      jobs.append(('roundtrip', dict(module=m, cls=cname, kwargs=kw)))
  for lf in LAYER_FUNCTIONS:
    jobs.append(('layer_function', lf))
  for spec in _config_specs():
    jobs.append(('config_object', dict(spec=spec)))
  jobs.append(('registry', {}))
  nat = [dict(module=m, cls=cname, kwargs=kw) for (m, cname), lst in ROUNDTRIPS.items() for kw in lst]
  nat += [dict(lf) for lf in LAYER_FUNCTIONS]
  # layers holding other layers: sublayers with auto-generated names, and DISTINCT sublayers sharing one explicit name
  L_ = lambda m, c, **k: {'__layer__': [m, c, k]}
  for names in ((None, None, None), ('calibrator', 'calibrator', 'calibrator')):
    subs = [L_('pwl_calibration_layer', 'PWLCalibration', input_keypoints=[0.0, 0.5, 1.0], output_min=0.0, output_max=1.0,
               monotonicity='increasing', **({'name': names[0]} if names[0] else {})),
            L_('pwl_calibration_layer', 'PWLCalibration', input_keypoints=[0.0, 0.25, 0.5, 1.0],
               **({'name': names[1]} if names[1] else {})),
            L_('pwl_calibration_layer', 'PWLCalibration', input_keypoints=[0.0, 1.0], output_min=-1.0,
               **({'name': names[2]} if names[2] else {}))]
    for single in (True, False):
      nat.append(dict(module='parallel_combination_layer', cls='ParallelCombination',
                      kwargs=dict(calibration_layers=subs, single_output=single), input_shape=[None, 3]))
  nat.append(dict(module='aggregation_layer', cls='Aggregation', kwargs=dict(model={'__model__': dict(input_dim=2, layers=[
      L_('linear_layer', 'Linear', num_input_dims=2, monotonicities=['increasing', 'none'], use_bias=False)])})))
  jobs.append(('native_roundtrip', dict(jobs=nat)))
  return jobs


EVIDENCE = {
    'level': 'other',
    'explanation': (
        'Decided for ALL instances (AST, instance-independent): for each of the 27 Keras classes with get_config, every returned '
        'key is a constructor parameter, every constructor parameter is returned, and the value under key k is read from the '
        'attribute __init__ sets from parameter k - hence cls(**get_config()) cannot raise TypeError and no argument is silently '
        'dropped. Executed on enumerated constructor arguments (real get_config / from_config, Keras stub): rebuilding succeeds '
        'and yields an equal config; rebuilt layers given the same weights produce structurally identical symbolic outputs; '
        'tfl.configs objects round-trip through their nested (de)serialisation. NOT decided: the serialisation of Keras itself, '
        'machinery, model.save/load_model, and "at any point of training" (histories / crash points have no contract shape).'),
    'rule': 'one obligation = (class, key or parameter) for the key contract; (class, constructor arguments, clause) for executions',
    'bounds': '27 classes; 1-4 constructor-argument tuples per class with every optional argument set to a non-default value at '
              'least once; 10 config-object specifications',
    'exhaustive_tiers': {'quick': False, 'thorough': False},
    'trusted_base': ['Keras stub (Layer.from_config = cls(**config), initializers/regularizers serialize/get)', 'Python ast'],
    'assumptions': ['real Keras (de)serialisation of nested objects behaves like the stub',
                    'premade Keras models (save / load_model) are not exercised'],
}

if __name__ == '__main__':
  import sys
  from vt import prop
  sys.exit(prop.main(sys.modules[__name__]))
