"""Spec functions for PWLCalibration kernels, from the property statements.

kernel: (num_keypoints, units); row 0 is the bias, rows 1.. are segment heights, so the
keypoint outputs are the cumulative sums y_i = sum_{k<=i} kernel[k].
"""
from vt.expr import P, B
from vt import expr as E


def _a(t):
  return t.a if hasattr(t, 'a') else t


def outputs(kernel):
  a = _a(kernel)
  n, U = a.shape
  ys = []
  for u in range(U):
    acc = P.const(0)
    col = []
    for i in range(n):
      acc = acc + P.lift(a[i, u])
      col.append(acc)
    ys.append(col)
  return ys   # ys[u][i]


def monotone(kernel, monotonicity, tag='monotone'):
  """Exact: every height has the sign of the configured direction."""
  a = _a(kernel)
  n, U = a.shape
  out = []
  if monotonicity == 0:
    return out
  for u in range(U):
    for i in range(1, n):
      h = P.lift(a[i, u])
      out.append(('%s[h%d,u%d]' % (tag, i, u), (h >= 0) if monotonicity == 1 else (h <= 0)))
  return out


def heights_monotone(heights, monotonicity, tag='monotone'):
  a = _a(heights)
  out = []
  if monotonicity == 0:
    return out
  for u in range(a.shape[1]):
    for i in range(a.shape[0]):
      h = P.lift(a[i, u])
      out.append(('%s[h%d,u%d]' % (tag, i + 1, u), (h >= 0) if monotonicity == 1 else (h <= 0)))
  return out


def in_bounds(kernel, output_min, output_max, tag='bounds'):
  out = []
  for u, col in enumerate(outputs(kernel)):
    for i, y in enumerate(col):
      if output_min is not None:
        out.append(('%s-min[y%d,u%d]' % (tag, i, u), y >= output_min))
      if output_max is not None:
        out.append(('%s-max[y%d,u%d]' % (tag, i, u), y <= output_max))
  return out


def convex_heights(heights, lengths, convexity, tag='convex'):
  """conv * (h[i+1]/l[i+1] - h[i]/l[i]) >= 0, multiplied through by l[i]*l[i+1] > 0."""
  a = _a(heights)
  l = _a(lengths)
  out = []
  if convexity == 0:
    return out
  for u in range(a.shape[1]):
    for i in range(a.shape[0] - 1):
      lhs = P.lift(a[i + 1, u]) * P.lift(l[i]) - P.lift(a[i, u]) * P.lift(l[i + 1])
      out.append(('%s[h%d,u%d]' % (tag, i + 1, u), lhs * convexity >= 0))
  return out


def convex(kernel, lengths, convexity, tag='convex'):
  a = _a(kernel)
  return convex_heights(a[1:], lengths, convexity, tag)


def clamps(kernel, monotonicity, output_min, output_max, clamp_min, clamp_max, tag='clamp'):
  """A clamped bound is reached: for a monotone calibrator at the corresponding end point."""
  out = []
  for u, col in enumerate(outputs(kernel)):
    lo_end, hi_end = (col[0], col[-1]) if monotonicity == 1 else (col[-1], col[0])
    if clamp_min and output_min is not None:
      out.append(('%s-min[u%d]' % (tag, u), lo_end.eq(output_min)))
    if clamp_max and output_max is not None:
      out.append(('%s-max[u%d]' % (tag, u), hi_end.eq(output_max)))
  return out


def positive(lengths, tag='length>0'):
  l = _a(lengths)
  return [('%s[%d]' % (tag, i), P.lift(l[i]) > 0) for i in range(l.shape[0])]
