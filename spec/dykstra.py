"""Constraint groups of the iterative (Dykstra) projection, as linear rows `a . w >= 0` over the
shaped kernel (lattice sizes, plus a trailing unit dimension when units > 1), and the exact
Euclidean projection onto a group of rows with pairwise disjoint supports:

    P(w) = w + sum_rows  max(0, -(a . w)) / |a|^2 * a

(each row is an independent half-space; KKT multiplier max(0, -(a.w))/|a|^2 >= 0, complementary).
Written from the property text and the class docstrings; nothing here calls into /repo.
"""
import itertools
from fractions import Fraction as Fr

from vt import expr as E
from vt.expr import P


def _all_idx(shape):
  return itertools.product(*[range(s) for s in shape])


def _at(w, idx):
  return P.lift(w.a[tuple(idx)])


def _shift(idx, d, k=1):
  v = list(idx)
  v[d] += k
  return tuple(v)


def _set(idx, d, k):
  v = list(idx)
  v[d] = k
  return tuple(v)


def rows_monotonicity(w, shape, monotonicities, unimodalities, dim, group):
  rows = []
  for v in _all_idx(shape):
    if v[dim] % 2 != group or v[dim] + 1 >= shape[dim]:
      continue
    lo, hi = _at(w, v), _at(w, _shift(v, dim))
    if monotonicities[dim] == 1:
      rows.append(hi - lo)
    if unimodalities[dim] != 0:
      first = v[dim] < shape[dim] // 2
      increasing = (unimodalities[dim] == 1 and not first) or (unimodalities[dim] == -1 and first)
      rows.append((hi - lo) if increasing else (lo - hi))
  return rows


def rows_edgeworth(w, shape, trust, group):
  main, cond, direction = trust
  rows = []
  for v in _all_idx(shape):
    if v[main] + 1 >= shape[main] or v[cond] + 1 >= shape[cond]:
      continue
    # parities are taken after the conditional axis has been reversed for a negative direction
    j = v[cond] if direction > 0 else (shape[cond] - 2 - v[cond])
    if v[main] % 2 != group[0] or j % 2 != group[1]:
      continue
    vc = _shift(v, cond)
    lo = _at(w, _shift(v, main)) - _at(w, v)
    hi = _at(w, _shift(vc, main)) - _at(w, vc)
    rows.append((hi - lo) * direction)
  return rows


def rows_trapezoid(w, shape, trust, group):
  main, cond, direction = trust
  top = shape[main] - 1
  rows = []
  for v in _all_idx(shape):
    if v[cond] + 1 >= shape[cond]:
      continue
    # the code reverses the conditional axis for a negative direction before taking parities
    j = v[cond] if direction > 0 else (shape[cond] - 2 - v[cond])
    if j % 2 != group:
      continue
    vc = _shift(v, cond)
    if v[main] == 0:
      rows.append((_at(w, v) - _at(w, vc)) * direction)
    if v[main] == top:
      rows.append((_at(w, vc) - _at(w, v)) * direction)
  return rows


def rows_monotonic_dominance(w, shape, pair, group):
  dom, weak = pair
  rows = []
  for v in _all_idx(shape):
    if (v[dom] % 2 != group[0] or v[weak] % 2 != group[1] or v[dom] + 1 >= shape[dom] or
        v[weak] + 1 >= shape[weak]):
      continue
    k00, k10 = _at(w, v), _at(w, _shift(v, dom))
    k01, k11 = _at(w, _shift(v, weak)), _at(w, _shift(_shift(v, dom), weak))
    rows.append((k10 * 2 - k00 - k11) if group[2] == 1 else (k00 + k11 - k01 * 2))
  return rows


def rows_joint_monotonicity(w, shape, pair, group):
  d1, d2 = pair
  rows = []
  for v in _all_idx(shape):
    if (v[d1] % 2 != group[0] or v[d2] % 2 != group[1] or v[d1] + 1 >= shape[d1] or
        v[d2] + 1 >= shape[d2]):
      continue
    k00, k10 = _at(w, v), _at(w, _shift(v, d1))
    k01, k11 = _at(w, _shift(v, d2)), _at(w, _shift(_shift(v, d1), d2))
    rows.append((k11 * 2 - k10 - k01) if group[2] == 1 else (k10 + k01 - k00 * 2))
  return rows


def rows_range_dominance(w, shape, pair, group):
  dom, weak = pair
  i, j = group
  rows = []
  for v in _all_idx(shape):
    if v[dom] != i or v[weak] != j:
      continue
    dom_range = _at(w, _set(v, dom, shape[dom] - 1)) - _at(w, _set(v, dom, 0))
    weak_range = _at(w, _set(v, weak, shape[weak] - 1)) - _at(w, _set(v, weak, 0))
    rows.append(dom_range - weak_range)
  return rows


def coefficients(row):
  """Linear form -> {atom id: coefficient}; None if the row is not linear and homogeneous."""
  out = {}
  for m, c in row.t.items():
    if len(m) != 1 or m[0][1] != 1:
      return None
    out[m[0][0]] = c
  return out


def disjoint_supports(rows):
  seen = set()
  for r in rows:
    cs = coefficients(r)
    if cs is None:
      return False
    if seen & set(cs):
      return False
    seen |= set(cs)
  return True


def exact_projection(w, rows):
  """Object array (same shape as w) of the Euclidean projection of w onto {a.w >= 0 for rows}."""
  import numpy as np
  delta = {}
  for r in rows:
    cs = coefficients(r)
    if not cs:
      continue
    norm2 = sum(c * c for c in cs.values())
    lam = E.pmax(0, -r) / norm2
    for aid, c in cs.items():
      delta[aid] = delta.get(aid, P.const(0)) + lam * c
  out = np.empty(w.a.shape, dtype=object)
  for idx in np.ndindex(*w.a.shape):
    v = P.lift(w.a[idx])
    (m, _), = v.t.items()
    out[idx] = v + delta.get(m[0][0], P.const(0))
  return out
