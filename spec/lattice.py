"""Spec functions for Lattice kernels, written from the property statements.

A kernel is a `(prod(sizes), units)` tensor, vertices flattened row-major.  Every
function returns a list of named clauses `(name, formula)`; one clause per
inequality, per unit.  Nothing here calls into /repo.
"""
import itertools

import numpy as np

from vt.expr import P, B
from vt import expr as E


def strides(sizes):
  st = [1] * len(sizes)
  for i in range(len(sizes) - 2, -1, -1):
    st[i] = st[i + 1] * sizes[i + 1]
  return st


def flat(sizes, v):
  return sum(x * s for x, s in zip(v, strides(sizes)))


def vertices(sizes):
  return itertools.product(*[range(s) for s in sizes])


def K(kernel, sizes, v, u):
  """kernel may be a (n, units) object array or a tensor reshaped to sizes(+units)."""
  a = kernel.a if hasattr(kernel, 'a') else kernel
  if a.ndim == 2 and a.shape[0] == int(np.prod(sizes)):
    return P.lift(a[flat(sizes, v), u])
  # shaped kernel: sizes + [units] when units > 1, else sizes
  if a.ndim == len(sizes) + 1:
    return P.lift(a[tuple(v) + (u,)])
  if u != 0:
    raise IndexError('unit %d of a single-unit shaped kernel' % u)
  return P.lift(a[tuple(v)])


def units_of(kernel, sizes):
  a = kernel.a if hasattr(kernel, 'a') else kernel
  if a.ndim == 2 and a.shape[0] == int(np.prod(sizes)):
    return a.shape[1]
  if a.ndim == len(sizes) + 1:
    return a.shape[-1]
  return 1


def _plus(v, d, k=1):
  w = list(v)
  w[d] += k
  return tuple(w)


def mono(kernel, sizes, monotonicities, tag='mono'):
  out = []
  U = units_of(kernel, sizes)
  for d, m in enumerate(monotonicities or []):
    if m != 1:
      continue
    for v in vertices(sizes):
      if v[d] + 1 >= sizes[d]:
        continue
      for u in range(U):
        out.append(('%s[d%d,v%s,u%d]' % (tag, d, list(v), u),
                    K(kernel, sizes, v, u) <= K(kernel, sizes, _plus(v, d), u)))
  return out


def unimodal(kernel, sizes, unimodalities, tag='unimodal'):
  """1: valley (decreasing then increasing around the centre index size//2), -1: peak."""
  out = []
  U = units_of(kernel, sizes)
  for d, m in enumerate(unimodalities or []):
    if m == 0:
      continue
    for v in vertices(sizes):
      if v[d] + 1 >= sizes[d]:
        continue
      first = v[d] < sizes[d] // 2
      for u in range(U):
        a, b = K(kernel, sizes, v, u), K(kernel, sizes, _plus(v, d), u)
        inc = (m == 1 and not first) or (m == -1 and first)
        out.append(('%s[d%d,v%s,u%d]' % (tag, d, list(v), u), (a <= b) if inc else (a >= b)))
  return out


def edgeworth(kernel, sizes, trusts, tag='edgeworth'):
  out = []
  U = units_of(kernel, sizes)
  for (main, cond, direction) in trusts or []:
    for v in vertices(sizes):
      if v[main] + 1 >= sizes[main] or v[cond] + 1 >= sizes[cond]:
        continue
      for u in range(U):
        lo = K(kernel, sizes, _plus(v, main), u) - K(kernel, sizes, v, u)
        vc = _plus(v, cond)
        hi = K(kernel, sizes, _plus(vc, main), u) - K(kernel, sizes, vc, u)
        out.append(('%s[m%d,c%d,%+d,v%s,u%d]' % (tag, main, cond, direction, list(v), u),
                    (hi - lo) * direction >= 0))
  return out


def trapezoid(kernel, sizes, trusts, tag='trapezoid'):
  out = []
  U = units_of(kernel, sizes)
  for (main, cond, direction) in trusts or []:
    top = sizes[main] - 1
    for v in vertices(sizes):
      if v[cond] + 1 >= sizes[cond]:
        continue
      vc = _plus(v, cond)
      for u in range(U):
        if v[main] == 0:
          out.append(('%s-low[m%d,c%d,%+d,v%s,u%d]' % (tag, main, cond, direction, list(v), u),
                      (K(kernel, sizes, v, u) - K(kernel, sizes, vc, u)) * direction >= 0))
        if v[main] == top:
          out.append(('%s-high[m%d,c%d,%+d,v%s,u%d]' % (tag, main, cond, direction, list(v), u),
                      (K(kernel, sizes, vc, u) - K(kernel, sizes, v, u)) * direction >= 0))
  return out


def in_bounds(kernel, sizes, output_min, output_max, tag='bounds'):
  out = []
  U = units_of(kernel, sizes)
  for v in vertices(sizes):
    for u in range(U):
      k = K(kernel, sizes, v, u)
      if output_min is not None:
        out.append(('%s-min[v%s,u%d]' % (tag, list(v), u), k >= output_min))
      if output_max is not None:
        out.append(('%s-max[v%s,u%d]' % (tag, list(v), u), k <= output_max))
  return out


def monotonic_dominance(kernel, sizes, dominances, tag='mono-dominance'):
  """Slope along the dominant dim >= slope along the weak dim on every triangle."""
  out = []
  U = units_of(kernel, sizes)
  for (dom, weak) in dominances or []:
    for v in vertices(sizes):
      if v[dom] + 1 >= sizes[dom] or v[weak] + 1 >= sizes[weak]:
        continue
      for u in range(U):
        k00 = K(kernel, sizes, v, u)
        k10 = K(kernel, sizes, _plus(v, dom), u)
        k01 = K(kernel, sizes, _plus(v, weak), u)
        k11 = K(kernel, sizes, _plus(_plus(v, dom), weak), u)
        # k10 - k00 >= k11 - k10  and  k11 - k01 >= k01 - k00
        out.append(('%s-a[%d>%d,v%s,u%d]' % (tag, dom, weak, list(v), u),
                    k10 * 2 >= k00 + k11))
        out.append(('%s-b[%d>%d,v%s,u%d]' % (tag, dom, weak, list(v), u),
                    k01 * 2 <= k00 + k11))
  return out


def range_dominance(kernel, sizes, dominances, tag='range-dominance'):
  """For every vertex (i along dom, j along weak, rest fixed): the output range obtained by
  sweeping the dominant feature (weak held at j) is at least the range obtained by sweeping
  the weak feature (dominant held at i)."""
  out = []
  U = units_of(kernel, sizes)
  for (dom, weak) in dominances or []:
    for v in vertices(sizes):
      for u in range(U):
        def at(**kw):
          w = list(v)
          for d, i in kw.items():
            w[int(d[1:])] = i
          return K(kernel, sizes, tuple(w), u)
        dom_range = (at(**{'d%d' % dom: sizes[dom] - 1}) - at(**{'d%d' % dom: 0}))
        weak_range = (at(**{'d%d' % weak: sizes[weak] - 1}) - at(**{'d%d' % weak: 0}))
        out.append(('%s[%d>%d,v%s,u%d]' % (tag, dom, weak, list(v), u), dom_range >= weak_range))
  return out


def joint_monotonicity(kernel, sizes, pairs, tag='joint-mono'):
  out = []
  U = units_of(kernel, sizes)
  for (d1, d2) in pairs or []:
    for v in vertices(sizes):
      if v[d1] + 1 >= sizes[d1] or v[d2] + 1 >= sizes[d2]:
        continue
      for u in range(U):
        k00 = K(kernel, sizes, v, u)
        k10 = K(kernel, sizes, _plus(v, d1), u)
        k01 = K(kernel, sizes, _plus(v, d2), u)
        k11 = K(kernel, sizes, _plus(_plus(v, d1), d2), u)
        out.append(('%s-lo[%d,%d,v%s,u%d]' % (tag, d1, d2, list(v), u), k11 * 2 >= k10 + k01))
        out.append(('%s-up[%d,%d,v%s,u%d]' % (tag, d1, d2, list(v), u), k00 * 2 <= k10 + k01))
  return out
