"""Lattice interpolation specs, written from the property statement.

Regions: per input dimension d either 'lo' (x_d <= 0), a cell k (k <= x_d <= k+1) or 'hi'
(x_d >= size_d - 1).  Closed regions overlap on their faces, so a statement proved on every
region also settles the faces (continuity).
"""
import itertools
from fractions import Fraction as Fr

from vt.expr import P
from vt import expr as E
from spec.lattice import flat


def regions(sizes, clip_inputs):
  per_dim = []
  for s in sizes:
    opts = list(range(s - 1))
    if clip_inputs:
      opts = ['lo'] + opts + ['hi']
    per_dim.append(opts)
  return list(itertools.product(*per_dim))


def region_bounds(sizes, region, names):
  b = {}
  for d, r in enumerate(region):
    if r == 'lo':
      b[names[d]] = (None, Fr(0))
    elif r == 'hi':
      b[names[d]] = (Fr(sizes[d] - 1), None)
    else:
      b[names[d]] = (Fr(r), Fr(r + 1))
  return b


def base_and_frac(sizes, region, xs):
  """Lower corner of the cell and the residual of the (clipped) point inside it."""
  base, t = [], []
  for d, r in enumerate(region):
    if r == 'lo':
      base.append(0)
      t.append(P.const(0))
    elif r == 'hi':
      base.append(sizes[d] - 2)
      t.append(P.const(1))
    else:
      base.append(r)
      t.append(P.lift(xs[d]) - r)
  return base, t


def multilinear(sizes, region, xs, kernel_col):
  """sum over the 2^d corners of prod_d (t_d or 1 - t_d) * K[corner]."""
  base, t = base_and_frac(sizes, region, xs)
  tot = P.const(0)
  for corner in itertools.product([0, 1], repeat=len(sizes)):
    w = P.const(1)
    for d, c in enumerate(corner):
      w = w * (t[d] if c else (1 - t[d]))
    v = [b + c for b, c in zip(base, corner)]
    tot = tot + w * P.lift(kernel_col[flat(sizes, v)])
  return tot


def hat_weights(sizes, region, xs):
  """Vertex weights w_v = prod_d max(0, 1 - |clip(x)_d - v_d|), resolved on the region."""
  base, t = base_and_frac(sizes, region, xs)
  out = {}
  for v in itertools.product(*[range(s) for s in sizes]):
    w = P.const(1)
    for d in range(len(sizes)):
      if v[d] == base[d]:
        w = w * (1 - t[d])
      elif v[d] == base[d] + 1:
        w = w * t[d]
      else:
        w = P.const(0)
        break
    out[flat(sizes, v)] = w
  return out


def simplex(sizes, region, xs, kernel_col, perm):
  """Sorted-simplex interpolation in the cell, for the ordering t[perm[0]] >= t[perm[1]] >= ..."""
  base, t = base_and_frac(sizes, region, xs)
  d = len(sizes)
  v = list(base)
  tot = P.lift(kernel_col[flat(sizes, v)]) * (1 - t[perm[0]])
  for k in range(d):
    v[perm[k]] += 1
    nxt = t[perm[k + 1]] if k + 1 < d else P.const(0)
    tot = tot + P.lift(kernel_col[flat(sizes, v)]) * (t[perm[k]] - nxt)
  return tot


def ordering_formula(sizes, region, xs, perm):
  base, t = base_and_frac(sizes, region, xs)
  fs = []
  for a, b in zip(perm, perm[1:]):
    fs.append(t[a] >= t[b])
  return E.ball(fs)
