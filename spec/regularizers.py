"""Documented regularization penalties, written from the property text / class docstrings."""
import itertools

from vt import expr as E
from vt.expr import P
from spec.lattice import K, vertices, units_of
from spec import pwl as SP


def _amounts(x, rank):
  if isinstance(x, (list, tuple)):
    return [P.lift(v) for v in x]
  return [P.lift(x)] * rank


def lattice_laplacian(kernel, sizes, l1, l2, terms=None):
  """sum_d ( l1[d] * sum |w[v+e_d] - w[v]| + l2[d] * sum (w[v+e_d] - w[v])^2 ), summed over units."""
  rank = len(sizes)
  a1, a2 = _amounts(l1, rank), _amounts(l2, rank)
  tot = P.const(0)
  for u in range(units_of(kernel, sizes)):
    for d in range(rank):
      for v in vertices(sizes):
        if v[d] + 1 >= sizes[d]:
          continue
        w = list(v)
        w[d] += 1
        diff = K(kernel, sizes, tuple(w), u) - K(kernel, sizes, v, u)
        t1, t2 = a1[d] * E.pabs(diff), a2[d] * diff * diff
        if terms is not None:
          terms.extend([t1, t2])
        tot = tot + t1 + t2
  return tot


def lattice_torsion(kernel, sizes, l1, l2, terms=None):
  """sum_{i<j} ( l1[i]*l1[j] * sum |twist| + l2[i]*l2[j] * sum twist^2 ) over all 2x2 squares;
  a scalar amount l weights every pair by l itself."""
  rank = len(sizes)
  tot = P.const(0)

  def pair_weight(x, i, j):
    if isinstance(x, (list, tuple)):
      return P.lift(x[i]) * P.lift(x[j])
    return P.lift(x)
  for u in range(units_of(kernel, sizes)):
    for i in range(rank):
      for j in range(i + 1, rank):
        for v in vertices(sizes):
          if v[i] + 1 >= sizes[i] or v[j] + 1 >= sizes[j]:
            continue
          def at(di, dj):
            w = list(v)
            w[i] += di
            w[j] += dj
            return K(kernel, sizes, tuple(w), u)
          twist = at(0, 0) + at(1, 1) - at(0, 1) - at(1, 0)
          t1 = pair_weight(l1, i, j) * E.pabs(twist)
          t2 = pair_weight(l2, i, j) * twist * twist
          if terms is not None:
            terms.extend([t1, t2])
          tot = tot + t1 + t2
  return tot


def _points(kernel, is_cyclic):
  """Keypoint outputs per unit; for a cyclic calibrator they form a closed cycle of n points."""
  return SP.outputs(kernel)


def pwl_differences(kernel, order, is_cyclic):
  """order-th finite differences of the keypoint outputs (all cyclic shifts when is_cyclic)."""
  coeff = {1: [-1, 1], 2: [1, -2, 1], 3: [-1, 3, -3, 1]}[order]
  out = []
  for col in _points(kernel, is_cyclic):
    n = len(col)
    if is_cyclic:
      starts = range(n)
      get = lambda k, col=col, n=n: col[k % n]
    else:
      starts = range(n - order)
      get = lambda k, col=col: col[k]
    for s in starts:
      d = P.const(0)
      for t, c in enumerate(coeff):
        d = d + get(s + t) * c
      out.append(d)
  return out


def pwl_penalty(kernel, order, l1, l2, is_cyclic, terms=None):
  tot = P.const(0)
  for d in pwl_differences(kernel, order, is_cyclic):
    t1, t2 = P.lift(l1) * E.pabs(d), P.lift(l2) * d * d
    if terms is not None:
      terms.extend([t1, t2])
    tot = tot + t1 + t2
  return tot
