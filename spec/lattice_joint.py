"""Joint unimodality feasibility.

The property text gives no formula for joint unimodality; the only definition is the
one in lattice_lib's docstring: for every vertex of the constrained sub-lattice other
than the centre (size // 2 per dimension) and every adjacent hypercube (offsets in
{-1, +1}^k, skipped when it leaves the lattice), the finite-difference derivative along
the direction `vertex - centre` is >= 0 for 'valley' and <= 0 for 'peak'.  It is used
only as the *hypothesis* of "a feasible kernel is returned unchanged".
"""
import itertools

from spec.lattice import K, units_of, vertices


def joint_unimodality(kernel, sizes, joint_unimodalities, tag='joint-unimodal'):
  out = []
  U = units_of(kernel, sizes)
  for (dims, direction) in joint_unimodalities or []:
    dims = list(dims)
    centre = [sizes[d] // 2 for d in dims]
    for v in vertices(sizes):
      sub = [v[d] for d in dims]
      if sub == centre:
        continue
      for offs in itertools.product([-1, 1], repeat=len(dims)):
        terms = []
        ok = True
        for k, d in enumerate(dims):
          wgt = sub[k] - centre[k]
          if wgt == 0:
            continue
          nb = list(v)
          nb[d] += offs[k]
          if nb[d] < 0 or nb[d] >= sizes[d]:
            ok = False
            break
          terms.append((wgt * offs[k], tuple(nb)))
        if not ok or not terms:
          continue
        for u in range(U):
          s = 0
          for c, nb in terms:
            s = s + (K(kernel, sizes, nb, u) - K(kernel, sizes, v, u)) * c
          if str(direction).lower() == 'valley':
            out.append(('%s[%s,v%s,o%s,u%d]' % (tag, dims, list(v), list(offs), u), s >= 0))
          else:
            out.append(('%s[%s,v%s,o%s,u%d]' % (tag, dims, list(v), list(offs), u), s <= 0))
  return out
