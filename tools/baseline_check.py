#!/usr/bin/env python3
"""Runs the repository's pinned baseline (guard off) and compares with BASELINE.json's stable_pass."""
import json, os, subprocess, sys, tempfile, xml.etree.ElementTree as ET
b = json.load(open('/root/.vp/BASELINE.json'))
want = set(b['stable_pass'])
with tempfile.TemporaryDirectory() as td:
  x = os.path.join(td, 'r.xml')
  cmd = b['cmd'].replace('<file>', x)
  env = dict(os.environ)
  env.pop('TENSORFLOW_LATTICE_VERIF', None)
  pr = subprocess.run(cmd, shell=True, env=env, capture_output=True, text=True)
  got = set()
  for tc in ET.parse(x).getroot().iter('testcase'):
    if not any(ch.tag in ('failure', 'error', 'skipped') for ch in tc):
      got.add('%s::%s' % (tc.get('classname'), tc.get('name')))
missing = sorted(want - got)
print('stable_pass %d, passing now %d, stable tests not passing now: %d' % (len(want), len(got), len(missing)))
for m in missing[:20]:
  print('  NOT PASSING:', m)
sys.exit(1 if missing else 0)
