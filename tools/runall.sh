#!/bin/sh
# Runs every claimed quick check once; prints one summary line per property.
cd "$(dirname "$0")/.."
for id in $(.venv/bin/python -c "
import json;print(' '.join(c['property_id'] for c in json.load(open('MANIFEST.json'))['checks']))"); do
  out=$(./check $id --tier quick 2>&1); rc=$?
  echo "$id exit=$rc $(echo "$out" | tail -1 | cut -c1-220)"
done
