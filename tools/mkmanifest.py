#!/usr/bin/env python3
"""Regenerates MANIFEST.json from the per-property tables below and validates it."""
import json, os, sys
ROOT = os.path.dirname(os.path.dirname(os.path.abspath(__file__)))
sys.path.insert(0, ROOT)
from tools.claims import CLAIMS, NOT_APPLICABLE

BASE = json.load(open('/root/.vp/BASELINE.json'))['cmd'] if os.path.exists('/root/.vp/BASELINE.json') else ''

m = {
    'version': 1,
    'setup_cmd': './setup.sh',
    'hooks': {
        'guard': 'TENSORFLOW_LATTICE_VERIF',
        'enable': 'no hooks are needed: contracts live in /verif (sidecar), the checks import the real '
                  'sources from /repo with tensorflow bound to the contract library',
        'baseline_off_cmd': 'cd /repo && /venv/bin/python -m pytest -ra -q -p no:cacheprovider --timeout=900 '
                            '--continue-on-collection-errors',
        'source_commits': [],
        'add_only': True,
    },
    'engines': [{
        'name': 'vt',
        'path': 'vt/',
        'serves_properties': [c['property_id'] for c in CLAIMS],
        'kind_free_text': 'contract-based deductive verifier for the real Python/TensorFlow function bodies: '
                          'tf.* rebound to operator contracts over exact reals, sidecar pre/postconditions, '
                          'callees replaced by their contracts, obligations discharged by z3 then cvc5, '
                          'counterexamples replayed on real TensorFlow',
    }, {
        'name': 'lean-counting-lemmas',
        'path': 'lean/',
        'serves_properties': ['C17'],
        'kind_free_text': 'Lean 4 / Mathlib proofs of the counting lemmas used by the ghost-state argument of C17 (usage counts '
                          'under a bijective relabelling and under k copies of a shuffled list); re-checked by `lake env lean` on '
                          'every run of ./check C17',
    }],
    'checks': [],
    'not_applicable': NOT_APPLICABLE,
    'notes': 'Every check: ./check <id> --tier quick|thorough. Exit 0 held, 1 violation, 2 undecided, 3 checker error.',
}
for c in CLAIMS:
  m['checks'].append({
      'property_id': c['property_id'],
      'quick_cmd': './check %s --tier quick' % c['property_id'],
      'thorough_cmd': './check %s --tier thorough' % c['property_id'],
      'evidence_file': 'evidence/%s.json' % c['property_id'],
      'replay_cmd_template': './check %s --replay {path}' % c['property_id'],
      'engine': 'vt',
      'level_claimed': {'category': c['level'], 'text': c['text'], 'design_ref': c.get('design_ref', '')},
      'level_note': c['note'],
      'technique': c['technique'],
  })
json.dump(m, open(os.path.join(ROOT, 'MANIFEST.json'), 'w'), indent=1)
try:
  import jsonschema
  jsonschema.validate(m, json.load(open('/root/.vp/MANIFEST.schema.json')))
  ids = [l and json.loads(l)['id'] for l in open(os.path.join(ROOT, 'properties.jsonl')) if l.strip()]
  claimed = {c['property_id'] for c in CLAIMS}
  na = {n['property_id'] for n in NOT_APPLICABLE}
  missing = [i for i in ids if i not in claimed and i not in na]
  assert not missing, 'properties neither claimed nor not_applicable: %s' % missing
  assert not (claimed & na)
  print('MANIFEST.json valid: %d claimed, %d not_applicable' % (len(claimed), len(na)))
except ImportError:
  print('jsonschema not available; written without validation')
