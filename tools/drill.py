#!/usr/bin/env python3
"""Mutation drill: applies each deliberate property-breaking edit to a scratch copy of /repo
(outside /repo and /verif), runs the named check against it and records whether a named
obligation went red.  Usage: tools/drill.py [--only substr] [--tier quick]"""
import argparse, json, os, shutil, subprocess, sys, tempfile, time
ROOT = os.path.dirname(os.path.dirname(os.path.abspath(__file__)))
MUT = json.load(open(os.path.join(ROOT, 'tools', 'drill_mutations.json')))

ap = argparse.ArgumentParser()
ap.add_argument('--only', default=None)
ap.add_argument('--tier', default='quick')
ap.add_argument('--extra', default='', help='extra args for the check, e.g. "--limit 200"')
a = ap.parse_args()
scratch = tempfile.mkdtemp(prefix='vt_drill_')
out = []
try:
  for m in MUT:
    if a.only and a.only not in m['name'] and a.only not in m['property']:
      continue
    repo = os.path.join(scratch, 'repo')
    if os.path.exists(repo):
      shutil.rmtree(repo)
    shutil.copytree('/repo', repo, ignore=shutil.ignore_patterns('.git', '__pycache__', '*.pyc'))
    path = os.path.join(repo, m['file'])
    src = open(path).read()
    if src.count(m['old']) != m.get('count', 1):
      out.append((m['name'], 'MUTATION-DOES-NOT-APPLY (%d matches)' % src.count(m['old'])))
      print(out[-1], flush=True)
      continue
    open(path, 'w').write(src.replace(m['old'], m['new']))
    env = dict(os.environ, VT_REPO=repo, VT_OUT=os.path.join(scratch, 'out'))
    t0 = time.time()
    pr = subprocess.run([os.path.join(ROOT, 'check'), m['property'], '--tier', a.tier] + a.extra.split(),
                        env=env, capture_output=True, text=True)
    lines = [l for l in pr.stdout.splitlines() if l.startswith('VIOLATION')]
    tail = pr.stdout.strip().splitlines()[-1:] if pr.stdout.strip() else [pr.stderr[-300:]]
    if m.get('expect') == 'harmless':
      verdict = 'DETECTED' if pr.returncode == 0 and not lines else 'FALSE-ALARM(exit %d)' % pr.returncode
      verdict = verdict.replace('DETECTED', 'DETECTED-AS-HARMLESS')
    else:
      verdict = 'DETECTED' if pr.returncode == 1 and lines else 'MISSED(exit %d)' % pr.returncode
    out.append((m['name'], verdict, lines[:1], tail))
    print(m['name'], verdict, '%.0fs' % (time.time() - t0), (lines[:1] or tail)[0][:260], flush=True)
finally:
  shutil.rmtree(scratch, ignore_errors=True)
missed = [o for o in out if not o[1].startswith('DETECTED')]
print('%d mutations, %d detected, %d not' % (len(out), len(out) - len(missed), len(missed)))
sys.exit(1 if missed else 0)
