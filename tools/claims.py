"""Per-property claims for MANIFEST.json (kept in one place; tools/mkmanifest.py writes the file)."""

CLAIMS = [
    {
        'property_id': 'C01',
        'level': 'other',
        'technique': 'contract-based deductive verification of the real function bodies (sidecar contracts, '
                     'VCs to z3/cvc5), per discrete configuration',
        'text': 'Every strict-constraint clause (monotonicity, Edgeworth, trapezoid, bounds, feasible=>unchanged) is a '
                'postcondition on the real LatticeConstraints.__call__, finalize_constraints and the four '
                '_approximately_project_* helpers; each is discharged for ALL real kernels, symbolic bounds and any '
                'number of Dykstra iterations, per enumerated configuration. Not `proof`: one obligation family is '
                'refuted on the unchanged tree (known finding F-C01) and configurations are bounded.',
        'note': 'Trusted: operator contracts for tf.* (cross-checked against TensorFlow on every run), Keras stub, '
                'z3/cvc5, reals for floats, project_by_dykstra contract (proved in C08). Bounded: rank<=3, sizes<=3/4, units<=2, <=2 trusts of each kind.',
        'design_ref': 'DESIGN.md section 4 C01',
    },
    {
        'property_id': 'C04',
        'level': 'other',
        'technique': 'contract-based deductive verification of the real function bodies (sidecar contracts, loop '
                     'contract for tf.while_loop, VCs to z3/cvc5), per discrete configuration',
        'text': 'Exact monotonicity, bounds, convexity (symbolic positive keypoint spacing), clamps and feasible=>unchanged '
                'are postconditions on the real project_all_constraints, _finalize_constraints, the five projection helpers, '
                'PWLCalibrationConstraints.__call__ and NaiveBoundsConstraints.__call__; discharged for ALL real kernels and '
                'symbolic bounds, for 0/1/2 iterations by exact unrolling and for every count >= 1 through the loop contract. '
                'Not `proof`: three obligation families are refuted on the unchanged tree (known findings F-C04a/b).',
        'note': 'Trusted: operator contracts for tf.* incl. while_loop (cross-checked against TensorFlow each run), z3/cvc5, '
                'reals for floats. Bounded: keypoints<=4 quick/6 thorough, units<=2; clamps/feasible=>unchanged decided for '
                'iteration counts 0..2 only (loop abstraction forgets Dykstra increments).',
        'design_ref': 'DESIGN.md section 4 C04',
    },
    {
        'property_id': 'C06',
        'level': 'proof',
        'technique': 'contract-based deductive verification of the real function bodies (sidecar contracts, VCs to '
                     'z3/cvc5), per discrete configuration; _topological_sort evaluated on enumerated pair sets',
        'text': 'Sign, monotonic-dominance, range-dominance, unit-norm, categorical ordering, bounds and '
                'feasible=>unchanged clauses are postconditions on the real linear_lib.project, '
                'categorical_calibration_lib.project, approximately_project_categorical_partial_monotonicities and the '
                'two constraint __call__ methods; discharged for ALL real weights and symbolic bounds per configuration.',
        'note': 'Trusted: operator contracts (cross-checked each run), sqrt axiom for the 2-norm, z3/cvc5, reals for '
                'floats. Bounded: DAGs on <= 4 nodes, linear dims <= 3/4, <= 2 dominance pairs, concrete input ranges, units <= 2.',
        'design_ref': 'DESIGN.md section 4 C06',
    },
    {
        'property_id': 'C12',
        'level': 'proof',
        'technique': 'contract-based deductive verification: real assert_constraints bodies run on symbolic weights '
                     'and symbolic eps, recorded tf.Assert conditions proved equivalent to the index-by-index spec (z3/cvc5)',
        'text': 'For the lattice, PWL, linear, categorical and Kronecker-factored assert_constraints library functions, and for '
                'the layer methods Lattice / PWLCalibration / CategoricalCalibration / KroneckerFactoredLattice / RTL.'
                'assert_constraints (hyperparameter forwarding, on the layer built by the real build()): (1) the call returning '
                'implies every covered constraint has slack >= -2*eps, (2) every covered constraint holding implies the '
                'call returns - for ALL weight tensors and all eps > 0, per enumerated configuration. Three genuine defects '
                'found by these obligations were repaired by fix: commits.',
        'note': 'Trusted: operator contracts incl. tf.Assert (scalar-boolean precondition) cross-checked on accept/raise '
                'outcome against TensorFlow each run, z3/cvc5, reals for floats. Bounded configuration enumeration. '
                'Layer-level cases are a dozen enumerated layer configurations.',
        'design_ref': 'DESIGN.md section 4 C12',
    },
    {
        'property_id': 'C13',
        'level': 'proof',
        'technique': 'contract-based deductive verification: real regularizer bodies on symbolic kernels/amounts, result '
                     'proved equal to the documented sums (exact polynomial normal form over |L| atoms, then z3/cvc5)',
        'text': 'lattice_lib.laplacian_regularizer / torsion_regularizer, the two Lattice regularizer classes and the three PWL '
                'regularizer classes each carry the postcondition out == documented penalty (index-by-index spec, scalar '
                'and per-dimension amounts, cyclic wrap-around); corollaries (non-negative, linear in l1/l2, vanishing '
                'cases) are lemmas over the spec. All obligations discharged for all kernels and all amounts > 0 / == 0.',
        'note': 'Trusted: operator contracts (cross-checked each run), math.sqrt axiom, z3/cvc5, reals for floats. Bounded: '
                'ranks 1-4 with unequal sizes, units <= 2, PWL rows 2-5 (quick) / 2-7 (thorough).',
        'design_ref': 'DESIGN.md section 4 C13',
    },
    {
        'property_id': 'C02',
        'level': 'proof',
        'technique': 'contract-based deductive verification: real interpolation bodies on symbolic inputs/kernels, region-wise '
                     'equality with the multilinear / sorted-simplex spec (exact polynomial normal form, then z3/cvc5); path '
                     'oracles for sort / float->int cast',
        'text': 'compute_interpolation_weights, batch_outer_operation, evaluate_with_hypercube_interpolation, '
                'evaluate_with_simplex_interpolation and Lattice.call carry the postcondition "on every closed region the output '
                'equals the spec interpolation of the cell corners"; proved for ALL kernels and ALL real inputs (regions cover '
                'R^d incl. faces, vertices, ties, out-of-range). Vertex reproduction, convex weights, bounds, scheme agreement on '
                'edges, monotone and Edgeworth inheritance are lemmas.',
        'note': 'Trusted: operator contracts incl. sort/cast oracles (cross-checked each run), Keras stub, z3/cvc5, reals for '
                'floats. Bounded: ranks 1-3 sizes <= 3 (4 thorough), units <= 2, batch <= 2, outer products up to 9 factors.',
        'design_ref': 'DESIGN.md section 4 C02',
    },
    {
        'property_id': 'C20',
        'level': 'proof',
        'technique': 'contract-based deductive verification: real Linear.build/call under a Keras stub on symbolic kernel, '
                     'bias and inputs; equality with the clipped affine spec (normal form, z3/cvc5); lemmas over the spec',
        'text': 'Linear.call carries the postcondition out[b,u] == bias_u + sum_i kernel[i,u]*clip(x_i) for units = 1 and > 1, '
                'every enumerated subset of bounded inputs, with/without bias - for ALL kernels, biases and inputs. '
                'Monotonicity, per-step and over-range dominance and the weighted-average statement are lemmas under the '
                'constraint set of C06.',
        'note': 'Trusted: operator contracts (clip_by_value with infinite bounds; cross-checked each run), Keras stub, z3/cvc5, '
                'reals for floats. Bounded: dims <= 3/4, units <= 3, batch <= 2.',
        'design_ref': 'DESIGN.md section 4 C20',
    },
    {
        'property_id': 'C05',
        'level': 'proof',
        'technique': 'contract-based deductive verification: real PWLCalibration / CategoricalCalibration call paths under a '
                     'Keras stub on symbolic kernels and inputs; segment-wise equality with the piecewise-linear spec (normal '
                     'form, z3/cvc5); softmax axioms for learned keypoints',
        'text': 'PWLCalibration.call, keypoints_inputs/outputs, compute_interpolation_weights and CategoricalCalibration.call '
                'carry postconditions equating the output with the function the weights describe (interpolation through the '
                'cumulative sums, constant outside, cyclic closing, per-unit broadcast, missing flag/value replacement, split '
                'outputs; category i -> row i, default -> last bucket) for ALL kernels and ALL real inputs; monotone/bounded '
                'consequences and ordered learned keypoints are lemmas.',
        'note': 'Trusted: operator contracts (cross-checked each run), Keras stub, softmax axioms, z3/cvc5, reals for floats. '
                'Bounded: 2-4/5 concrete keypoints (uniform and non-uniform), units <= 2, batch <= 2; evaluation of learned-interior '
                'layers covered only through the keypoint-ordering lemma.',
        'design_ref': 'DESIGN.md section 4 C05',
    },
    {
        'property_id': 'C07',
        'level': 'other',
        'technique': 'contract-based deductive verification: per-term facts as postconditions on the real KFL projection '
                     'functions and constraint classes, region-wise equality of the real evaluation with the Kronecker spec, '
                     'and a staged lemma (abstract product/scale lemmas instantiated) lifting the facts to the function',
        'text': 'For every sign pattern of scale (tf.sign path oracle), the kernel/scale constraints establish weights >= 0, '
                'sign-directed ordering along monotone dims, product of maxima <= 1 and the scale range; the real '
                'evaluate_with_hypercube_interpolation equals the spec on every region; the lemma derives monotone and '
                'bounded outputs for either update order. One genuine defect (bounds without monotonicity never projected) was '
                'found by these obligations and repaired by a fix: commit.',
        'note': 'Trusted: operator contracts incl. depthwise_conv2d, sign oracle, d-th root axiom (cross-checked each run), '
                'z3/cvc5, reals for floats, Keras applying both constraints after each update. Bounded: sizes <= 3/4, dims <= '
                '2/3, units <= 2, terms <= 2. Level other: composition of facts + lemma is argued in DESIGN, not one obligation.',
        'design_ref': 'DESIGN.md section 4 C07',
    },
    {
        'property_id': 'C19',
        'level': 'proof',
        'technique': 'contract-based deductive verification: the real grad_fn of custom_reduce_prod (exposed by the '
                     'tf.custom_gradient contract) against the partial-product spec per zero pattern; linearity-in-kernel '
                     'with interpolation-weight coefficients for Lattice / PWL / Categorical (exact normal form, z3/cvc5)',
        'text': 'grad[i] == dy * prod_{j != i} t_j and forward == prod for every enumerated zero pattern, shape and axis - for '
                'ALL values of the non-zero entries and of dy; layer outputs are affine in the kernel with kernel-free '
                'coefficients equal to the interpolation weights (>= 0, sum 1 for Lattice).',
        'note': 'Trusted: TensorFlow autodiff of standard ops (chain rule; derivative of an affine map), operator contracts, '
                'z3/cvc5, reals for floats. Bounded: tensors up to 2x3x2; small layer shapes.',
        'design_ref': 'DESIGN.md section 4 C19',
    },
    {
        'property_id': 'C09',
        'level': 'proof',
        'technique': 'contract-based deductive verification of non-interference (2-safety) on the symbolic result of the real '
                     'code: dependency obligations on canonical expressions plus agreement with the single-unit / single-row run',
        'text': 'For the five weight constraints, finalize_constraints and the Dykstra projection (0-2 iterations unrolled) and for '
                'the Lattice / PWL / Linear / KFL / ParallelCombination evaluation paths: each output element of unit u (row b) '
                'mentions only unit u (row b) parameters and inputs, and equals what the same code returns for that unit (row) '
                'alone - for ALL kernels and inputs.',
        'note': 'Trusted: operator contracts (axis/broadcast semantics), z3/cvc5, reals for floats. Bounded shapes; units 2-3, '
                'batch 2. Aggregation (ragged) and premade model graphs are not under contract.',
        'design_ref': 'DESIGN.md section 4 C09',
    },
    {
        'property_id': 'C15',
        'level': 'other',
        'technique': 'contract-based deductive verification: real pwl_calibration_fn / cdf_fn / CDF.call on free symbolic '
                     'parameters, softmax / sigmoid / exp / log uninterpreted under axioms, abstract product lemmas instantiated, '
                     'staged obligations; z3/cvc5',
        'text': 'Accepted call forms (incl. omitted interior keypoint parameters), output range, monotonicity for every pair '
                'x <= y, clamped ends, cyclic ends, missing value mapping for pwl_calibration_fn; [0,1] range and monotonicity for '
                'CDF / cdf_fn (relu6 and sigmoid, mean / none reductions, all scaling types) - for ALL parameter values. One '
                'genuine defect (None interior parameters rejected) found and repaired by a fix: commit.',
        'note': 'Trusted: operator contracts, axioms for softmax/sigmoid/exp/log, NonNeg constraint of Keras, z3/cvc5, reals for '
                'floats. Geometric-mean reduction: 0 < out <= 1 + eps via log/exp monotonicity instances at constant end points. Bounded: 2-3/4 '
                'keypoints, units <= 2, input_dim <= 2.',
        'design_ref': 'DESIGN.md section 4 C15',
    },
    {
        'property_id': 'C14',
        'level': 'other',
        'technique': 'contract-based deductive verification by symbolic execution of BOTH real code paths of each pair on shared '
                     'symbols and proof of equality (exact polynomial normal form per region, z3/cvc5 behind it)',
        'text': 'KroneckerFactoredLattice vs Lattice on the outer-product kernel, cdf_fn vs CDF (mean/none), pwl_calibration_fn '
                'vs PWLCalibration on the derived keypoints/kernel, ParallelCombination vs column-wise calibrators, RTL vs '
                'gathering its recorded indices - equal for ALL parameters and inputs. Aggregation (ragged) is not claimed.',
        'note': 'Trusted: operator contracts, Keras stub, z3/cvc5, reals for floats. Not covered: Aggregation over ragged '
                'tensors (no operator contract for tf.ragged.map_flat_values over a Keras model). Bounded shapes.',
        'design_ref': 'DESIGN.md section 4 C14',
    },
    {
        'property_id': 'C08',
        'level': 'other',
        'technique': 'contract-based deductive verification: tf.while_loop fixpoint contract for "feasible => unchanged for every '
                     'iteration count"; each real group step against the closed-form exact Euclidean projection (KKT form); '
                     'loop body against the Dykstra recurrence with opaque group projections; z3/cvc5',
        'text': 'Proved for all kernels per configuration: feasible kernels are fixed by project_by_dykstra and by the PWL '
                'projection for every iteration count; every _project_partial_* step of the families the property calls '
                '"nearest" is the exact Euclidean projection onto its group (range dominance: lands in its set and fixes '
                'feasible kernels); the body is the Dykstra recurrence and the groups cover every constraint row. The limit '
                'clauses (violation -> 0, limit = nearest point) are NOT decided: they follow by the cited Boyle-Dykstra theorem.',
        'note': 'Trusted: operator contracts incl. the while_loop fixpoint contract, z3/cvc5, reals for floats; Boyle-Dykstra '
                'theorem cited for convergence (not mechanised, no bounded stand-in built). Not covered: exactness of the PWL '
                'bounds-with-monotonicity step. Bounded shapes.',
        'design_ref': 'DESIGN.md section 4 C08',
    },
    {
        'property_id': 'C10',
        'level': 'other',
        'technique': 'contract-based deductive verification of the real initializers executed through the real layer builds: '
                     'random sources as contracts (uniform = fresh symbols in range, sort = abstract ordered contract, numpy '
                     'shuffle = enumerated oracle); concrete initializers evaluated exactly up to rounding; z3/cvc5',
        'text': 'Lattice linear / random-monotonic initial kernels, PWLCalibration equal-heights / equal-slopes kernels (library '
                'function with symbolic bounds and keypoints) and KroneckerFactoredLattice initial kernel/scale/bias satisfy the '
                'shape statements of the property and the feasibility hypotheses of C01/C04/C07/C12, for all random draws; '
                'where the initial kernel is concrete the real weight constraint is run on it and returns it unchanged. Every '
                'weight a PWL layer creates (incl. the learned missing output) and CategoricalCalibration initial kernels (ordering '
                'pairs, bounds, fixed under the constraint, for every outcome of the random initializer) are covered. One fix: commit '
                '(CategoricalCalibration started from a kernel violating its pairs).',
        'note': 'Trusted: operator contracts incl. random.uniform and the abstract sort contract, Keras stub, z3/cvc5. Concrete '
                'clauses are exact evaluations per enumerated configuration with a 1e-7 rounding tolerance. Bounded shapes.',
        'design_ref': 'DESIGN.md section 4 C10',
    },
    {
        'property_id': 'C16',
        'level': 'other',
        'technique': 'contract-based deductive verification of totality / finiteness for accepted configurations (definedness '
                     'obligations on the symbolic results of the real constraint and evaluation code), plus a bounded-exhaustive '
                     'evaluation of the validators on enumerated constructor arguments',
        'text': 'Accepted configurations: real projection and evaluation do not raise and every result element is defined (every '
                'reachable reciprocal non-zero unless masked, log/root arguments in domain) for ALL weights and inputs. Listed '
                'invalid combinations raise ValueError and only ValueError is raised (bounded enumeration, labelled bounded). '
                'Synonymous spellings give structurally identical behaviour. One known finding, two fix: commits.',
        'note': 'Trusted: operator contracts, Keras stub, z3/cvc5, reals for floats (overflow out of scope). The validator part is an '
                'exhaustive evaluation inside small argument domains, not a proof; premade verify_config and rtl_lib are not enumerated.',
        'design_ref': 'DESIGN.md section 4 C16',
    },
    {
        'property_id': 'C17',
        'level': 'other',
        'technique': 'contract-based deductive verification of RTL._get_rtl_structure for every seed (function cut mechanically '
                     'at its while loop: prefix under the shuffle contract with ghost state, loop invariant of the swap loop on '
                     'symbolic slots, suffix on every monotonicity pattern) + labelled bounded stand-in for the other builders',
        'text': 'RTL structure: rank-sized lattices, every feature used, usage counts within one, monotone slot wiring, lattice '
                'labelling and seeding hold for every permutation the shuffles can apply (shuffle contract + ghost counting, loop '
                'invariant, AST frame check); composition of the three segments argued in DESIGN.md. Random ensemble, pairs cover '
                'and Crystals are pure Python over lists of data-dependent length: labelled bounded, never counted as proved - numpy '
                'random calls replaced by an enumerated oracle, postconditions evaluated on every returned structure. One known '
                'finding (Crystals, zero-importance feature).',
        'note': 'Deductive part per (input groups, num_lattices, lattice_rank) configuration; counting lemma and composition applied '
                'outside the solver. Bounded part: <= 6 features, <= 5 lattices, rank <= 3; oracle outcomes exhaustive only for <= '
                '3-4 inputs; Crystals scores from a small grid. Trusted: numpy RandomState determinism, list.sort, itertools.',
        'design_ref': 'DESIGN.md section 4 C17',
    },
    {
        'property_id': 'C18',
        'level': 'exploration',
        'technique': 'bounded stand-in for contract-based verification: the postconditions of the statement attached to the real '
                     'compute_keypoints and evaluated on a complete small domain of arrays, weights and options',
        'text': 'Labelled bounded, never counted as proved: compute_keypoints / _weighted_quantile are numpy-internal and return '
                'arrays of data-dependent length; no contract within reach decides the property for all arrays. Every array in '
                '{0..3}^n (n <= 4/5) x weights x clip bounds x default x num_keypoints x modes x reductions is evaluated with all '
                'postconditions; helpers on small data sets. One genuine defect repaired (np.quantile keyword), one known finding '
                '(zero example weights at the extremes).',
        'note': 'Bounded enumeration; trusted: numpy. Empty data (all values equal to the default) excluded.',
        'design_ref': 'DESIGN.md section 4 C18',
    },
    {
        'property_id': 'C03',
        'level': 'other',
        'technique': 'contract-based deductive verification by composition: the real premade / RTL / ParallelCombination code is '
                     'executed symbolically with every layer call() replaced by an abstract relational contract (assert-pre / havoc / '
                     'assume-post); weights range over the image of the constraint contracts proved in C01/C04/C06/C07; VCs to z3/cvc5',
        'text': 'For ALL weights reachable through the attached constraints and ALL inputs, per enumerated model specification '
                '(calibrated linear / lattice / ensembles explicit and RTL / Kronecker-factored / output calibration / hand-assembled '
                'stacks): layer invariants of the layer hyperparameters, input-range preconditions of non-clipping lattices, end-to-end '
                'monotonicity per constrained feature, categorical pair order, output bounds incl. missing values. Abstract contracts of '
                'PWLCalibration / CategoricalCalibration / Linear are verified against the real call(); those of Lattice / KFL are cited '
                'from C02 / C07. Histories are reduced to weight states by the TRUSTED Keras protocol (constraint re-applied after each '
                'update). Two known findings (F-C03a zero-weight averaging layer leaves bounds that exclude 0; F-C03b consequence of '
                'F-C04a). Refutations are replayed by a bounded native search (hostile assignments + real constraints).',
        'note': 'Not decided: Keras optimizer protocol, Crystals / random ensemble training, AggregateFunction, learned keypoints, '
                'model specifications outside the enumerated ones. Bounded: <=4 features, sizes 2-3, 3 keypoints, 3 buckets.',
        'design_ref': 'DESIGN.md section 4 C03',
    },
    {
        'property_id': 'C11',
        'level': 'other',
        'technique': 'contract-based verification: key contract between __init__ and get_config of every class decided on the '
                     'AST for all instances; real get_config/from_config executed on enumerated arguments (Keras stub); bounded '
                     'native round trips under the real Keras labelled bounded',
        'text': 'For all instances: every get_config key is a constructor parameter, every constructor parameter is returned, each '
                'value comes from the attribute set from that parameter, and premade.get_custom_objects maps every public class to '
                'itself (or the owning module scopes it). Per enumerated argument tuple: rebuild succeeds with equal config; rebuilt '
                'layers with the same weights give structurally identical symbolic outputs. Bounded: the same round trips and a '
                'functional-model config round trip under the real Keras. Three genuine defects repaired (misspelled '
                'range_dominances key, missing missing_output_value, CDF not registered). NOT decided: model.save/load_model and '
                '"at any point of training" (histories, crash points).',
        'note': 'Trusted: Python ast, Keras stub / real Keras (de)serialisation. Argument tuples are enumerated, not exhaustive.',
        'design_ref': 'DESIGN.md section 4 C11',
    },
]

_PENDING = 'check not built yet in this session (planned, see DESIGN.md section 4); not claimed until its check exists'
NOT_APPLICABLE = [
    {'property_id': 'C%02d' % i, 'reason': _PENDING} for i in range(2, 21) if i not in (2, 3, 4, 5, 6, 7, 8, 9, 10, 11, 12, 13, 14, 15, 16, 17, 18, 19, 20)
]
