"""Per-property claims for MANIFEST.json (kept in one place; tools/mkmanifest.py writes the file)."""

CLAIMS = [
    {
        'property_id': 'C01',
        'level': 'other',
        'technique': 'contract-based deductive verification of the real function bodies (sidecar contracts, '
                     'VCs to z3/cvc5), per discrete configuration',
        'text': 'Every strict-constraint clause (monotonicity, Edgeworth, trapezoid, bounds, feasible=>unchanged) is a '
                'postcondition on the real LatticeConstraints.__call__, finalize_constraints and the four '
                '_approximately_project_* helpers; each is discharged for ALL real kernels, symbolic bounds and any '
                'number of Dykstra iterations, per enumerated configuration. Not `proof`: one obligation family is '
                'refuted on the unchanged tree (known finding F-C01) and configurations are bounded.',
        'note': 'Trusted: operator contracts for tf.* (cross-checked against TensorFlow on every run), Keras stub, '
                'z3/cvc5, reals for floats, project_by_dykstra contract (proved in C08). Bounded: rank<=3, sizes<=3/4, units<=2, <=2 trusts of each kind.',
        'design_ref': 'DESIGN.md section 4 C01',
    },
]

_PENDING = 'check not built yet in this session (planned, see DESIGN.md section 4); not claimed until its check exists'
NOT_APPLICABLE = [
    {'property_id': 'C%02d' % i, 'reason': _PENDING} for i in range(2, 21)
]
