#!/usr/bin/env python3
"""Runs a property's check against a scratch copy of /repo with a BEHAVIOUR-PRESERVING refactoring applied
(harmless/<prop>/<name>.diff); the check must stay quiet (exit 0, no VIOLATION line). /repo is not touched.
Usage: tools/harmlesscheck.py <prop> <patch-file> [--tier quick] [--also C07,C14]"""
import argparse, os, shutil, subprocess, sys, tempfile, time
ROOT = os.path.dirname(os.path.dirname(os.path.abspath(__file__)))
ap = argparse.ArgumentParser()
ap.add_argument('prop')
ap.add_argument('patch')
ap.add_argument('--tier', default='quick')
ap.add_argument('--also', default='')
a = ap.parse_args()
scratch = tempfile.mkdtemp(prefix='vt_harmless_')
bad = 0
try:
  repo = os.path.join(scratch, 'repo')
  shutil.copytree('/repo', repo, ignore=shutil.ignore_patterns('.git', '__pycache__', '*.pyc'))
  pr = subprocess.run(['patch', '-p1', '-i', os.path.abspath(a.patch)], cwd=repo, capture_output=True, text=True)
  if pr.returncode != 0:
    print('PATCH-DOES-NOT-APPLY', pr.stdout[-500:], pr.stderr[-500:])
    sys.exit(2)
  for prop in [a.prop] + [p for p in a.also.split(',') if p]:
    env = dict(os.environ, VT_REPO=repo, VT_OUT=os.path.join(scratch, 'out_' + prop))
    t0 = time.time()
    pr = subprocess.run([os.path.join(ROOT, 'check'), prop, '--tier', a.tier], env=env, capture_output=True, text=True)
    lines = [l for l in pr.stdout.splitlines() if l.startswith('VIOLATION')]
    notes = [l for l in pr.stdout.splitlines() if l.startswith(('UNDECIDED', 'CHECKER-ERROR', 'NOTE'))]
    print('\n'.join(l[:300] for l in (lines + notes)[:10]))
    print((pr.stdout.strip().splitlines() or [pr.stderr[-400:]])[-1][:300])
    quiet = pr.returncode == 0 and not lines
    print('%s %s: exit %d, %d VIOLATION lines, %.0fs -> %s' % (prop, os.path.basename(a.patch), pr.returncode,
          len(lines), time.time() - t0, 'QUIET' if quiet else 'FALSE-ALARM-OR-ERROR'))
    bad += 0 if quiet else 1
finally:
  shutil.rmtree(scratch, ignore_errors=True)
sys.exit(1 if bad else 0)
