#!/usr/bin/env python3
"""Runs the check of a seeded change (seeded/<name>/patch.diff) against a scratch copy of /repo with the
patch applied (outside /repo and /verif, removed afterwards); /repo itself is not touched.
Usage: tools/seedcheck.py <seeded-dir-name> [--tier quick] [--extra "..."]"""
import argparse, json, os, shutil, subprocess, sys, tempfile, time
ROOT = os.path.dirname(os.path.dirname(os.path.abspath(__file__)))
ap = argparse.ArgumentParser()
ap.add_argument('name')
ap.add_argument('--tier', default='quick')
ap.add_argument('--extra', default='')
ap.add_argument('--property', default=None)
a = ap.parse_args()
d = os.path.join(ROOT, 'seeded', a.name)
prop = a.property or a.name.split('-')[0]
scratch = tempfile.mkdtemp(prefix='vt_seed_')
try:
  repo = os.path.join(scratch, 'repo')
  shutil.copytree('/repo', repo, ignore=shutil.ignore_patterns('.git', '__pycache__', '*.pyc'))
  pr = subprocess.run(['patch', '-p1', '-i', os.path.join(d, 'patch.diff')], cwd=repo, capture_output=True, text=True)
  if pr.returncode != 0:
    print('PATCH-DOES-NOT-APPLY', pr.stdout[-500:], pr.stderr[-500:])
    sys.exit(2)
  env = dict(os.environ, VT_REPO=repo, VT_OUT=os.path.join(scratch, 'out'))
  t0 = time.time()
  pr = subprocess.run([os.path.join(ROOT, 'check'), prop, '--tier', a.tier] + a.extra.split(), env=env,
                      capture_output=True, text=True)
  lines = [l for l in pr.stdout.splitlines() if l.startswith('VIOLATION')]
  print('\n'.join(l[:300] for l in lines[:12]))
  print((pr.stdout.strip().splitlines() or [pr.stderr[-400:]])[-1])
  print('%s: exit %d, %d VIOLATION lines, %.0fs -> %s' % (a.name, pr.returncode, len(lines), time.time() - t0,
                                                       'DETECTED' if pr.returncode == 1 and lines else 'MISSED'))
  sys.exit(0 if pr.returncode == 1 and lines else 1)
finally:
  shutil.rmtree(scratch, ignore_errors=True)
