#!/bin/sh
# Runs every quick check with several VERIF_SEED values; prints one line per (property, seed).
cd "$(dirname "$0")/.."
for seed in ${SEEDS:-1 2 3}; do
  for id in $(.venv/bin/python -c "
import json;print(' '.join(c['property_id'] for c in json.load(open('MANIFEST.json'))['checks']))"); do
    out=$(VERIF_SEED=$seed VT_OUT=${VT_OUT:-/tmp/vt_seeds_out} ./check $id --tier quick 2>&1); rc=$?
    echo "seed=$seed $id exit=$rc $(echo "$out" | tail -1 | cut -c1-160)"
  done
done
