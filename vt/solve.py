"""Back ends: z3 first, cvc5 for what z3 leaves open.

A goal is `assumptions |= goal`.  It is discharged by showing that
`assumptions AND defs AND NOT goal` is unsatisfiable, where `defs` are the exact
characterisations of the non-polynomial atoms that occur (so nothing is
abstracted):

  m = max(p1..pk)   :  m >= pi for all i,  OR_i m == pi
  a = |p|           :  a >= p, a >= -p, a == p or a == -p
  i = 1/q           :  q != 0  ->  i*q == 1       (q == 0: unconstrained)
  ite, uninterpreted functions: native.
"""
import os
import subprocess
import tempfile
import time
from fractions import Fraction as Fr

import z3

from . import expr as E
from .expr import P, B

Z3_TIMEOUT_MS = int(os.environ.get('VT_Z3_TIMEOUT_MS', '20000'))
CVC5_TIMEOUT_MS = int(os.environ.get('VT_CVC5_TIMEOUT_MS', '30000'))
CVC5 = '/usr/bin/cvc5'


class Result(object):
  __slots__ = ('status', 'model', 'time', 'backend', 'detail')

  def __init__(self, status, model=None, t=0.0, backend='', detail=''):
    self.status = status      # proved | refuted | unknown
    self.model = model        # dict var-name -> Fraction (refuted only)
    self.time = t
    self.backend = backend
    self.detail = detail


class Translator(object):
  """abstract_nl=True: every nonlinear monomial becomes an opaque real variable (a sound
  relaxation: unsat of the relaxed query implies unsat of the exact one)."""

  def __init__(self, abstract_nl=False):
    self.abstract_nl = abstract_nl
    self.mono_var = {}
    self.atom_term = {}
    self.atom_defs = {}
    self.pcache = {}
    self.bcache = {}
    self.funcs = {}

  def num(self, c):
    return z3.RealVal(str(c))

  def p(self, poly):
    k = id(poly)
    r = self.pcache.get(poly)
    if r is not None:
      return r
    terms = []
    for m, c in poly.t.items():
      fs = []
      if self.abstract_nl and sum(e for _, e in m) > 1:
        for i, e in m:
          self.atom(E.ATOMS[i])     # keep definitions of the factors
        v = self.mono_var.get(m)
        if v is None:
          v = z3.Real('mono!%d' % len(self.mono_var))
          self.mono_var[m] = v
        terms.append(v if c == 1 else self.num(c) * v)
        continue
      for i, e in m:
        t = self.atom(E.ATOMS[i])
        for _ in range(e):
          fs.append(t)
      if not fs:
        terms.append(self.num(c))
      else:
        prod = fs[0]
        for f in fs[1:]:
          prod = prod * f
        terms.append(prod if c == 1 else self.num(c) * prod)
    if not terms:
      r = self.num(0)
    elif len(terms) == 1:
      r = terms[0]
    else:
      r = z3.Sum(terms)
    self.pcache[poly] = r
    return r

  def atom(self, a):
    t = self.atom_term.get(a.id)
    if t is not None:
      return t
    k = a.kind
    defs = []
    if k == 'var':
      t = z3.Real(a.name)
    elif k in ('max', 'min'):
      t = z3.Real('%s!a%d' % (k, a.id))
      args = [self.p(x) for x in a.args]
      for x in args:
        defs.append(t >= x if k == 'max' else t <= x)
      defs.append(z3.Or([t == x for x in args]))
    elif k == 'abs':
      t = z3.Real('abs!a%d' % a.id)
      x = self.p(a.args[0])
      defs += [t >= x, t >= -x, z3.Or(t == x, t == -x)]
    elif k == 'inv':
      t = z3.Real('inv!a%d' % a.id)
      q = self.p(a.args[0])
      if not self.abstract_nl:
        defs.append(z3.Implies(q != 0, t * q == 1))
    elif k == 'ite':
      t = z3.If(self.b(a.args[0]), self.p(a.args[1]), self.p(a.args[2]))
    elif k == 'fn':
      key = (a.name, len(a.args))
      f = self.funcs.get(key)
      if f is None:
        f = z3.Function(a.name.replace('[', '_').replace(']', ''),
                        *([z3.RealSort()] * (len(a.args) + 1)))
        self.funcs[key] = f
      t = f(*[self.p(x) for x in a.args])
      if a.name.startswith('root') and a.name[4:].isdigit() and len(a.args) == 1:
        # real d-th root: for x >= 0, r >= 0 and r^d == x (the normal form already rewrites
        # sqrt(x)^2 to x, so the solver needs the defining equation as well)
        d = int(a.name[4:])
        x = self.p(a.args[0])
        pw = t
        for _ in range(d - 1):
          pw = pw * t
        if not self.abstract_nl:
          defs.append(z3.Implies(x >= 0, z3.And(t >= 0, pw == x)))
        else:
          defs.append(z3.Implies(x >= 0, t >= 0))
    else:
      raise ValueError(k)
    self.atom_term[a.id] = t
    self.atom_defs[a.id] = defs
    return t

  def b(self, f):
    r = self.bcache.get(f)
    if r is not None:
      return r
    k = f.kind
    if k == 'const':
      r = z3.BoolVal(bool(f.args))
    elif k == 'le':
      r = self.p(f.args[0]) <= 0
    elif k == 'lt':
      r = self.p(f.args[0]) < 0
    elif k == 'eq':
      r = self.p(f.args[0]) == 0
    elif k == 'not':
      r = z3.Not(self.b(f.args[0]))
    elif k == 'and':
      r = z3.And([self.b(x) for x in f.args])
    elif k == 'or':
      r = z3.Or([self.b(x) for x in f.args])
    else:
      raise ValueError(k)
    self.bcache[f] = r
    return r

  def defs_for(self, bools):
    ids = E.atoms_closure([], bools)
    out = []
    for i in sorted(ids):
      self.atom(E.ATOMS[i])
      out.extend(self.atom_defs[i])
    return out, ids


def _model_value(model, term):
  v = model.eval(term, model_completion=True)
  if z3.is_rational_value(v):
    return Fr(v.numerator_as_long(), v.denominator_as_long())
  if z3.is_algebraic_value(v):
    a = v.approx(30)
    return Fr(a.numerator_as_long(), a.denominator_as_long())
  try:
    return Fr(str(v))
  except (ValueError, ZeroDivisionError):
    return None


def check_sat(formulas, tr=None, timeout_ms=None, want_model=True, use_cvc5=True):
  """Satisfiability of the conjunction of `formulas` (list of B)."""
  tr = tr or Translator()
  t0 = time.time()
  zs = [tr.b(f) for f in formulas]
  defs, ids = tr.defs_for(formulas)
  s = z3.Solver()
  s.set('timeout', timeout_ms or Z3_TIMEOUT_MS)
  s.add(*defs)
  s.add(*zs)
  r = s.check()
  if r == z3.unsat:
    return Result('unsat', None, time.time() - t0, 'z3')
  if r == z3.sat:
    model = None
    if want_model:
      m = s.model()
      model = {}
      for i in ids:
        a = E.ATOMS[i]
        if a.kind == 'var':
          model[a.name] = _model_value(m, tr.atom(a))
    return Result('sat', model, time.time() - t0, 'z3')
  detail = 'z3: ' + s.reason_unknown()
  if use_cvc5 and os.path.exists(CVC5):
    r2 = _cvc5(s, ids, tr, want_model)
    if r2 is not None:
      r2.time = time.time() - t0
      r2.detail = detail + '; ' + r2.detail
      return r2
  return Result('unknown', None, time.time() - t0, 'z3+cvc5', detail)


def _cvc5(solver, ids, tr, want_model):
  text = solver.to_smt2()
  logic = 'QF_UFNRA'
  text = '(set-logic %s)\n' % logic + '\n'.join(
      l for l in text.splitlines() if not l.startswith('(set-info') and not l.startswith('(set-logic'))
  names = [E.ATOMS[i].name for i in ids if E.ATOMS[i].kind == 'var']
  if want_model and names:
    text += '\n(get-value (%s))\n' % ' '.join('|%s|' % n for n in names)
  with tempfile.NamedTemporaryFile('w', suffix='.smt2', delete=False) as f:
    f.write(text)
    path = f.name
  try:
    cmd = [CVC5, '--lang=smt2', '--tlimit=%d' % CVC5_TIMEOUT_MS, '--nl-cov', '--produce-models', path]
    pr = subprocess.run(cmd, capture_output=True, text=True, timeout=CVC5_TIMEOUT_MS / 1000.0 + 10)
    out = pr.stdout.strip().splitlines()
  except subprocess.TimeoutExpired:
    return None
  finally:
    os.unlink(path)
  if not out:
    return None
  if out[0] == 'unsat':
    return Result('unsat', None, 0, 'cvc5', 'cvc5 unsat')
  if out[0] == 'sat':
    model = _parse_cvc5_values('\n'.join(out[1:])) if want_model else None
    return Result('sat', model, 0, 'cvc5', 'cvc5 sat')
  return None


def _parse_cvc5_values(text):
  import re
  model = {}
  # ((|name| value) ...) where value is a numeral, (/ a b), (- x)
  toks = re.findall(r'\|[^|]*\||[()]|[^\s()]+', text)
  pos = [0]

  def parse():
    t = toks[pos[0]]
    pos[0] += 1
    if t == '(':
      lst = []
      while toks[pos[0]] != ')':
        lst.append(parse())
      pos[0] += 1
      return lst
    return t

  def val(x):
    if isinstance(x, str):
      return Fr(x)
    if x[0] == '-' and len(x) == 2:
      return -val(x[1])
    if x[0] == '/':
      return val(x[1]) / val(x[2])
    raise ValueError(x)
  try:
    tree = parse()
    for name, v in tree:
      try:
        model[name.strip('|')] = val(v)
      except (ValueError, ZeroDivisionError):
        model[name.strip('|')] = None
  except (IndexError, ValueError):
    return None
  return model


def prove(assumptions, goal, tr=None, timeout_ms=None):
  """assumptions |= goal ?  Returns Result with status proved/refuted/unknown."""
  if goal.kind == 'const':
    if goal.args:
      return Result('proved', None, 0.0, 'simplifier')
  if _nonlinear(list(assumptions) + [goal]):
    # cheap first attempt: linear relaxation (nonlinear monomials opaque)
    tr_l = getattr(tr, 'linear_twin', None) if tr is not None else None
    if tr_l is None:
      tr_l = Translator(abstract_nl=True)
      if tr is not None:
        tr.linear_twin = tr_l
    t0 = time.time()
    r0 = check_sat(list(assumptions) + [~goal], tr_l, min(timeout_ms or Z3_TIMEOUT_MS, 5000),
                   want_model=False, use_cvc5=False)
    if r0.status == 'unsat':
      return Result('proved', None, time.time() - t0, 'z3-linear-relaxation')
    # second cheap attempt: only the hypotheses that share a symbol with the goal (sound: fewer
    # hypotheses can only weaken the claim); unstable nonlinear queries often close at once
    sl = _slice(list(assumptions), goal, 1)
    if len(sl) < len(assumptions):
      t0 = time.time()
      rs = check_sat(sl + [~goal], Translator(), min(timeout_ms or Z3_TIMEOUT_MS, 5000), want_model=False, use_cvc5=False)
      if rs.status == 'unsat':
        return Result('proved', None, time.time() - t0, 'z3-sliced-hypotheses',
                      '%d of %d hypotheses (depth 1)' % (len(sl), len(assumptions)))
  r = check_sat(list(assumptions) + [~goal], tr, timeout_ms, use_cvc5=False)
  if r.status == 'unknown':
    # hypothesis slicing: fewer hypotheses can only weaken the claim, so `unsat` stays a proof.
    # Hypotheses reachable from the goal through shared symbols in 1, then 2 steps.
    t1 = time.time()
    for depth in (1, 2):
      sl = _slice(list(assumptions), goal, depth)
      if len(sl) == len(assumptions):
        break
      rs = check_sat(sl + [~goal], Translator(), min(timeout_ms or Z3_TIMEOUT_MS, 8000), want_model=False, use_cvc5=False)
      if rs.status == 'unsat':
        return Result('proved', None, r.time + (time.time() - t1), 'z3-sliced-hypotheses',
                      '%d of %d hypotheses (depth %d)' % (len(sl), len(assumptions), depth))
  if r.status == 'unknown':
    # slow queries are unstable ones: a second attempt with fresh term numbering and another
    # seed often closes at once; cvc5 gets the query after that
    t1 = time.time()
    z3.set_param('smt.random_seed', 7)
    z3.set_param('sat.random_seed', 7)
    try:
      r2 = check_sat(list(assumptions) + [~goal], Translator(), timeout_ms, use_cvc5=True)
    finally:
      z3.set_param('smt.random_seed', 0)
      z3.set_param('sat.random_seed', 0)
    r2.time = r.time + (time.time() - t1)
    r2.detail = 'retry after z3 unknown; ' + r2.detail
    r = r2
  if r.status == 'unsat':
    return Result('proved', None, r.time, r.backend, r.detail)
  if r.status == 'sat':
    return Result('refuted', r.model, r.time, r.backend, r.detail)
  return Result('unknown', None, r.time, r.backend, r.detail)


def _symbols(b):
  return frozenset(i for i in E.atoms_closure([], [b]) if E.ATOMS[i].kind in ('var', 'fn'))


def _slice(assumptions, goal, depth):
  syms = [(a, _symbols(a)) for a in assumptions]
  reach = set(_symbols(goal))
  keep = [False] * len(syms)
  for _ in range(depth):
    new = set()
    for k, (a, sy) in enumerate(syms):
      if not keep[k] and (sy & reach or not sy):
        keep[k] = True
        new |= sy
    reach |= new
  return [a for k, (a, _) in enumerate(syms) if keep[k]]


def _nonlinear(bools):
  for b in bools:
    for p in b.polys():
      if p.degree() > 1:
        return True
  for i in E.atoms_closure([], bools):
    a = E.ATOMS[i]
    if a.kind == 'inv':
      return True
    for x in a.args:
      if isinstance(x, P) and x.degree() > 1:
        return True
  return False


def entails(assumptions, b, timeout_ms=2000):
  r = check_sat(list(assumptions) + [~b], None, timeout_ms, want_model=False, use_cvc5=False)
  if r.status == 'unsat':
    return True
  if r.status == 'sat':
    return False
  return None
