"""Small library of abstract lemmas over the reals, proved once per run by the back ends and then
*instantiated by substitution*.  An instance is added to the hypotheses only after the abstract
statement has been raised as an obligation in the same context (kind 'lemma').  Instances let the
linear relaxation (nonlinear monomials opaque) close goals about products of bounded quantities.
"""
from . import ctx as C
from .expr import P, B
from . import expr as E


def _once(c, key, statement):
  done = c.__dict__.setdefault('_lemmas_done', set())
  if key not in done:
    done.add(key)
    c.oblige('lemma:' + key, statement, 'lemma')


def _abs_vars(n, tag):
  return [P.var('lem!%s%d' % (tag, i)) for i in range(n)]


def nonneg_product(p, q, c=None):
  """p >= 0 and q >= 0  =>  p*q >= 0."""
  c = c or C.cur()
  a, b = _abs_vars(2, 'np')
  _once(c, 'a>=0,b>=0 => ab>=0', ((a >= 0) & (b >= 0)).implies(a * b >= 0))
  p, q = P.lift(p), P.lift(q)
  c.assume(((p >= 0) & (q >= 0)).implies(p * q >= 0), 'instance: nonneg product')


def pos_product(p, q, c=None):
  """p > 0 and q > 0  =>  p*q > 0."""
  c = c or C.cur()
  a, b = _abs_vars(2, 'pp')
  _once(c, 'a>0,b>0 => ab>0', ((a > 0) & (b > 0)).implies(a * b > 0))
  p, q = P.lift(p), P.lift(q)
  c.assume(((p > 0) & (q > 0)).implies(p * q > 0), 'instance: positive product')


def inverse(l, c=None):
  """l > 0  =>  inv(l) > 0 and l * inv(l) == 1."""
  c = c or C.cur()
  a, = _abs_vars(1, 'iv')
  _once(c, 'a>0 => 1/a>0, a*(1/a)==1', (a > 0).implies((E.inv(a) > 0) & (a * E.inv(a)).eq(1)))
  l = P.lift(l)
  c.assume((l > 0).implies((E.inv(l) > 0) & (l * E.inv(l)).eq(1)), 'instance: inverse')


def bounded_product(w, lo, hi, h, c=None):
  """lo <= w <= hi and h >= 0  =>  lo*h <= w*h <= hi*h   (two nonneg-product instances)."""
  nonneg_product(P.lift(w) - lo, h, c)
  nonneg_product(P.lift(hi) - w, h, c)


def inverse_power(l, d, c=None):
  """l > 0  =>  l^d * inv(l)^d == 1 and inv(l)^d > 0."""
  c = c or C.cur()
  a, = _abs_vars(1, 'ip')
  _once(c, 'a>0 => a^%d*(1/a)^%d==1' % (d, d), (a > 0).implies(((a ** d) * (E.inv(a) ** d)).eq(1) & (E.inv(a) ** d > 0)))
  l = P.lift(l)
  c.assume((l > 0).implies(((l ** d) * (E.inv(l) ** d)).eq(1) & (E.inv(l) ** d > 0)), 'instance: inverse power')
