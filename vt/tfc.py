"""Operator contracts: a stand-in for the `tensorflow` module over exact reals.

Every operator the non-test sources of tensorflow/lattice use is given its
mathematical contract on symbolic tensors (numpy object arrays holding `expr.P`
polynomials for float dtypes, Python ints for integer dtypes and `expr.B`
formulas for bool).  Structural operators are numpy on the object array;
arithmetic builds terms; data-dependent discrete results (sort, float->int casts)
ask the context's path oracle.  An operator or keyword that has no contract here
raises `NoContract`, which the checks report as a checker error, never as a
property verdict.

This module is installed as `sys.modules['tensorflow']` by load.py while the real
repository sources are imported, so `tf.maximum` in /repo code means
`tfc.maximum`.
"""
import builtins as _bi
import itertools
import math as _pymath
import sys
import types
from fractions import Fraction as Fr

import numpy as np

from . import ctx as _ctx
from . import expr as E
from .expr import P, B

__version__ = 'vt-contracts'


class NoContract(NotImplementedError):
  pass


# ---------------------------------------------------------------------------- dtypes

class DType(object):

  def __init__(self, name, kind):
    self.name = name
    self.kind = kind  # f, i, b, s

  is_floating = property(lambda s: s.kind == 'f')
  is_integer = property(lambda s: s.kind == 'i')
  is_bool = property(lambda s: s.kind == 'b')

  @property
  def as_numpy_dtype(self):
    return getattr(np, self.name if self.name != 'bool' else 'bool_')

  @property
  def base_dtype(self):
    return self

  @property
  def min(self):
    return -float('inf') if self.kind == 'f' else -2**31

  @property
  def max(self):
    return float('inf') if self.kind == 'f' else 2**31 - 1

  def __eq__(self, o):
    try:
      return self.name == as_dtype(o).name
    except (TypeError, ValueError):
      return False

  def __ne__(self, o):
    return not self.__eq__(o)

  def __hash__(self):
    return hash(self.name)

  def __repr__(self):
    return 'tf.' + self.name


float32 = DType('float32', 'f')
float64 = DType('float64', 'f')
float16 = DType('float16', 'f')
int32 = DType('int32', 'i')
int64 = DType('int64', 'i')
uint8 = DType('uint8', 'i')
bool_ = DType('bool', 'b')
string = DType('string', 's')
_DTYPES = {d.name: d for d in (float32, float64, float16, int32, int64, uint8, bool_, string)}
globals()['bool'] = bool_


def as_dtype(x):
  if isinstance(x, DType):
    return x
  if isinstance(x, str):
    if x in _DTYPES:
      return _DTYPES[x]
    raise ValueError('unknown dtype %r' % x)
  if x is float:
    return float32
  if x is int:
    return int32
  import builtins
  if x is builtins.bool:
    return bool_
  try:
    n = np.dtype(x).name
    if n in _DTYPES:
      return _DTYPES[n]
  except TypeError:
    pass
  raise TypeError('not a dtype: %r' % (x,))


class dtypes(object):
  as_dtype = staticmethod(as_dtype)
  DType = DType


# ---------------------------------------------------------------------------- shapes

class Dimension(object):

  def __init__(self, v):
    self.value = v

  def __int__(self):
    return int(self.value)

  def __index__(self):
    return int(self.value)

  def __eq__(self, o):
    return self.value == (o.value if isinstance(o, Dimension) else o)

  def __hash__(self):
    return hash(self.value)

  def __repr__(self):
    return 'Dimension(%r)' % (self.value,)


class TensorShape(object):

  def __init__(self, dims):
    if isinstance(dims, TensorShape):
      dims = dims._d
    self._d = None if dims is None else tuple(
        (None if d is None else int(d)) for d in dims)

  @property
  def dims(self):
    return [Dimension(d) for d in self._d]

  @property
  def rank(self):
    return len(self._d)

  ndims = rank

  def as_list(self):
    return list(self._d)

  def __len__(self):
    return len(self._d)

  def __iter__(self):
    return iter(self._d)

  def __getitem__(self, i):
    if isinstance(i, slice):
      return TensorShape(self._d[i])
    return self._d[i]

  def __eq__(self, o):
    try:
      return tuple(self._d) == tuple(TensorShape(o)._d)
    except TypeError:
      return False

  def __ne__(self, o):
    return not self.__eq__(o)

  def __hash__(self):
    return hash(self._d)

  def __add__(self, o):
    return TensorShape(self._d + tuple(TensorShape(o)._d))

  def __radd__(self, o):
    return TensorShape(tuple(TensorShape(o)._d) + self._d)

  def concatenate(self, o):
    return self + o

  def is_fully_defined(self):
    return all(d is not None for d in self._d)

  def num_elements(self):
    return int(np.prod(self._d))

  def __repr__(self):
    return 'TensorShape(%r)' % (list(self._d),)

  __str__ = lambda s: '(%s)' % ', '.join(str(d) for d in s._d)


# --------------------------------------------------------------------------- tensors

def _obj(x):
  """0-d or n-d numpy object array without numpy trying to iterate elements."""
  if isinstance(x, np.ndarray) and x.dtype == object:
    return x
  a = np.empty((), dtype=object)
  a[()] = x
  return a


def _obj_from_nested(v):
  """Python nested lists / numpy arrays / scalars -> object ndarray of raw items."""
  if isinstance(v, Tensor):
    return v.a
  if isinstance(v, np.ndarray):
    if v.dtype == object:
      return v
    out = np.empty(v.shape, dtype=object)
    for idx in np.ndindex(*v.shape):
      out[idx] = v[idx].item()
    return out
  if isinstance(v, (list, tuple)):
    if len(v) == 0:
      return np.empty((0,), dtype=object)
    parts = [_obj_from_nested(x) for x in v]
    shp = parts[0].shape
    for p in parts:
      if p.shape != shp:
        raise ValueError('ragged nested value %r' % (v,))
    out = np.empty((len(parts),) + shp, dtype=object)
    for i, p in enumerate(parts):
      if p.ndim == 0:
        out[i] = p[()]
      else:
        out[i] = p
    return out
  if isinstance(v, TensorShape):
    return _obj_from_nested(v.as_list())
  if isinstance(v, Dimension):
    return _obj(v.value)
  if isinstance(v, np.generic):
    v = v.item()
  return _obj(v)


def _infer_dtype(a):
  kinds = set()
  for x in a.flat:
    if isinstance(x, (B, _bi.bool, np.bool_)):
      kinds.add('b')
    elif isinstance(x, (int, np.integer)):
      kinds.add('i')
    elif isinstance(x, (float, Fr, P, np.floating, Inf)):
      kinds.add('f')
    elif isinstance(x, str):
      kinds.add('s')
    else:
      raise TypeError('cannot put %r into a tensor' % (x,))
  if 'f' in kinds:
    return float32
  if 'i' in kinds:
    return int32
  if 'b' in kinds:
    return bool_
  if 's' in kinds:
    return string
  return float32


class Inf(object):
  """+-infinity constant: only a bound for maximum / minimum (tf.clip_by_value)."""
  __slots__ = ('sign',)

  def __init__(self, sign):
    self.sign = sign

  def __repr__(self):
    return '+inf' if self.sign > 0 else '-inf'

  def _no(self, *a):
    raise NoContract('arithmetic on an infinite constant')
  __add__ = __radd__ = __sub__ = __rsub__ = __mul__ = __rmul__ = __truediv__ = __neg__ = _no


PINF, NINF = Inf(1), Inf(-1)


def _conv_elem(x, dt):
  if dt.kind == 'f':
    if isinstance(x, Inf):
      return x
    if isinstance(x, (float, np.floating)) and x in (float('inf'), float('-inf')):
      return PINF if x > 0 else NINF
    if isinstance(x, P):
      return x
    if isinstance(x, (B,)):
      raise TypeError('bool in float tensor')
    return P.const(x)
  if dt.kind == 'i':
    if isinstance(x, P):
      if x.is_const and x.cval.denominator == 1:
        return int(x.cval)
      if x.is_const:
        raise TypeError('non-integral value in an integer tensor: %r' % (x,))
      return x   # symbolic count (from casting symbolic booleans)
    if isinstance(x, (float, Fr)) and x != int(x):
      raise TypeError('non-integral %r for integer tensor' % (x,))
    return int(x)
  if dt.kind == 'b':
    return B.lift(x)
  return x


def _mk(a, dt):
  return Tensor(a, dt)


class Tensor(object):
  """Symbolic tensor: numpy object array + dtype tag."""
  __array_priority__ = 100000
  __slots__ = ('a', 'dtype', 'name', '__weakref__', '__dict__')

  def __init__(self, a, dtype):
    self.a = a
    self.dtype = dtype
    self.name = None

  # -- structure
  @property
  def shape(self):
    return TensorShape(self.a.shape)

  def get_shape(self):
    return self.shape

  @property
  def ndim(self):
    return self.a.ndim

  def __len__(self):
    if self.a.ndim == 0:
      raise TypeError('len() of a scalar tensor')
    return self.a.shape[0]

  def __iter__(self):
    if self.a.ndim == 0:
      raise TypeError('iteration over a scalar tensor')
    return (self[i] for i in _bi.range(self.a.shape[0]))

  def __getitem__(self, idx):
    if not isinstance(idx, tuple):
      idx = (idx,)
    idx = tuple(_index_item(i) for i in idx)
    r = self.a[idx]
    return Tensor(_obj(r), self.dtype)

  def numpy(self):
    return to_numpy(self)

  def __array__(self, dtype=None, copy=None):
    return to_numpy(self) if dtype is None else to_numpy(self).astype(dtype)

  def __hash__(self):
    return id(self)

  def ref(self):
    return self

  def __repr__(self):
    return 'vt.Tensor(shape=%s, dtype=%s)' % (self.a.shape, self.dtype.name)

  def __bool__(self):
    if self.a.size != 1:
      raise ValueError('truth value of a non-scalar tensor')
    return _bi.bool(self.a.reshape(-1)[0])

  def __float__(self):
    return float(self.a.reshape(-1)[0]) if self.a.size == 1 else _raise(TypeError('float of tensor'))

  def __int__(self):
    return int(self.a.reshape(-1)[0]) if self.a.size == 1 else _raise(TypeError('int of tensor'))

  def __index__(self):
    return self.__int__()

  # -- arithmetic
  def __add__(self, o): return add(self, o)
  def __radd__(self, o): return add(o, self)
  def __sub__(self, o): return subtract(self, o)
  def __rsub__(self, o): return subtract(o, self)
  def __mul__(self, o): return multiply(self, o)
  def __rmul__(self, o): return multiply(o, self)
  def __truediv__(self, o): return divide(self, o)
  def __rtruediv__(self, o): return divide(o, self)
  def __floordiv__(self, o): return floordiv(self, o)
  def __mod__(self, o): return floormod(self, o)
  def __neg__(self): return negative(self)
  def __abs__(self): return abs(self)
  def __pow__(self, o): return pow(self, o)
  def __matmul__(self, o): return matmul(self, o)
  def __lt__(self, o): return less(self, o)
  def __le__(self, o): return less_equal(self, o)
  def __gt__(self, o): return greater(self, o)
  def __ge__(self, o): return greater_equal(self, o)
  def __eq__(self, o): return equal(self, o)
  def __ne__(self, o): return not_equal(self, o)
  def __and__(self, o): return logical_and(self, o)
  def __or__(self, o): return logical_or(self, o)
  def __invert__(self): return logical_not(self)


def _raise(e):
  raise e


def _index_item(i):
  if isinstance(i, Tensor):
    if i.a.ndim == 0:
      return int(i.a[()])
    return np.array([int(x) for x in i.a.flat]).reshape(i.a.shape)
  if isinstance(i, slice):
    return slice(*[None if x is None else int(x) for x in (i.start, i.stop, i.step)])
  return i


newaxis = None


def is_tensor(x):
  return isinstance(x, Tensor)


def convert_to_tensor(value, dtype=None, dtype_hint=None, name=None):
  if isinstance(value, Tensor):
    if dtype is not None and as_dtype(dtype) != value.dtype:
      raise ValueError('Tensor conversion requested dtype %s for Tensor with dtype %s' %
                       (as_dtype(dtype).name, value.dtype.name))
    if isinstance(value, Variable):
      return Tensor(value.a, value.dtype)   # a snapshot of the current value
    return value
  a = _obj_from_nested(value)
  dt = as_dtype(dtype) if dtype is not None else _infer_dtype(a)
  out = np.empty(a.shape, dtype=object)
  for idx in np.ndindex(*a.shape):
    out[idx] = _conv_elem(a[idx], dt)
  return Tensor(out, dt)


def _t(x, like=None):
  """Coerce an operand; Python numbers adopt the dtype of the other operand."""
  if isinstance(x, Tensor):
    return x
  if like is not None:
    a = _obj_from_nested(x)
    lk = like.dtype
    if lk.kind == 'i':
      # int tensor (op) python float -> TF raises; python int stays int.
      for v in a.flat:
        if isinstance(v, (float, Fr, P)) and not (isinstance(v, (float, Fr)) and v == int(v)):
          raise TypeError('float operand %r for integer tensor' % (v,))
    out = np.empty(a.shape, dtype=object)
    for idx in np.ndindex(*a.shape):
      out[idx] = _conv_elem(a[idx], lk)
    return Tensor(out, lk)
  return convert_to_tensor(x)


def _binop(f, x, y, out_dtype=None, name='binop'):
  if isinstance(x, Tensor):
    y = _t(y, x)
  elif isinstance(y, Tensor):
    x = _t(x, y)
  else:
    x = _t(x)
    y = _t(y, x)
  if x.dtype != y.dtype:
    raise TypeError('%s: dtype mismatch %s vs %s' % (name, x.dtype.name, y.dtype.name))
  try:
    r = np.frompyfunc(f, 2, 1)(x.a, y.a)
  except ValueError as e:
    raise ValueError('%s: incompatible shapes %s %s (%s)' % (name, x.a.shape, y.a.shape, e))
  return Tensor(_obj(r), out_dtype or x.dtype)


def _unop(f, x, out_dtype=None):
  x = _t(x)
  if x.a.size == 0:
    return Tensor(x.a.copy(), out_dtype or x.dtype)
  r = np.frompyfunc(f, 1, 1)(x.a)
  return Tensor(_obj(r), out_dtype or x.dtype)


def constant(value, dtype=None, shape=None, name=None):
  if isinstance(value, Tensor):
    t = value if dtype is None else cast(value, dtype)
  else:
    t = convert_to_tensor(value, dtype=dtype)
  if shape is not None:
    shape = tuple(int(s) for s in TensorShape(shape))
    if t.a.size == 1:
      out = np.empty(shape, dtype=object)
      v = t.a.reshape(-1)[0]
      for idx in np.ndindex(*shape):
        out[idx] = v
      t = Tensor(out, t.dtype)
    else:
      if int(np.prod(shape)) != t.a.size:
        raise TypeError('constant: %d values do not fit shape %s' % (t.a.size, shape))
      t = Tensor(t.a.reshape(shape), t.dtype)
  return t


def identity(x, name=None):
  x = _t(x)
  if isinstance(x, Variable):
    return Tensor(x.a, x.dtype)      # a snapshot of the current value, as in eager TensorFlow
  return x


def stop_gradient(x, name=None):
  return _t(x)


def _full(shape, v, dt):
  shape = _shape_arg(shape)
  out = np.empty(shape, dtype=object)
  v = _conv_elem(v, dt)
  for idx in np.ndindex(*shape):
    out[idx] = v
  return Tensor(out, dt)


def _shape_arg(shape):
  if isinstance(shape, Tensor):
    return tuple(int(x) for x in shape.a.reshape(-1))
  if isinstance(shape, (int, np.integer)):
    return (int(shape),)
  if isinstance(shape, TensorShape):
    return tuple(shape.as_list())
  return tuple(int(s) for s in shape)


def zeros(shape, dtype=float32, name=None):
  return _full(shape, 0, as_dtype(dtype))


def ones(shape, dtype=float32, name=None):
  return _full(shape, 1, as_dtype(dtype))


def fill(dims, value, name=None):
  if isinstance(value, Tensor):
    if value.a.size != 1:
      raise ValueError('fill: value must be a scalar')
    dt = value.dtype
    value = value.a.reshape(-1)[0]
  else:
    dt = _infer_dtype(_obj(value))
  return _full(dims, value, dt)


def zeros_like(x, dtype=None, name=None):
  x = _t(x)
  return _full(x.a.shape, 0, as_dtype(dtype) if dtype else x.dtype)


def ones_like(x, dtype=None, name=None):
  x = _t(x)
  return _full(x.a.shape, 1, as_dtype(dtype) if dtype else x.dtype)


def shape(x, out_type=int32, name=None):
  x = _t(x)
  return convert_to_tensor(list(x.a.shape), dtype=int32) if x.a.ndim else Tensor(
      np.empty((0,), dtype=object), int32)


def size(x, name=None):
  return convert_to_tensor(int(_t(x).a.size), dtype=int32)


def rank(x, name=None):
  return convert_to_tensor(int(_t(x).a.ndim), dtype=int32)


def range(*args, **kw):  # pylint: disable=redefined-builtin
  import builtins
  dt = as_dtype(kw.get('dtype', int32))
  return convert_to_tensor(list(builtins.range(*[int(a) for a in args])), dtype=dt)


# ----------------------------------------------------------------- element-wise math

def _num(f):
  return f


def add(x, y, name=None):
  return _binop(lambda a, b: a + b, x, y, name='add')


def subtract(x, y, name=None):
  return _binop(lambda a, b: a - b, x, y, name='subtract')


def multiply(x, y, name=None):
  return _binop(lambda a, b: a * b, x, y, name='multiply')


def _div(a, b):
  if isinstance(a, int) and isinstance(b, int):
    raise TypeError('true division of integer tensors has no contract here')
  return a / b


def divide(x, y, name=None):
  return _binop(_div, x, y, name='divide')


truediv = divide


def _divide_no_nan(a, b):
  if b.is_const:
    return P.const(0) if b.cval == 0 else a / b
  return E.ite(b.eq(0), P.const(0), a / b)


def divide_no_nan(x, y, name=None):
  return _binop(_divide_no_nan, x, y, name='divide_no_nan')


def floordiv(x, y, name=None):
  def f(a, b):
    if isinstance(a, int) and isinstance(b, int):
      return a // b
    raise NoContract('floordiv on non-integers')
  return _binop(f, x, y)


def floormod(x, y, name=None):
  def f(a, b):
    if isinstance(a, int) and isinstance(b, int):
      return a % b
    raise NoContract('mod on non-integers')
  return _binop(f, x, y)


def negative(x, name=None):
  return _unop(lambda a: -a, x)


def _maximum(a, b):
  if isinstance(a, int) and isinstance(b, int):
    return a if a >= b else b
  for x, y in ((a, b), (b, a)):
    if isinstance(x, Inf):
      return x if x.sign > 0 else y
  return E.pmax(a, b)


def _minimum(a, b):
  if isinstance(a, int) and isinstance(b, int):
    return a if a <= b else b
  for x, y in ((a, b), (b, a)):
    if isinstance(x, Inf):
      return x if x.sign < 0 else y
  return E.pmin(a, b)


def maximum(x, y, name=None):
  return _binop(_maximum, x, y, name='maximum')


def minimum(x, y, name=None):
  return _binop(_minimum, x, y, name='minimum')


def abs(x, name=None):  # pylint: disable=redefined-builtin
  return _unop(lambda a: a if isinstance(a, int) and a >= 0 else (-a if isinstance(a, int) else E.pabs(a)), x)


def square(x, name=None):
  return _unop(lambda a: a * a, x)


def _sign(a):
  if isinstance(a, int):
    return (a > 0) - (a < 0)
  if a.is_const:
    return P.const((a.cval > 0) - (a.cval < 0))
  # data-dependent discrete value: path oracle over {<0, ==0, >0}
  c = _ctx.cur()
  memo = c.__dict__.setdefault('_sign_memo', {})
  if a in memo:
    return memo[a]
  opts = [(-1, a < 0), (0, a.eq(0)), (1, a > 0)]
  opts = [(v, f) for v, f in opts if _feasible(c, f)] or opts[:1]
  v, f = opts[c.choose(len(opts), 'sign(%r)' % (a,))]
  c.assume(f, 'oracle: sign == %d' % v)
  memo[a] = P.const(v)
  return memo[a]


def sign(x, name=None):
  return _unop(_sign, x)


def pow(x, y, name=None):  # pylint: disable=redefined-builtin
  def f(a, b):
    if isinstance(a, int) and isinstance(b, int):
      return a ** b
    b = P.lift(b)
    if b.is_const and b.cval.denominator == 1 and b.cval >= 0:
      return P.lift(a) ** int(b.cval)
    if b.is_const and b.cval.numerator == 1 and b.cval > 0:
      return _root(P.lift(a), int(b.cval.denominator))
    if b.is_const and b.cval > 0:
      # the float nearest to 1/d (e.g. 1.0 / 3) denotes the d-th root
      for d in builtin_range(2, 17):
        if float(b.cval) == 1.0 / d:
          return _root(P.lift(a), d)
    raise NoContract('pow with exponent %r' % (b,))
  return _binop(f, x, y, name='pow')


def _root(a, d):
  """Real d-th root: r >= 0 and r^d == a, for a >= 0 (domain obligation)."""
  if d == 1:
    return a
  if a.is_const:
    v = a.cval
    if v < 0:
      raise ValueError('root of negative constant')
    r = Fr(float(v) ** (1.0 / d))
    for cand in (Fr(round(float(r))), r):
      if cand ** d == v:
        return P.const(cand)
  c = _ctx.cur()
  r = E.fn('root%d' % d, a)
  c.axiom('root%d: r>=0 and r^%d==x for x>=0' % (d, d))
  c.assume((a >= 0).implies((r >= 0) & (r ** d).eq(a)), 'axiom root%d' % d)
  return r


E.FN_EVAL.update({
    'root2': lambda x: float(x) ** 0.5,
    'root3': lambda x: float(x) ** (1.0 / 3),
    'root4': lambda x: float(x) ** 0.25,
    'root5': lambda x: float(x) ** 0.2,
})
FN_DOMAIN = {}
for _d in (2, 3, 4, 5, 6):
  FN_DOMAIN['root%d' % _d] = lambda args: args[0] >= 0


def sqrt(x, name=None):
  return _unop(lambda a: _root(a, 2), x)


def _cmp(op):
  def f(a, b):
    if isinstance(a, int) and isinstance(b, int):
      return B.const({'lt': a < b, 'le': a <= b, 'gt': a > b, 'ge': a >= b,
                      'eq': a == b, 'ne': a != b}[op])
    if isinstance(a, B) or isinstance(b, B):
      a, b = B.lift(a), B.lift(b)
      same = (a & b) | (~a & ~b)
      if op == 'eq':
        return same
      if op == 'ne':
        return ~same
      raise TypeError('ordering of booleans')
    if isinstance(a, str) or isinstance(b, str):
      return B.const((a == b) if op == 'eq' else (a != b))
    a, b = P.lift(a), P.lift(b)
    return {'lt': lambda: a < b, 'le': lambda: a <= b, 'gt': lambda: a > b,
            'ge': lambda: a >= b, 'eq': lambda: a.eq(b), 'ne': lambda: a.ne(b)}[op]()
  return f


def less(x, y, name=None): return _binop(_cmp('lt'), x, y, bool_, 'less')
def less_equal(x, y, name=None): return _binop(_cmp('le'), x, y, bool_, 'less_equal')
def greater(x, y, name=None): return _binop(_cmp('gt'), x, y, bool_, 'greater')
def greater_equal(x, y, name=None): return _binop(_cmp('ge'), x, y, bool_, 'greater_equal')


def equal(x, y, name=None):
  if y is None or x is None:
    return False
  try:
    return _binop(_cmp('eq'), x, y, bool_, 'equal')
  except TypeError:
    return False


def not_equal(x, y, name=None):
  if y is None or x is None:
    return True
  return _binop(_cmp('ne'), x, y, bool_, 'not_equal')


def logical_and(x, y, name=None): return _binop(lambda a, b: B.lift(a) & B.lift(b), x, y, bool_)
def logical_or(x, y, name=None): return _binop(lambda a, b: B.lift(a) | B.lift(b), x, y, bool_)
def logical_not(x, name=None): return _unop(lambda a: ~B.lift(a), x, bool_)


def where(condition, x=None, y=None, name=None):
  if x is None or y is None:
    raise NoContract('tf.where with one argument')
  c = _t(condition)
  if isinstance(x, Tensor):
    y = _t(y, x)
  elif isinstance(y, Tensor):
    x = _t(x, y)
  else:
    x = _t(x)
    y = _t(y, x)
  if x.dtype != y.dtype:
    raise TypeError('where: dtype mismatch')

  def f(cc, a, b):
    cc = B.lift(cc)
    if cc.kind == 'const':
      return a if cc.args else b
    if isinstance(a, int) or isinstance(b, int):
      if a == b:
        return a
      raise SymbolicInt('integer tf.where on a symbolic condition')
    if isinstance(a, B) or isinstance(b, B):
      return (cc & B.lift(a)) | (~cc & B.lift(b))
    return E.ite(cc, a, b)
  r = np.frompyfunc(f, 3, 1)(c.a, x.a, y.a)
  return Tensor(_obj(r), x.dtype)


class SymbolicInt(NoContract):
  pass


def clip_by_value(t, clip_value_min, clip_value_max, name=None):
  t = _t(t)
  lo = _t(clip_value_min, t)
  hi = _t(clip_value_max, t)
  # TF: minimum(maximum(t, lo), hi); +-inf bounds are identities.
  return _clip_hi(_clip_lo(t, clip_value_min, lo), clip_value_max, hi)


def _is_inf(v, sign):
  try:
    if isinstance(v, Tensor):
      return False
    a = np.asarray(v, dtype=float)
    return _bi.bool(np.all(np.isinf(a)) and np.all(np.sign(a) == sign))
  except (TypeError, ValueError):
    return False


def _clip_lo(t, raw, lo):
  return maximum(t, lo)


def _clip_hi(t, raw, hi):
  return minimum(t, hi)


# +-inf constants: represented by sentinel polynomials that maximum/minimum drop.
class _Inf(object):
  pass


def cast(x, dtype, name=None):
  x = _t(x)
  dt = as_dtype(dtype)
  if dt == x.dtype or (dt.kind == x.dtype.kind and dt.kind != 'b'):
    return Tensor(x.a, dt)

  def f(a):
    if dt.kind == 'f':
      if isinstance(a, B):
        if a.kind == 'const':
          return P.const(1 if a.args else 0)
        return E.ite(a, P.const(1), P.const(0))
      return P.const(a)
    if dt.kind == 'i':
      if isinstance(a, B):
        if a.kind == 'const':
          return 1 if a.args else 0
        return E.ite(a, P.const(1), P.const(0))   # symbolic 0/1 count (sums and comparisons only)
      if isinstance(a, P):
        return _float_to_int(a)
      return int(a)
    if dt.kind == 'b':
      if isinstance(a, int):
        return B.const(a != 0)
      return P.lift(a).ne(0)
    raise NoContract('cast to %s' % dt.name)
  return _unop(f, x, dt)


class _IntSym(object):
  """0/1 integer from a symbolic boolean; only sums and comparisons supported."""

  def __init__(self, b=None, p=None):
    self.p = p if p is not None else E.ite(b, P.const(1), P.const(0))

  def __add__(self, o):
    return _IntSym(p=self.p + (o.p if isinstance(o, _IntSym) else o))
  __radd__ = __add__

  def _cmp(self, o, op):
    o = o.p if isinstance(o, _IntSym) else P.lift(o)
    return getattr(self.p, op)(o)


def _float_to_int(a):
  """Truncation toward zero; a symbolic argument asks the path oracle."""
  if a.is_const:
    return int(a.cval)  # int() truncates toward zero, like tf.cast
  c = _ctx.cur()
  rng = getattr(c, 'int_cast_range', None)
  if rng is None:
    raise NoContract('float->int cast of a symbolic value without a range oracle')
  lo, hi = rng
  if lo < 0:
    raise NoContract('range oracle with negative values')
  c.oblige('cast-range', (a >= lo) & (a < hi + 1), 'cover')
  ks = [k for k in builtin_range(lo, hi + 1) if _feasible(c, (a >= k) & (a < k + 1))]
  if not ks:
    ks = [lo]
  k = ks[c.choose(len(ks), 'int(%r)' % (a,))]
  c.assume((a >= k) & (a < k + 1), 'oracle: int cast == %d' % k)
  return k


def _feasible(c, b):
  """Cheap pruning of oracle alternatives that contradict what is already assumed."""
  from . import solve
  r = solve.check_sat([x for x, _ in c.assumptions] + [b], None, 2000, want_model=False,
                      use_cvc5=False)
  return r.status != 'unsat'


# ----------------------------------------------------------------------- reductions

def _axes(axis, nd):
  if axis is None:
    return tuple(builtin_range(nd))
  if isinstance(axis, Tensor):
    axis = [int(v) for v in axis.a.reshape(-1)]
  if isinstance(axis, (int, np.integer)):
    axis = [int(axis)]
  out = []
  for ax in axis:
    ax = int(ax)
    if ax < -nd or ax >= nd:
      raise ValueError('axis %d out of range for rank %d' % (ax, nd))
    out.append(ax % nd)
  return tuple(out)


import builtins as _bi
builtin_range = _bi.range
_bi_abs = _bi.abs
_bi_pow = _bi.pow
_bi_max = _bi.max
_bi_min = _bi.min
_bi_sum = _bi.sum
_bi_all = _bi.all
_bi_any = _bi.any


def _reduce(x, axis, keepdims, f, out_dtype=None, empty=None):
  x = _t(x)
  nd = x.a.ndim
  axes = _axes(axis, nd)
  keep = [i for i in builtin_range(nd) if i not in axes]
  perm = keep + list(axes)
  a = x.a.transpose(perm) if nd else x.a
  kshape = tuple(x.a.shape[i] for i in keep)
  flat = a.reshape(kshape + (-1,)) if nd else a.reshape((1,))
  out = np.empty(kshape, dtype=object)
  for idx in np.ndindex(*kshape):
    items = list(flat[idx]) if nd else list(flat)
    if not items:
      if empty is None:
        raise NoContract('reduction over an empty axis')
      out[idx] = empty
    else:
      out[idx] = f(items)
  if keepdims:
    shp = [1 if i in axes else x.a.shape[i] for i in builtin_range(nd)]
    out = out.reshape(shp)
  return Tensor(_obj(out), out_dtype or x.dtype)


def _sum(items):
  r = items[0]
  for v in items[1:]:
    r = r + v
  return r


def _prod(items):
  r = items[0]
  for v in items[1:]:
    r = r * v
  return r


def reduce_sum(input_tensor, axis=None, keepdims=False, name=None):
  x = _t(input_tensor)
  return _reduce(x, axis, keepdims, _sum, empty=(0 if x.dtype.kind == 'i' else P.const(0)))


def reduce_prod(input_tensor, axis=None, keepdims=False, name=None):
  x = _t(input_tensor)
  return _reduce(x, axis, keepdims, _prod, empty=(1 if x.dtype.kind == 'i' else P.const(1)))


def reduce_mean(input_tensor, axis=None, keepdims=False, name=None):
  x = _t(input_tensor)
  if x.dtype.kind != 'f':
    raise NoContract('reduce_mean on non-float')
  return _reduce(x, axis, keepdims, lambda it: _sum(it) / len(it))


def reduce_max(input_tensor, axis=None, keepdims=False, name=None):
  return _reduce(input_tensor, axis, keepdims,
                 lambda it: _bi_max(it) if isinstance(it[0], int) else E.pmax(*it))


def reduce_min(input_tensor, axis=None, keepdims=False, name=None):
  return _reduce(input_tensor, axis, keepdims,
                 lambda it: _bi_min(it) if isinstance(it[0], int) else E.pmin(*it))


def reduce_all(input_tensor, axis=None, keepdims=False, name=None):
  return _reduce(input_tensor, axis, keepdims, lambda it: E.ball(it), bool_, empty=E.TRUE)


def reduce_any(input_tensor, axis=None, keepdims=False, name=None):
  return _reduce(input_tensor, axis, keepdims, lambda it: E.bany(it), bool_, empty=E.FALSE)


def add_n(inputs, name=None):
  inputs = list(inputs)
  r = _t(inputs[0])
  for x in inputs[1:]:
    r = add(r, x)
  return r


def cumsum(x, axis=0, exclusive=False, reverse=False, name=None):
  x = _t(x)
  ax = _axes(axis, x.a.ndim)[0]
  a = np.moveaxis(x.a, ax, 0)
  n = a.shape[0]
  out = np.empty(a.shape, dtype=object)
  zero = 0 if x.dtype.kind == 'i' else P.const(0)
  order = list(builtin_range(n))
  if reverse:
    order = order[::-1]
  for idx in np.ndindex(*a.shape[1:]):
    acc = zero
    for i in order:
      if exclusive:
        out[(i,) + idx] = acc
        acc = acc + a[(i,) + idx]
      else:
        acc = acc + a[(i,) + idx]
        out[(i,) + idx] = acc
  return Tensor(np.moveaxis(out, 0, ax), x.dtype)


def norm(tensor, ord='euclidean', axis=None, keepdims=None, name=None):  # pylint: disable=redefined-builtin
  x = _t(tensor)
  keepdims = _bi.bool(keepdims)
  if ord in (1, 1.0):
    return reduce_sum(abs(x), axis=axis, keepdims=keepdims)
  if ord in (2, 2.0, 'euclidean'):
    return sqrt(reduce_sum(square(x), axis=axis, keepdims=keepdims))
  raise NoContract('norm ord=%r' % (ord,))


# ----------------------------------------------------------------- structural ops

def reshape(tensor, shape, name=None):
  x = _t(tensor)
  shape = list(_shape_arg(shape)) if not isinstance(shape, (int, np.integer)) else [int(shape)]
  if _bi_sum(1 for s in shape if s == -1) > 1:
    raise ValueError('reshape: more than one -1')
  return Tensor(x.a.reshape(shape), x.dtype)


def transpose(a, perm=None, conjugate=False, name=None):
  x = _t(a)
  if perm is None:
    return Tensor(x.a.transpose(), x.dtype)
  perm = [int(p) for p in (perm.a.reshape(-1) if isinstance(perm, Tensor) else perm)]
  if sorted(perm) != list(builtin_range(x.a.ndim)):
    raise ValueError('transpose: %r is not a permutation for rank %d' % (perm, x.a.ndim))
  return Tensor(x.a.transpose(perm), x.dtype)


def expand_dims(input, axis, name=None):  # pylint: disable=redefined-builtin
  x = _t(input)
  axis = int(axis)
  nd = x.a.ndim
  if axis < -nd - 1 or axis > nd:
    raise ValueError('expand_dims axis out of range')
  return Tensor(np.expand_dims(x.a, axis), x.dtype)


def squeeze(input, axis=None, name=None):  # pylint: disable=redefined-builtin
  x = _t(input)
  if axis is None:
    return Tensor(_obj(np.squeeze(x.a)), x.dtype)
  ax = _axes(axis, x.a.ndim)
  for i in ax:
    if x.a.shape[i] != 1:
      raise ValueError('Can not squeeze dim[%d], expected a dimension of 1, got %d' %
                       (i, x.a.shape[i]))
  return Tensor(_obj(np.squeeze(x.a, axis=ax)), x.dtype)


def _common(values):
  ts = [v for v in values if isinstance(v, Tensor)]
  like = ts[0] if ts else None
  out = [_t(v, like) if like is not None else _t(v) for v in values]
  d0 = out[0].dtype
  for o in out:
    if o.dtype != d0:
      raise TypeError('mixed dtypes %s / %s' % (d0.name, o.dtype.name))
  return out


def stack(values, axis=0, name=None):
  vs = _common(list(values))
  shp = vs[0].a.shape
  for v in vs:
    if v.a.shape != shp:
      raise ValueError('stack: shapes differ %s vs %s' % (shp, v.a.shape))
  nd = len(shp) + 1
  axis = int(axis)
  if axis < -nd or axis >= nd:
    raise ValueError('stack axis out of range')
  out = np.empty((len(vs),) + shp, dtype=object)
  for i, v in enumerate(vs):
    out[i] = v.a[()] if v.a.ndim == 0 else v.a
  return Tensor(np.moveaxis(out, 0, axis % nd), vs[0].dtype)


def unstack(value, num=None, axis=0, name=None):
  x = _t(value)
  ax = _axes(axis, x.a.ndim)[0]
  a = np.moveaxis(x.a, ax, 0)
  return [Tensor(_obj(a[i]), x.dtype) for i in builtin_range(a.shape[0])]


def concat(values, axis, name=None):
  vs = _common(list(values))
  nd = vs[0].a.ndim
  if nd == 0:
    raise ValueError('concat of scalars')
  ax = _axes(axis, nd)[0]
  for v in vs:
    if v.a.ndim != nd or any(v.a.shape[i] != vs[0].a.shape[i]
                             for i in builtin_range(nd) if i != ax):
      raise ValueError('concat: incompatible shapes %s' % ([v.a.shape for v in vs],))
  return Tensor(np.concatenate([v.a for v in vs], axis=ax), vs[0].dtype)


def split(value, num_or_size_splits, axis=0, num=None, name=None):
  x = _t(value)
  ax = _axes(axis, x.a.ndim)[0]
  n = x.a.shape[ax]
  if isinstance(num_or_size_splits, Tensor):
    num_or_size_splits = [int(v) for v in num_or_size_splits.a.reshape(-1)]
  if isinstance(num_or_size_splits, (int, np.integer)):
    k = int(num_or_size_splits)
    if n % k:
      raise ValueError('split: %d not divisible by %d' % (n, k))
    sizes = [n // k] * k
  else:
    sizes = [int(s) for s in num_or_size_splits]
    if _bi_sum(sizes) != n:
      raise ValueError('split: sizes %r do not sum to %d' % (sizes, n))
  out = []
  pos = 0
  for s in sizes:
    sl = [slice(None)] * x.a.ndim
    sl[ax] = slice(pos, pos + s)
    out.append(Tensor(x.a[tuple(sl)], x.dtype))
    pos += s
  return out


def tile(input, multiples, name=None):  # pylint: disable=redefined-builtin
  x = _t(input)
  m = [int(v) for v in (multiples.a.reshape(-1) if isinstance(multiples, Tensor) else multiples)]
  if len(m) != x.a.ndim:
    raise ValueError('tile: multiples %r for rank %d' % (m, x.a.ndim))
  return Tensor(np.tile(x.a, m), x.dtype)


def broadcast_to(input, shape, name=None):  # pylint: disable=redefined-builtin
  x = _t(input)
  return Tensor(np.broadcast_to(x.a, _shape_arg(shape)).copy(), x.dtype)


def pad(tensor, paddings, mode='CONSTANT', constant_values=0, name=None):
  x = _t(tensor)
  if mode != 'CONSTANT':
    raise NoContract('pad mode %r' % (mode,))
  pd = _obj_from_nested(paddings)
  if pd.shape != (x.a.ndim, 2):
    raise ValueError('pad: paddings shape %s for rank %d' % (pd.shape, x.a.ndim))
  cv = constant_values
  if isinstance(cv, Tensor):
    cv = cv.a.reshape(-1)[0]
  cv = _conv_elem(cv, x.dtype)
  new_shape = tuple(x.a.shape[i] + int(pd[i, 0]) + int(pd[i, 1]) for i in builtin_range(x.a.ndim))
  out = np.empty(new_shape, dtype=object)
  for idx in np.ndindex(*new_shape):
    out[idx] = cv
  sl = tuple(slice(int(pd[i, 0]), int(pd[i, 0]) + x.a.shape[i]) for i in builtin_range(x.a.ndim))
  out[sl] = x.a
  return Tensor(out, x.dtype)


def _int_array(t):
  t = _t(t)
  if t.dtype.kind != 'i':
    raise TypeError('indices must be integers')
  out = np.empty(t.a.shape, dtype=np.int64)
  for idx in np.ndindex(*t.a.shape):
    v = t.a[idx]
    if not isinstance(v, int):
      raise SymbolicInt('symbolic integer index')
    out[idx] = v
  return out


def gather(params, indices, validate_indices=None, axis=None, batch_dims=0, name=None):
  p = _t(params)
  if batch_dims:
    raise NoContract('gather batch_dims')
  idx = _int_array(indices)
  ax = 0 if axis is None else _axes(axis, p.a.ndim)[0]
  if idx.size and (idx.min() < 0 or idx.max() >= p.a.shape[ax]):
    raise IndexError('gather: index out of range [0, %d): %r' % (p.a.shape[ax], idx))
  return Tensor(_obj(np.take(p.a, idx, axis=ax)), p.dtype)


def gather_nd(params, indices, batch_dims=0, name=None):
  p = _t(params)
  if batch_dims:
    raise NoContract('gather_nd batch_dims')
  idx = _int_array(indices)
  k = idx.shape[-1]
  outer = idx.shape[:-1]
  out = np.empty(outer + p.a.shape[k:], dtype=object)
  for o in np.ndindex(*outer):
    ii = tuple(int(v) for v in idx[o])
    for d, v in enumerate(ii):
      if v < 0 or v >= p.a.shape[d]:
        raise IndexError('gather_nd: index %r out of range' % (ii,))
    out[o] = p.a[ii]
  return Tensor(out, p.dtype)


def one_hot(indices, depth, on_value=None, off_value=None, axis=None, dtype=None, name=None):
  idx = _int_array(indices)
  dt = as_dtype(dtype) if dtype is not None else float32
  on = _conv_elem(1 if on_value is None else on_value, dt)
  off = _conv_elem(0 if off_value is None else off_value, dt)
  depth = int(depth)
  out = np.empty(idx.shape + (depth,), dtype=object)
  for o in np.ndindex(*idx.shape):
    for d in builtin_range(depth):
      out[o + (d,)] = on if idx[o] == d else off
  nd = out.ndim
  ax = -1 if axis is None else int(axis)
  if ax != -1 and ax != nd - 1:
    out = np.moveaxis(out, -1, ax % nd)
  return Tensor(out, dt)


def _perm_oracle(row, direction, why):
  """Chooses how `row` (list of P) is ordered; returns index list (stable on ties
  is *not* assumed: closed conditions overlap on ties)."""
  n = len(row)
  if _bi_all(v.is_const for v in row):
    idx = sorted(builtin_range(n), key=lambda i: row[i].cval,
                 reverse=(direction == 'DESCENDING'))
    return idx
  c = _ctx.cur()

  def order_formula(perm):
    fs = []
    for a, b in zip(perm, perm[1:]):
      fs.append(row[a] >= row[b] if direction == 'DESCENDING' else row[a] <= row[b])
    return E.ball(fs)
  perms = [p for p in itertools.permutations(builtin_range(n)) if _feasible(c, order_formula(p))]
  if not perms:
    perms = [tuple(builtin_range(n))]
  k = c.choose(len(perms), why)
  perm = list(perms[k])
  for a, b in zip(perm, perm[1:]):
    if direction == 'DESCENDING':
      c.assume(row[a] >= row[b], 'oracle: sort order')
    else:
      c.assume(row[a] <= row[b], 'oracle: sort order')
  return perm


def _sort_impl(values, axis, direction):
  x = _t(values)
  if direction not in ('ASCENDING', 'DESCENDING'):
    raise ValueError('direction %r' % (direction,))
  ax = _axes(axis, x.a.ndim)[0]
  a = np.moveaxis(x.a, ax, -1)
  vals = np.empty(a.shape, dtype=object)
  idxs = np.empty(a.shape, dtype=object)
  memo = _ctx.cur().__dict__.setdefault('_sort_memo', {}) if _ctx.active() else {}
  if _ctx.active() and getattr(_ctx.cur(), 'sort_mode', None) == 'abstract' and \
      not _bi_all(P.lift(v).is_const for v in a.flat):
    # Contract instead of a path oracle: the result is SOME non-decreasing (non-increasing)
    # rearrangement; each entry lies between the smallest and the largest input of its row.
    c = _ctx.cur()
    c.axiom('sort: abstract contract (ordered output, entries between min and max of the row)')
    for o in np.ndindex(*a.shape[:-1]):
      row = [P.lift(v) for v in a[o]]
      fresh = [P.var(E.fresh_name('sorted') + '[%d]' % j) for j in builtin_range(len(row))]
      lo, hi = E.pmin(*row), E.pmax(*row)
      for j, f in enumerate(fresh):
        c.assume((f >= lo) & (f <= hi), 'sort contract: within the row range')
        if j:
          c.assume(fresh[j - 1] <= f if direction == 'ASCENDING' else fresh[j - 1] >= f,
                   'sort contract: ordered')
        vals[o + (j,)] = f
        idxs[o + (j,)] = 0
    return (Tensor(np.moveaxis(vals, -1, ax), x.dtype), None)
  for o in np.ndindex(*a.shape[:-1]):
    row = [P.lift(v) for v in a[o]]
    key = (tuple(row), direction)
    perm = memo.get(key)
    if perm is None:
      perm = _perm_oracle(row, direction, 'sort %s' % (direction,))
      memo[key] = perm
    for j, i in enumerate(perm):
      vals[o + (j,)] = row[i] if x.dtype.kind == 'f' else a[o][i]
      idxs[o + (j,)] = i
  return (Tensor(np.moveaxis(vals, -1, ax), x.dtype),
          Tensor(np.moveaxis(idxs, -1, ax), int32))


def sort(values, axis=-1, direction='ASCENDING', name=None):
  return _sort_impl(values, axis, direction)[0]


def argsort(values, axis=-1, direction='ASCENDING', stable=False, name=None):
  return _sort_impl(values, axis, direction)[1]


# ------------------------------------------------------------------- linear algebra

def matmul(a, b, transpose_a=False, transpose_b=False, name=None, **kw):
  if kw:
    raise NoContract('matmul kwargs %r' % (kw,))
  x = _t(a)
  y = _t(b, x)
  if x.dtype != y.dtype:
    raise TypeError('matmul dtype mismatch')
  xa, ya = x.a, y.a
  if xa.ndim < 2 or ya.ndim < 2:
    raise ValueError('matmul: rank < 2 (%s, %s)' % (xa.shape, ya.shape))
  if transpose_a:
    xa = np.swapaxes(xa, -1, -2)
  if transpose_b:
    ya = np.swapaxes(ya, -1, -2)
  if xa.shape[-1] != ya.shape[-2]:
    raise ValueError('matmul: inner dimensions %s %s' % (xa.shape, ya.shape))
  bshape = np.broadcast_shapes(xa.shape[:-2], ya.shape[:-2])
  xa = np.broadcast_to(xa, bshape + xa.shape[-2:])
  ya = np.broadcast_to(ya, bshape + ya.shape[-2:])
  n, k, m = xa.shape[-2], xa.shape[-1], ya.shape[-1]
  out = np.empty(bshape + (n, m), dtype=object)
  for o in np.ndindex(*bshape):
    for i in builtin_range(n):
      for j in builtin_range(m):
        acc = P.const(0)
        for l in builtin_range(k):
          acc = acc + xa[o + (i, l)] * ya[o + (l, j)]
        out[o + (i, j)] = acc
  return Tensor(out, x.dtype)


def tensordot(a, b, axes, name=None):
  x = _t(a)
  y = _t(b, x)
  r = np.tensordot(x.a, y.a, axes=axes)
  return Tensor(_obj(r), x.dtype)


def einsum(equation, *inputs, **kw):
  ts = [_t(i) for i in inputs]
  eq = equation.replace(' ', '')
  if '...' in eq:
    raise NoContract('einsum with ellipsis')
  lhs, rhs = eq.split('->')
  ins = lhs.split(',')
  dims = {}
  for spec, t in zip(ins, ts):
    if len(spec) != t.a.ndim:
      raise ValueError('einsum rank mismatch %r %s' % (spec, t.a.shape))
    for ch, n in zip(spec, t.a.shape):
      if dims.setdefault(ch, n) != n:
        raise ValueError('einsum dim mismatch for %r' % ch)
  summed = [ch for ch in dims if ch not in rhs]
  out = np.empty(tuple(dims[ch] for ch in rhs), dtype=object)
  for o in np.ndindex(*out.shape):
    env = dict(zip(rhs, o))
    acc = P.const(0)
    for s in itertools.product(*[builtin_range(dims[ch]) for ch in summed]):
      env.update(zip(summed, s))
      term = P.const(1)
      for spec, t in zip(ins, ts):
        term = term * t.a[tuple(env[ch] for ch in spec)]
      acc = acc + term
    out[o] = acc
  return Tensor(_obj(out), ts[0].dtype)


# ------------------------------------------------------------------ control & misc

class _OpRecord(object):
  pass


def Assert(condition, data, summarize=None, name=None):  # pylint: disable=invalid-name
  c = _t(condition)
  if c.dtype.kind != 'b':
    raise TypeError('Assert condition must be boolean')
  if c.a.size != 1:
    # Real eager TF: `if not condition` on a non-scalar raises ValueError.
    raise ValueError('The truth value of an array with more than one element is '
                     'ambiguous (tf.Assert on a non-scalar condition, shape %s)' % (c.a.shape,))
  b = B.lift(c.a.reshape(-1)[0])
  label = None
  for d in data:
    if isinstance(d, str):
      label = d
      break
  _ctx.cur().asserts.append((label, b))
  r = _OpRecord()
  r.condition = b
  r.label = label
  return r


def control_dependencies(control_inputs):
  import contextlib
  return contextlib.nullcontext()


def name_scope(*a, **k):
  import contextlib
  return contextlib.nullcontext()


def executing_eagerly():
  return True


def function(func=None, **kw):
  if func is None:
    return lambda f: f
  return func


def group(*inputs, **kw):
  return list(inputs)


def cond(pred, true_fn=None, false_fn=None, name=None):
  p = pred
  if isinstance(p, Tensor):
    p = p.a.reshape(-1)[0]
  if _bi.bool(B.lift(p) if not isinstance(p, (int, P)) else p):
    return true_fn()
  return false_fn()


def custom_gradient(f):
  def wrapped(*args, **kwargs):
    result, grad_fn = f(*args, **kwargs)
    if _ctx.active():
      _ctx.cur().custom_gradients.append((f, args, kwargs, result, grad_fn))
    return result
  wrapped.__wrapped__ = f
  wrapped.__name__ = getattr(f, '__name__', 'custom_gradient')
  return wrapped


def while_loop(cond, body, loop_vars, **kw):
  """Contract for tf.while_loop.

  Modes (ctx.loop_mode):
    None / ('unroll',)       : run concretely while cond holds (cond must be concrete).
    ('invariant', spec)      : spec.min_iters concrete iterations, then the supplied
                               inductive invariant: oblige inv(state); havoc; assume
                               inv(state'); run body once; oblige inv(body(state'));
                               continue from state' (any number of further iterations).
  """
  c = _ctx.cur()
  mode = c.loop_mode
  state = tuple(loop_vars)

  def cond_val(st):
    v = cond(*st)
    if isinstance(v, Tensor):
      v = v.a.reshape(-1)[0]
    v = B.lift(v)
    if v.kind != 'const':
      raise NoContract('while_loop condition is symbolic')
    return _bi.bool(v.args)

  if mode is None or mode[0] == 'unroll':
    n = 0
    while cond_val(state):
      state = tuple(body(*state))
      n += 1
      if n > 100000:
        raise NoContract('while_loop does not terminate concretely')
    c.loops.append(('unroll', n))
    return state
  if mode[0] == 'fixpoint':
    # One execution of the real body from the entry state; if every float component of the state
    # is unchanged (obligations), the loop returns the entry state for ANY iteration count.
    nxt = tuple(body(*state))
    _oblige_same(c, state, nxt, 'loop-fixpoint')
    c.loops.append(('fixpoint', 1))
    return state
  if mode[0] == 'tail':
    # Exit state of ANY run with >= k iterations: the last k iterations applied to an
    # arbitrary (havocked) state.  Sound over-approximation; exact facts established by the
    # last iterations (e.g. "the bias was just set to output_min") survive.
    k = int(mode[1])
    hv = _havoc(state, 'loop')
    if len(mode) > 2 and mode[2] is not None:
      for name, b in mode[2](hv):
        c.assume(b, 'loop-entry assumption ' + name)
    st = hv
    for _ in builtin_range(k):
      st = tuple(body(*st))
    c.loops.append(('tail', k))
    return st
  raise NoContract('unknown loop mode %r' % (mode,))


def _oblige_same(c, a, b, label):
  if isinstance(a, Tensor):
    if a.dtype.kind != 'f':
      return
    if a.a.shape != b.a.shape:
      c.oblige(label + ':shape', E.FALSE, 'invariant')
      return
    for idx in np.ndindex(*a.a.shape):
      c.oblige('%s%s' % (label, list(idx)), P.lift(a.a[idx]).eq(P.lift(b.a[idx])), 'invariant')
    return
  if isinstance(a, (tuple, list)):
    for i, (x, y) in enumerate(zip(a, b)):
      _oblige_same(c, x, y, '%s.%d' % (label, i))
    return
  if isinstance(a, dict):
    for k in a:
      _oblige_same(c, a[k], b[k], '%s[%s]' % (label, k))


def _havoc(v, prefix):
  if isinstance(v, Tensor):
    if v.dtype.kind == 'f':
      return sym(v.a.shape, E.fresh_name(prefix), v.dtype)
    return v
  if isinstance(v, tuple):
    return tuple(_havoc(x, prefix) for x in v)
  if isinstance(v, list):
    return [_havoc(x, prefix) for x in v]
  if isinstance(v, dict):
    return {k: _havoc(x, prefix) for k, x in v.items()}
  return v


def map_fn(fn, elems, **kw):
  xs = unstack(elems, axis=0)
  return stack([fn(x) for x in xs], axis=0)


def tensor_scatter_nd_add(*a, **k):
  raise NoContract('tensor_scatter_nd_add')


# ------------------------------------------------------------------------ namespaces

class _NS(types.ModuleType):
  pass


def _ns(name, **items):
  m = _NS('tensorflow.' + name)
  for k, v in items.items():
    setattr(m, k, v)
  sys.modules.setdefault('tensorflow.' + name, m)
  return m


def _fresh_tensor(shape, prefix):
  out = np.empty(shape, dtype=object)
  base = E.fresh_name(prefix)
  for idx in np.ndindex(*shape):
    out[idx] = P.var('%s%s' % (base, list(idx)))
  return out


def _softmax(logits, axis=-1, name=None):
  x = _t(logits)
  ax = _axes(axis, x.a.ndim)[0]
  if _bi_all(v.is_const for v in x.a.flat):
    a = np.array([[float(v.cval)] for v in x.a.flat]).reshape(x.a.shape)
    e = np.exp(a - a.max(axis=ax, keepdims=True))
    s = e / e.sum(axis=ax, keepdims=True)
    return convert_to_tensor(s.tolist(), dtype=x.dtype)
  c = _ctx.cur()
  c.axiom('softmax: uninterpreted per slice; entries > 0, sum == 1')
  a = np.moveaxis(x.a, ax, -1)
  out = np.empty(a.shape, dtype=object)
  for o in np.ndindex(*a.shape[:-1]):
    row = tuple(a[o])
    tot = P.const(0)
    for j in builtin_range(len(row)):
      r = E.fn('softmax[%d]' % j, *row)
      c.assume(r > 0, 'axiom softmax>0')
      out[o + (j,)] = r
      tot = tot + r
    c.assume(tot.eq(1), 'axiom softmax sum')
  return Tensor(np.moveaxis(out, -1, ax), x.dtype)


def _sigmoid(x, name=None):
  def f(a):
    if a.is_const:
      return P.const(1.0 / (1.0 + _pymath.exp(-float(a.cval))))
    c = _ctx.cur()
    c.axiom('sigmoid: uninterpreted, 0 < s < 1, monotone (pairwise axioms)')
    r = E.fn('sigmoid', a)
    c.assume((r > 0) & (r < 1), 'axiom sigmoid range')
    _mono_axiom(c, 'sigmoid', a, r)
    return r
  return _unop(f, x)


def _mono_axiom(c, name, arg, res, strict=True):
  """Pairwise monotonicity instances between all applications seen so far."""
  seen = c.__dict__.setdefault('_mono_' + name, [])
  for (a2, r2) in seen:
    c.assume((arg <= a2).implies(res <= r2) & (a2 <= arg).implies(r2 <= res),
             'axiom %s monotone' % name)
  seen.append((arg, res))


def _exp(x, name=None):
  def f(a):
    if a.is_const:
      return P.const(_pymath.exp(float(a.cval)))
    c = _ctx.cur()
    c.axiom('exp: uninterpreted, > 0, monotone (pairwise), exp(log t) == t')
    # exp(log(t)) == t
    if len(a.t) == 1:
      (m, k), = a.t.items()
      if k == 1 and len(m) == 1 and m[0][1] == 1 and E.ATOMS[m[0][0]].kind == 'fn' \
          and E.ATOMS[m[0][0]].name == 'log':
        return E.ATOMS[m[0][0]].args[0]
    r = E.fn('exp', a)
    c.assume(r > 0, 'axiom exp>0')
    _mono_axiom(c, 'exp', a, r)
    return r
  return _unop(f, x)


def _log(x, name=None):
  def f(a):
    if a.is_const:
      return P.const(_pymath.log(float(a.cval)))
    c = _ctx.cur()
    c.axiom('log: uninterpreted on t>0, monotone (pairwise)')
    r = E.fn('log', a)
    _mono_axiom(c, 'log', a, r)
    return r
  return _unop(f, x)


FN_DOMAIN['log'] = lambda args: args[0] > 0
E.FN_EVAL.update({
    'sigmoid': lambda v: 1.0 / (1.0 + _pymath.exp(-float(v))),
    'exp': lambda v: _pymath.exp(float(v)),
    'log': lambda v: _pymath.log(float(v)),
})


def _relu6(x, name=None):
  return minimum(maximum(x, 0.0), 6.0)


def _relu(x, name=None):
  return maximum(x, 0.0)


def _depthwise_conv2d(input, filter, strides, padding, data_format=None, dilations=None, name=None):  # pylint: disable=redefined-builtin
  x = _t(input)
  k = _t(filter, x)
  if list(strides) != [1, 1, 1, 1] or padding != 'VALID' or dilations not in (None, [1, 1], (1, 1)):
    raise NoContract('depthwise_conv2d configuration')
  if data_format not in (None, 'NHWC'):
    raise NoContract('depthwise_conv2d data_format')
  bsz, h, w, cin = x.a.shape
  fh, fw, cin2, mult = k.a.shape
  if cin2 != cin:
    raise ValueError('depthwise_conv2d: channels %d vs %d' % (cin, cin2))
  oh, ow = h - fh + 1, w - fw + 1
  if oh < 1 or ow < 1:
    raise ValueError('depthwise_conv2d: filter larger than input')
  out = np.empty((bsz, oh, ow, cin * mult), dtype=object)
  for b in builtin_range(bsz):
    for i in builtin_range(oh):
      for j in builtin_range(ow):
        for c_ in builtin_range(cin):
          for m in builtin_range(mult):
            acc = P.const(0)
            for di in builtin_range(fh):
              for dj in builtin_range(fw):
                acc = acc + x.a[b, i + di, j + dj, c_] * k.a[di, dj, c_, m]
            out[b, i, j, c_ * mult + m] = acc
  return Tensor(out, x.dtype)


nn = _ns('nn', softmax=_softmax, sigmoid=_sigmoid, relu6=_relu6, relu=_relu,
         depthwise_conv2d=_depthwise_conv2d)
sigmoid = _sigmoid


def _random_uniform(shape, minval=0, maxval=None, dtype=float32, seed=None, name=None):
  dt = as_dtype(dtype)
  if dt.kind != 'f':
    raise NoContract('random.uniform for non-float')
  if maxval is None:
    maxval = 1
  shp = _shape_arg(shape)
  c = _ctx.cur()
  oracle = c.random_oracle
  if oracle is not None:
    return oracle('uniform', shp, minval, maxval, dt)
  c.axiom('random.uniform: fresh values in [minval, maxval)')
  a = _fresh_tensor(shp, 'rnd')
  lo = _t(minval, Tensor(a, dt))
  hi = _t(maxval, Tensor(a, dt))
  t = Tensor(a, dt)
  for (v, l, h) in np.nditer([a, np.broadcast_to(lo.a, shp), np.broadcast_to(hi.a, shp)],
                             flags=['refs_ok']):
    c.assume((v.item() >= l.item()) & (v.item() <= h.item()), 'axiom uniform range')
  return t


random = _ns('random', uniform=_random_uniform)

math_ns = _ns('math', exp=_exp, log=_log, divide_no_nan=divide_no_nan, abs=abs,
              maximum=maximum, minimum=minimum, reduce_sum=reduce_sum, reduce_max=reduce_max,
              reduce_min=reduce_min, reduce_mean=reduce_mean, reduce_prod=reduce_prod,
              square=square, sqrt=sqrt, sign=sign, pow=pow, sigmoid=_sigmoid,
              cumsum=cumsum, add=add, subtract=subtract, multiply=multiply, divide=divide,
              add_n=add_n, equal=equal, less=less, greater=greater, logical_or=logical_or,
              logical_and=logical_and, logical_not=logical_not)
globals()['math'] = math_ns
exp = _exp


class _Errors(object):
  class InvalidArgumentError(Exception):
    pass

  class OpError(Exception):
    pass


errors = _Errors


class _GraphKeys(object):
  REGULARIZATION_LOSSES = 'regularization_losses'


def _v1_add_to_collection(*a, **k):
  return None


_v1 = _ns('compat.v1', add_to_collection=_v1_add_to_collection, GraphKeys=_GraphKeys,
          is_variable_initialized=lambda v: True)
compat = _ns('compat', v1=_v1)


class _Ragged(object):
  @staticmethod
  def map_flat_values(*a, **k):
    raise NoContract('ragged tensors')


ragged = _Ragged


class Variable(Tensor):
  """Symbolic variable: a tensor that can be re-assigned."""

  def __init__(self, initial_value, dtype=None, name=None, trainable=True, constraint=None,
               **kw):
    t = _t(initial_value) if dtype is None else (
        cast(_t(initial_value), dtype) if isinstance(initial_value, Tensor)
        else convert_to_tensor(initial_value, dtype=dtype))
    Tensor.__init__(self, t.a, t.dtype)
    self.name = name
    self.trainable = trainable
    self.constraint = constraint

  def assign(self, value, **kw):
    v = _t(value, self)
    if v.a.shape != self.a.shape:
      raise ValueError('assign: shape %s to variable of shape %s' % (v.a.shape, self.a.shape))
    self.a = v.a
    return self

  def assign_add(self, delta, **kw):
    return self.assign(add(self, delta))

  def assign_sub(self, delta, **kw):
    return self.assign(subtract(self, delta))

  def value(self):
    return Tensor(self.a, self.dtype)

  def read_value(self):
    return Tensor(self.a, self.dtype)


def constant_initializer(value=0):
  def init(shape, dtype=None, **kw):
    return constant(value, dtype=dtype or float32, shape=shape)
  return init


# ------------------------------------------------------------------ concrete <-> numpy

def to_numpy(t):
  t = _t(t)
  if t.dtype.kind == 'f':
    out = np.empty(t.a.shape, dtype=np.float64)
    for idx in np.ndindex(*t.a.shape):
      v = t.a[idx]
      if not v.is_const:
        raise E.SymbolicValueError('numpy() of a symbolic tensor')
      out[idx] = float(v.cval)
    return out
  if t.dtype.kind == 'i':
    return np.array(t.a.tolist(), dtype=np.int64).reshape(t.a.shape)
  if t.dtype.kind == 'b':
    out = np.empty(t.a.shape, dtype=_bi.bool)
    for idx in np.ndindex(*t.a.shape):
      out[idx] = _bi.bool(B.lift(t.a[idx]))
    return out
  return t.a


def sym(shape, prefix, dtype=float32):
  """Fresh symbolic float tensor with readable element names `prefix[i, j]`."""
  shape = tuple(shape)
  out = np.empty(shape, dtype=object)
  rng = getattr(_ctx.cur(), 'concrete_rng', None) if _ctx.active() else None
  for idx in np.ndindex(*shape):
    if rng is not None:
      # cross-check mode: random small rationals instead of symbols
      out[idx] = P.const(Fr(rng.randint(-12, 12), rng.choice([1, 2, 4])))
    else:
      out[idx] = P.var('%s%s' % (prefix, list(idx)) if shape else prefix)
  return Tensor(out, as_dtype(dtype))


def from_fractions(nested, dtype=float32):
  return convert_to_tensor(nested, dtype=dtype)
