"""Runs call descriptors against the REAL TensorFlow and the real repository code.

Executed as a separate process (`python -m vt.native in.json out.json`) because the
symbolic processes have `tensorflow` bound to the contract library.

Descriptor:
  {"kind": "fn", "module": "lattice_lib", "qualname": "finalize_constraints",
   "args": [...], "kwargs": {...}}
  {"kind": "method", "module": "lattice_layer", "cls": "LatticeConstraints",
   "init": {...}, "method": "__call__", "args": [...], "kwargs": {...}}
  {"kind": "layer", "module": ..., "cls": ..., "init": {...}, "weights": {name: tensor},
   "inputs": ..., "method": "call" | "finalize_constraints" | "assert_constraints", ...}
Values: {"__t__": nested list, "dtype": "float64"} tensors, {"__tuple__": [...]},
{"__enum__": [module, class, member]}, {"__obj__": {module, cls, init}}, plain JSON otherwise.
Result per descriptor: {"ok": encoded value} or {"error": "ExcType: message"}.
"""
import importlib
import json
import os
import sys
import traceback


def _dec(v, tf):
  if isinstance(v, dict):
    if '__t__' in v:
      return tf.constant(v['__t__'], dtype=getattr(tf, v.get('dtype', 'float64')))
    if '__tuple__' in v:
      return tuple(_dec(x, tf) for x in v['__tuple__'])
    if '__enum__' in v:
      m, c, n = v['__enum__']
      return getattr(getattr(_mod(m), c), n)
    if '__obj__' in v:
      o = v['__obj__']
      return getattr(_mod(o['module']), o['cls'])(**_dec(o.get('init', {}), tf))
    if '__float__' in v:
      return float(v['__float__'])
    return {k: _dec(x, tf) for k, x in v.items()}
  if isinstance(v, list):
    return [_dec(x, tf) for x in v]
  return v


def _enc(v):
  import numpy as np
  import tensorflow as tf
  if isinstance(v, (tf.Tensor, tf.Variable)):
    return {'__t__': np.asarray(v.numpy(), dtype=float).tolist() if v.dtype != tf.bool
            else np.asarray(v.numpy()).tolist()}
  if isinstance(v, np.ndarray):
    return {'__t__': v.tolist()}
  if isinstance(v, (np.floating, np.integer)):
    return v.item()
  if isinstance(v, tuple):
    return {'__tuple__': [_enc(x) for x in v]}
  if isinstance(v, list):
    return [_enc(x) for x in v]
  if isinstance(v, dict):
    return {str(k): _enc(x) for k, x in v.items()}
  if v is None or isinstance(v, (bool, int, float, str)):
    return v
  return {'__repr__': repr(v)}


def _mod(name):
  return importlib.import_module('tensorflow_lattice.python.' + name)


def _resolve(modname, qualname):
  o = _mod(modname)
  for p in qualname.split('.'):
    o = getattr(o, p)
  return o


def _set_floatx(tf, fx):
  tf.keras.backend.set_floatx(fx)
  try:
    import tf_keras
    tf_keras.backend.set_floatx(fx)
  except ImportError:
    pass


def run_one(d, tf):
  kind = d['kind']
  _set_floatx(tf, d.get('floatx', 'float64'))
  args = _dec(d.get('args', []), tf)
  kwargs = _dec(d.get('kwargs', {}), tf)
  if kind == 'fn':
    return _resolve(d['module'], d['qualname'])(*args, **kwargs)
  if kind == 'method':
    obj = getattr(_mod(d['module']), d['cls'])(**_dec(d.get('init', {}), tf))
    return getattr(obj, d['method'])(*args, **kwargs)
  if kind == 'layer':
    layer = getattr(_mod(d['module']), d['cls'])(**_dec(d.get('init', {}), tf))
    inputs = _dec(d.get('inputs'), tf)
    if 'build_shape' in d:
      layer.build(_dec(d['build_shape'], tf))
    elif inputs is not None:
      layer(inputs)
    for name, val in (d.get('weights') or {}).items():
      getattr(layer, name).assign(tf.cast(_dec(val, tf), getattr(layer, name).dtype))
    m = d.get('method', 'call')
    if m == 'call':
      return layer(inputs)
    r = getattr(layer, m)(*args, **kwargs)
    if d.get('return_weights'):
      rw = d['return_weights']
      if isinstance(rw, str):
        return getattr(layer, rw)
      return {n: getattr(layer, n) for n in rw}
    return r
  if kind == 'script':
    env = {'tf': tf, 'args': args, 'kwargs': kwargs, 'mod': _mod}
    exec(d['code'], env)  # pylint: disable=exec-used
    return env['result']
  raise ValueError('unknown descriptor kind %r' % (kind,))


def main(argv):
  os.environ.setdefault('TF_CPP_MIN_LOG_LEVEL', '3')
  os.environ.setdefault('CUDA_VISIBLE_DEVICES', '')
  repo = os.environ.get('VT_REPO', '/repo')
  sys.path.insert(0, repo)
  import tensorflow as tf
  tf.keras.backend.set_floatx('float64')
  try:
    import tf_keras
    tf_keras.backend.set_floatx('float64')
  except ImportError:
    pass
  import tensorflow_lattice  # pylint: disable=unused-import
  assert tensorflow_lattice.__file__.startswith(repo), tensorflow_lattice.__file__
  with open(argv[1]) as f:
    descs = json.load(f)
  out = []
  for d in descs:
    try:
      out.append({'ok': _enc(run_one(d, tf))})
    except Exception as e:  # pylint: disable=broad-except
      out.append({'error': '%s: %s' % (type(e).__name__, str(e)[:2000]),
                  'trace': traceback.format_exc()[-3000:]})
  with open(argv[2], 'w') as f:
    json.dump(out, f)


if __name__ == '__main__':
  main(sys.argv)
