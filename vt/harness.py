"""Contracts on real functions, modular verification, obligations, reports.

A `Contract` is attached to one real function of /repo (looked up by module and
qualified name in the freshly loaded module).  It has the *same signature view* as
the function: `pre(*args, **kw)`, `post(out, *args, **kw)` return lists of named
clauses `(name, formula)`; `fresh_out(*args, **kw)` builds fresh symbols of the
result's shape.

verify(contract, make_args):
  assume pre(args); run the REAL function body on the symbolic args with every
  *other* contracted function replaced by `assert pre / havoc / assume post`;
  oblige post(out, args).  Every obligation is sent to solve.prove separately.
"""
import contextlib
import time
import traceback

from . import ctx as C
from . import expr as E
from . import load
from . import solve
from . import tfc
from .expr import B, P


def le(name, a, b):
  return (name, P.lift(a) <= P.lift(b))


def ge(name, a, b):
  return (name, P.lift(a) >= P.lift(b))


def eq(name, a, b):
  return (name, P.lift(a).eq(P.lift(b)))


def conj(clauses):
  return E.ball([b for _, b in clauses])


def under(hyp, clauses, tag=None):
  """Clauses conditional on a hypothesis formula."""
  return [((tag + ':' + n) if tag else n, hyp.implies(b)) for n, b in clauses]


def tensors_equal(name, x, y):
  x = tfc._t(x)
  y = tfc._t(y, x)
  if x.a.shape != y.a.shape:
    return [(name + ':shape', E.FALSE)]
  import numpy as np
  out = []
  for idx in np.ndindex(*x.a.shape):
    out.append(('%s%s' % (name, list(idx)), P.lift(x.a[idx]).eq(P.lift(y.a[idx]))))
  return out


class Contract(object):
  module = None      # repo module short name, e.g. 'lattice_lib'
  qualname = None    # function or Class.method
  inline = False     # never stubbed (pure structure helpers)

  def pre(self, *args, **kw):
    return []

  def post(self, out, *args, **kw):
    raise NotImplementedError

  def fresh_out(self, *args, **kw):
    raise NotImplementedError

  def view(self, out, *args, **kw):
    """What the postcondition talks about, computed from the real function's return value."""
    return out

  def raised(self, exc, *args, **kw):
    """The real function raised `exc` during symbolic execution: return the output view that
    stands for it, or re-raise (default) when raising is not part of the contract."""
    raise exc

  def native_view(self, nat):
    """Output view from the native runner's result record."""
    return nat['ok']

  # -- plumbing
  @property
  def key(self):
    return '%s.%s' % (self.module, self.qualname)

  def resolve(self):
    """(owner object, attribute name, real function) or None when absent."""
    m = load.mod(self.module)
    owner = m
    parts = self.qualname.split('.')
    for p in parts[:-1]:
      owner = getattr(owner, p, None)
      if owner is None:
        return None
    f = owner.__dict__.get(parts[-1]) if isinstance(owner, type) else getattr(owner, parts[-1], None)
    if f is None:
      return None
    return owner, parts[-1], f


REGISTRY = {}


def register(cls):
  c = cls()
  REGISTRY[c.key] = c
  return cls


def make_stub(contract, real):
  def stub(*args, **kw):
    c = C.cur()
    c.stubs_called.append(contract.key)
    n = len([1 for s in c.stubs_called if s == contract.key])
    for name, b in contract.pre(*args, **kw):
      c.oblige('%s#%d:pre:%s' % (contract.key, n, name), b, 'pre')
    out = contract.fresh_out(*args, **kw)
    for name, b in contract.post(out, *args, **kw):
      c.assume(b, 'post %s#%d:%s' % (contract.key, n, name))
    return out
  stub.__name__ = getattr(real, '__name__', 'stub')
  stub.__vt_stub__ = contract.key
  return stub


@contextlib.contextmanager
def stubbed(except_keys=(), only=None):
  patched = []
  try:
    for key, ct in REGISTRY.items():
      if key in except_keys or ct.inline:
        continue
      if only is not None and key not in only:
        continue
      r = ct.resolve()
      if r is None:
        continue   # helper renamed / inlined by a refactoring: execute through it
      owner, attr, real = r
      st = make_stub(ct, real)
      if isinstance(owner, type):
        patched.append((owner, attr, owner.__dict__[attr]))
        setattr(owner, attr, st)
      else:
        patched.append((owner, attr, real))
        setattr(owner, attr, st)
    yield
  finally:
    for owner, attr, real in reversed(patched):
      setattr(owner, attr, real)


MAX_REFUTED_PER_FAMILY = 3


class GoalResult(object):
  __slots__ = ('fn', 'cfg', 'name', 'kind', 'status', 'time', 'backend', 'model', 'detail',
               'hyps', 'path')

  def as_dict(self):
    return {k: getattr(self, k) for k in ('fn', 'cfg', 'name', 'kind', 'status', 'time',
                                          'backend', 'detail', 'hyps', 'path')}


class RunError(Exception):
  pass


def run_symbolic(fn_label, body, cfg_label='', loop_mode=None, setup_ctx=None,
                 timeout_ms=None, canary=None, check_cover=True):
  """Explores every path of `body(ctx)`, which must return a list of ensures
  clauses; solves all obligations.  Returns list of GoalResult and stats."""
  results = []
  stats = {'paths': 0, 'covers': 0, 'canaries': 0, 'assumption_kinds': set(), 'axioms': set(),
           'stubs': set(), 'loops': [], 'sym_time': 0.0}

  def one(c):
    c.loop_mode = loop_mode
    c.entail = solve.entails
    if setup_ctx:
      setup_ctx(c)
    return body(c)

  t0 = time.time()
  fam_refuted = {}
  for c, clauses in C.explore(one):
    stats['paths'] += 1
    stats['sym_time'] += time.time() - t0
    stats['axioms'] |= c.axioms_used
    stats['stubs'] |= set(c.stubs_called)
    stats['loops'] += c.loops
    hyps = [a for a, _ in c.assumptions]
    path = [t[0] for t in c.trace]
    tr = solve.Translator()
    # vacuity guard: the hypotheses must be satisfiable
    if check_cover:
      r = solve.check_sat(hyps, tr, timeout_ms, want_model=False)
      if r.status == 'unsat':
        if path:
          # an infeasible oracle path (e.g. contradictory sort orders): nothing to prove.
          stats.setdefault('infeasible_paths', 0)
          stats['infeasible_paths'] += 1
          t0 = time.time()
          continue
        raise RunError('%s %s: hypotheses are unsatisfiable (vacuous contract)' %
                       (fn_label, cfg_label))
      if r.status == 'sat':
        stats['covers'] += 1
    goals = []
    have = []
    for ob in c.obligations:
      goals.append((ob.name, ob.kind, ob.goal, hyps[:ob.hyp_count]))
    for name, b in clauses:
      goals.append((name, 'ensures', b, hyps))
    for name, kind, goal, hy in goals:
      g = GoalResult()
      g.fn, g.cfg, g.name, g.kind, g.path = fn_label, cfg_label, name, kind, path
      g.hyps = len(hy)
      fam = name.split('[')[0].split('@')[0]
      if fam_refuted.get(fam, 0) >= MAX_REFUTED_PER_FAMILY and goal.kind != 'const':
        # this clause family already failed several times in this case: the verdict is settled,
        # do not spend solver time on its remaining instances
        g.status, g.time, g.backend, g.model, g.detail = 'skipped', 0.0, '', None, 'family already refuted'
        results.append(g)
        continue
      if name.startswith('undecided:'):
        # the case itself could not decide this clause (outside its encoding): reported as undecided, never
        # as a violation and never as discharged
        g.status, g.time, g.backend, g.model, g.detail = 'unknown', 0.0, '', None, 'outside the encoding of this case'
        results.append(g)
        continue
      r = solve.prove(list(hy) + have, goal, tr, timeout_ms)
      if r.status == 'refuted':
        fam_refuted[fam] = fam_refuted.get(fam, 0) + 1
      if name.startswith('have:') and r.status == 'proved':
        # a proved intermediate step may be used by the clauses that follow it
        have.append(goal)
      g.status, g.time, g.backend, g.model, g.detail = r.status, r.time, r.backend, r.model, r.detail
      results.append(g)
    if canary is not None:
      name, b = canary(c)
      r = solve.prove(hyps, b, tr, timeout_ms)
      if r.status == 'proved':
        raise RunError('%s %s: canary %s was proved: hypotheses or engine are vacuous here' %
                       (fn_label, cfg_label, name))
      if r.status == 'refuted':
        stats['canaries'] += 1
      else:
        stats.setdefault('canary_unknown', 0)
        stats['canary_unknown'] += 1
    t0 = time.time()
  return results, stats


def verify(contract, make_args, cfg_label='', loop_mode=None, timeout_ms=None, extra_pre=None,
           canary=True, setup_ctx=None, inline_only=None):
  """Verifies the real function behind `contract` against its own contract."""
  r = contract.resolve()
  if r is None:
    return None, None   # function absent: callers fall back to inline execution
  owner, attr, real = r
  holder = {}

  def body(c):
    args, kw = make_args()
    holder['args'] = (args, kw)
    for name, b in contract.pre(*args, **kw):
      c.assume(b, 'pre:' + name)
    if extra_pre:
      for name, b in extra_pre(*args, **kw):
        c.assume(b, 'pre+:' + name)
    with stubbed(except_keys=(contract.key,), only=inline_only):
      try:
        out = real(*args, **kw)
      except (ValueError, TypeError, IndexError, KeyError, AssertionError, ZeroDivisionError) as e:
        if isinstance(e, (tfc.NoContract, E.SymbolicValueError)):
          raise
        if type(contract).raised is Contract.raised:
          # implicit postcondition "returns normally" under the precondition: the exception was raised on
          # this (feasible, see cover check) path.  Reported only if the real code raises natively as well
          # (prop.conclude); otherwise it is a checker error.
          holder['out'] = None
          return [('returns-normally: raised %s: %s' % (type(e).__name__, str(e).splitlines()[0][:120] if str(e) else ''), E.FALSE)]
        out = contract.raised(e, *args, **kw)
      else:
        out = contract.view(out, *args, **kw)
    holder['out'] = out
    return contract.post(out, *args, **kw)

  def canary_fn(c):
    out = holder['out']
    if out is None:
      return ('canary:raised', E.FALSE)
    t = out
    while isinstance(t, (list, tuple)):
      t = t[0]
    v = t.a.reshape(-1)[0]
    return ('canary:out==fresh', P.lift(v).eq(P.var('canary!k')))

  return run_symbolic(contract.key, body, cfg_label, loop_mode, setup_ctx, timeout_ms,
                      canary_fn if canary else None)
