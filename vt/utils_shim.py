"""Spec-side canonical forms of hyperparameter spellings (from the class docstrings,
independent of tensorflow_lattice.python.utils)."""


def canon_monotonicity(m):
  if m is None:
    return 0
  if isinstance(m, str):
    return {'increasing': 1, 'decreasing': -1, 'none': 0}[m.lower()]
  return int(m)


def canon_monotonicities(ms, n):
  if ms is None:
    return [0] * n
  return [canon_monotonicity(m) for m in ms]


def canon_unimodality(u):
  if u is None:
    return 0
  if isinstance(u, str):
    return {'valley': 1, 'peak': -1, 'none': 0}[u.lower()]
  return int(u)


def canon_unimodalities(us, n):
  if us is None:
    return [0] * n
  return [canon_unimodality(u) for u in us]


def canon_trusts(ts):
  if not ts:
    return []
  if isinstance(ts, tuple) and len(ts) == 3 and isinstance(ts[0], int):
    ts = [ts]
  out = []
  for (m, c, d) in ts:
    if isinstance(d, str):
      d = {'positive': 1, 'negative': -1}[d.lower()]
    out.append((m, c, int(d)))
  return out


def canon_convexity(c):
  if c is None:
    return 0
  if isinstance(c, str):
    return {'convex': 1, 'concave': -1, 'none': 0}[c.lower()]
  return int(c)
