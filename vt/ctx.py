"""Verification context: what a symbolic run of real code accumulates.

* assumptions: formulas that may be used as hypotheses (preconditions, assumed
  callee postconditions, operator axioms on uninterpreted symbols, path
  conditions of oracle / fork decisions).
* obligations: formulas that must be proved under the assumptions known *at the
  moment they were raised* (callee preconditions, safety conditions, loop
  invariants).  Top-level `ensures` clauses are added by the harness afterwards.
* decisions: forks on symbolic Python-level branches and path oracles.
"""
import contextlib
from .expr import B, P, TRUE, FALSE, band, fresh_name


class Obligation(object):
  __slots__ = ('name', 'goal', 'hyp_count', 'kind', 'info')

  def __init__(self, name, goal, hyp_count, kind, info=None):
    self.name = name
    self.goal = goal
    self.hyp_count = hyp_count   # number of assumptions visible to this goal
    self.kind = kind             # ensures | pre | safety | invariant | lemma | cover
    self.info = info


class ForkNeeded(Exception):
  pass


class Ctx(object):

  def __init__(self, prefix=()):
    self.assumptions = []        # list of (B, why)
    self.obligations = []
    self.prefix = list(prefix)   # forced decisions (replayed)
    self.trace = []              # decisions taken in this run: (choice, n_alternatives, why)
    self.asserts = []            # recorded tf.Assert conditions
    self.custom_gradients = []   # (fn, args, result, grad_fn)
    self.axioms_used = set()     # names of axiomatised operators used
    self.loop_mode = None        # see tfc.while_loop
    self.loops = []              # records of executed while loops
    self.stubs_called = []       # names of contracted callees invoked
    self.safety_enabled = True
    self.notes = []
    self.entail = None           # optional callable(assumptions, B) -> True/False/None
    self.random_oracle = None

  # -- hypotheses and goals
  def assume(self, b, why=''):
    if isinstance(b, bool):
      b = B.const(b)
    if b.kind == 'const' and b.args:
      return
    self.assumptions.append((b, why))

  def oblige(self, name, b, kind='safety', info=None):
    if isinstance(b, bool):
      b = B.const(b)
    self.obligations.append(Obligation(name, b, len(self.assumptions), kind, info))

  def axiom(self, name):
    self.axioms_used.add(name)

  # -- choices
  def choose(self, n, why):
    """Returns an index in range(n); all n alternatives get explored by re-runs."""
    k = len(self.trace)
    if k < len(self.prefix):
      c = self.prefix[k]
    else:
      c = 0
    self.trace.append((c, n, why))
    return c

  def decide(self, b, why):
    """Python-level branch on a symbolic formula."""
    if b.kind == 'const':
      return bool(b.args)
    if self.entail is not None:
      r = self.entail([a for a, _ in self.assumptions], b)
      if r is True:
        return True
      r2 = self.entail([a for a, _ in self.assumptions], ~b)
      if r2 is True:
        return False
    c = self.choose(2, why)
    if c == 0:
      self.assume(b, 'path: ' + why)
      return True
    self.assume(~b, 'path: not ' + why)
    return False


_STACK = []


def cur():
  if not _STACK:
    raise RuntimeError('no verification context active')
  return _STACK[-1]


def active():
  return bool(_STACK)


@contextlib.contextmanager
def use(c):
  _STACK.append(c)
  try:
    yield c
  finally:
    _STACK.pop()


def decide(b, why):
  return cur().decide(b, why)


def next_prefixes(trace):
  """Given the trace of a finished run, the decision prefixes still to explore."""
  out = []
  for i in range(len(trace) - 1, -1, -1):
    c, n, _ = trace[i]
    if c + 1 < n:
      out.append([t[0] for t in trace[:i]] + [c + 1])
      break
  return out


def explore(run):
  """Calls run(ctx) for every path; yields (ctx, result)."""
  prefix = []
  while True:
    c = Ctx(prefix)
    with use(c):
      r = run(c)
    yield c, r
    # depth-first successor of the trace
    t = c.trace
    i = len(t) - 1
    while i >= 0 and t[i][0] + 1 >= t[i][1]:
      i -= 1
    if i < 0:
      return
    prefix = [x[0] for x in t[:i]] + [t[i][0] + 1]
