"""Property runner: configurations -> cases -> obligations -> verdict, evidence, replays.

A property module (props/Cxx.py) provides
  PROPERTY   : id
  CASES      : {name: Case}
  configs(tier, rng) -> list of (case name, cfg dict)         (cfg is JSON-able)
  EVIDENCE   : static description (level, trusted base, assumptions, rule, ...)
Exit codes: 0 held / 1 violation (natively replayed where a model exists) /
2 undecided / 3 checker error.
"""
import collections
import hashlib
import json
import multiprocessing as mp
import os
import random
import subprocess
import sys
import tempfile
import time
import traceback
from fractions import Fraction as Fr

ROOT = os.path.dirname(os.path.dirname(os.path.abspath(__file__)))
try:
  from absl import logging as _absl_logging
  _absl_logging.set_verbosity(_absl_logging.ERROR)
except ImportError:
  pass
PY = os.path.join(ROOT, '.venv', 'bin', 'python')
OUT = os.environ.get('VT_OUT', ROOT)
MARGINS = [Fr(1), Fr(1, 100), Fr(1, 10000), Fr(1, 1000000)]


class Case(object):
  """One real function under its contract, for a family of configurations."""
  contract_key = None
  xcheck = True
  public = True            # is the function an entry point named by the property?
  lift_case = None         # public case that decides a modular failure here (None: this case)
  lift_keep_stubs = ()     # contracts that stay stubbed when lifting (e.g. loops proved elsewhere)

  def build(self, cfg):
    """Returns (args, kwargs) with fresh symbolic tensors; runs inside a ctx."""
    raise NotImplementedError

  def setup(self, cfg, c):
    pass

  def loop_mode(self, cfg):
    return None

  def extra_pre(self, cfg):
    return None

  def concrete_inputs(self, cfg, rng):
    """Optional override: concrete args for the CPython cross-check."""
    return None

  def body(self, cfg, c):
    """Non-contract cases (lemmas, 2-safety): return list of clauses instead."""
    return None

  def label(self, cfg):
    return json.dumps(cfg, sort_keys=True, default=str)


# ------------------------------------------------------------------ worker side

def _worker_init():
  sys.path.insert(0, ROOT)
  sys.setrecursionlimit(10000)
  try:
    from absl import logging as absl_logging
    absl_logging.set_verbosity(absl_logging.ERROR)
  except ImportError:
    pass


def _model_to_json(m):
  return {k: (None if v is None else str(v)) for k, v in (m or {}).items()}


def robust_violation(goal, m):
  """A formula implying NOT goal with every strict comparison strengthened by margin m."""
  from . import expr as E
  from .expr import B, P

  def neg(b):   # robust negation
    k = b.kind
    if k == 'const':
      return B.const(not b.args)
    if k in ('le', 'lt'):
      return (P.const(m) - b.args[0]) <= 0           # p >= m
    if k == 'eq':
      p = b.args[0]
      return ((P.const(m) - p) <= 0) | ((p + m) <= 0)
    if k == 'not':
      return pos(b.args[0])
    if k == 'and':
      return E.bor(*[neg(x) for x in b.args])
    if k == 'or':
      return E.band(*[neg(x) for x in b.args])
    raise ValueError(k)

  def pos(b):   # robust assertion
    k = b.kind
    if k == 'const':
      return b
    if k in ('le', 'lt'):
      return (b.args[0] + m) <= 0
    if k == 'eq':
      return b
    if k == 'not':
      return neg(b.args[0])
    if k == 'and':
      return E.band(*[pos(x) for x in b.args])
    if k == 'or':
      return E.bor(*[pos(x) for x in b.args])
    raise ValueError(k)
  return neg(goal)


def run_case(job):
  """Executed in a worker: returns a JSON-able dict."""
  prop_mod, case_name, cfg, opts = job
  t0 = time.time()
  out = {'case': case_name, 'cfg': cfg, 'goals': [], 'stats': {}, 'error': None, 'xcheck': None}
  try:
    import importlib
    from . import expr as E, harness as H, ctx as C, solve, tfc, load
    E.reset()
    pm = importlib.import_module(prop_mod)
    case = pm.CASES[case_name]
    label = case.label(cfg)
    timeout_ms = opts.get('timeout_ms')
    held = {}

    def setup(c):
      case.setup(cfg, c)

    if case.contract_key is not None:
      ct = H.REGISTRY[case.contract_key]
      only = getattr(case, 'stub_only', None)
      if opts.get('inline'):
        only = tuple(case.lift_keep_stubs)
      res = H.verify(ct, lambda: case.build(cfg), label, case.loop_mode(cfg), timeout_ms,
                     case.extra_pre(cfg), True, setup, only)
      if res == (None, None):
        out['error'] = 'function %s not found in the working tree' % case.contract_key
        out['error_kind'] = 'missing'
        return out
      results, stats = res
      out['fn_hash'] = load.func_hash(ct.module, ct.qualname)
    else:
      results, stats = H.run_symbolic(case_name, lambda c: case.body(cfg, c), label,
                                      case.loop_mode(cfg), setup, timeout_ms, None)
    for g in results:
      d = g.as_dict()
      if g.status == 'refuted':
        d['model'] = _model_to_json(g.model)
        d['margin'] = '0'
      out['goals'].append(d)
    # robust counterexamples for refuted goals: needs the formulas again -> redo per goal
    if any(g.status == 'refuted' for g in results) and opts.get('margins', True):
      _robustify(out, case, cfg, pm, timeout_ms, opts)
    st = dict(stats)
    for k in ('assumption_kinds', 'axioms', 'stubs'):
      st[k] = sorted(st.get(k, []))
    st['loops'] = [list(l) for l in st.get('loops', [])]
    out['stats'] = st
    if case.xcheck and opts.get('xcheck') and case.contract_key is not None:
      out['xcheck'] = _xcheck_symbolic_side(case, cfg, opts.get('seed', 0))
  except Exception as e:  # pylint: disable=broad-except
    out['error'] = '%s: %s' % (type(e).__name__, e)
    out['error_kind'] = 'exception'
    from . import load as _load
    if isinstance(e, _load.Missing):
      out['error'] = str(e)
      out['error_kind'] = 'missing'
    elif isinstance(e, AttributeError) and "module 'tensorflow_lattice." in str(e) and "has no attribute '_" in str(e):
      # a private helper the case calls by name was renamed / inlined: undecided here, not a checker crash
      out['error'] = 'function %s not found in the working tree' % str(e).split("has no attribute ")[-1].strip("'")
      out['error_kind'] = 'missing'
    out['trace'] = traceback.format_exc()[-4000:]
  out['wall'] = time.time() - t0
  return out


def _robustify(out, case, cfg, pm, timeout_ms, opts=None):
  """Re-runs the case and, for each refuted goal, looks for a model violating it by a margin."""
  from . import expr as E, harness as H, ctx as C, solve, tfc
  want = {(g['name'], tuple(g['path'])) for g in out['goals'] if g['status'] == 'refuted'}
  E.reset()
  found = {}

  def body(c):
    case.setup(cfg, c)
    if case.contract_key is not None:
      ct = H.REGISTRY[case.contract_key]
      owner, attr, real = ct.resolve()
      args, kw = case.build(cfg)
      for name, b in ct.pre(*args, **kw):
        c.assume(b, 'pre:' + name)
      ep = case.extra_pre(cfg)
      if ep:
        for name, b in ep(*args, **kw):
          c.assume(b, 'pre+:' + name)
      only = getattr(case, 'stub_only', None)
      if opts and opts.get('inline'):
        only = tuple(case.lift_keep_stubs)
      with H.stubbed(except_keys=(ct.key,), only=only):
        try:
          o = real(*args, **kw)
        except (ValueError, TypeError, IndexError, KeyError, AssertionError, ZeroDivisionError) as e:
          if type(ct).raised is H.Contract.raised and not isinstance(e, (tfc.NoContract, E.SymbolicValueError)):
            return [('returns-normally: raised %s: %s' % (type(e).__name__, str(e).splitlines()[0][:120] if str(e) else ''), E.FALSE)]
          o = ct.raised(e, *args, **kw)
        else:
          o = ct.view(o, *args, **kw)
      return ct.post(o, *args, **kw)
    return case.body(cfg, c)

  def one(c):
    c.loop_mode = case.loop_mode(cfg)
    c.entail = solve.entails
    return body(c)

  for c, clauses in C.explore(one):
    path = tuple(t[0] for t in c.trace)
    hyps = [a for a, _ in c.assumptions]
    goals = [(ob.name, ob.goal, hyps[:ob.hyp_count]) for ob in c.obligations]
    goals += [(n, b, hyps) for n, b in clauses]
    tr = solve.Translator()
    for name, goal, hy in goals:
      if (name, path) not in want:
        continue
      for m in MARGINS:
        r = solve.check_sat(hy + [robust_violation(goal, m)], tr, timeout_ms)
        if r.status == 'sat':
          found[(name, path)] = (str(m), _model_to_json(r.model))
          break
  for g in out['goals']:
    k = (g['name'], tuple(g['path']))
    if g['status'] == 'refuted' and k in found:
      g['margin'], g['model'] = found[k]


def _rand_fraction(rng):
  return Fr(rng.randint(-12, 12), rng.choice([1, 2, 4]))


def _xcheck_symbolic_side(case, cfg, seed):
  """Runs the real function through the contract library on random rationals."""
  from . import expr as E, harness as H, ctx as C, tfc
  rng = random.Random(hashlib.sha256(('%s|%s' % (seed, case.label(cfg))).encode()).hexdigest())
  ct = H.REGISTRY[case.contract_key]
  owner, attr, real = ct.resolve()
  c = C.Ctx()
  with C.use(c):
    case.setup(cfg, c)
    c.native_dtype = getattr(case, 'native_dtype', 'float64')
    c.concrete_rng = rng
    conc = case.concrete_inputs(cfg, rng)
    if conc is None:
      args, kw = case.build(cfg)
      env = {}
      args = _concretise(args, rng, env)
      kw = _concretise(kw, rng, env)
    else:
      args, kw = conc
    custom_view = type(ct).native_view is not H.Contract.native_view
    try:
      o = real(*args, **kw)
      if custom_view:
        o = ct.view(o, *args, **kw)
    except Exception as e:  # pylint: disable=broad-except
      if custom_view:
        try:
          o = ct.raised(e, *args, **kw)
          return {'desc': describe_call(ct, args, kw, _Env()), 'expected': encode_value(o, _Env()),
                  'view': ct.key}
        except Exception:  # pylint: disable=broad-except
          pass
      return {'desc': describe_call(ct, args, kw, _Env()), 'raised': type(e).__name__,
              'trace': traceback.format_exc()[-1500:]}
    r = {'desc': describe_call(ct, args, kw, _Env()), 'expected': encode_value(o, _Env())}
    if custom_view:
      r['view'] = ct.key
    return r


def _concretise(v, rng, env):
  from . import tfc
  from .expr import P
  import numpy as np
  if isinstance(v, tfc.Tensor):
    if v.dtype.kind != 'f':
      return v
    out = np.empty(v.a.shape, dtype=object)
    for idx in np.ndindex(*v.a.shape):
      e = v.a[idx]
      if e.is_const:
        out[idx] = e
      else:
        key = e.key()
        if key not in env:
          env[key] = P.const(_rand_fraction(rng))
        out[idx] = env[key]
    t = tfc.Tensor(out, v.dtype)
    if isinstance(v, tfc.Variable):
      v.a = out
      return v
    return t
  if isinstance(v, tuple):
    return tuple(_concretise(x, rng, env) for x in v)
  if isinstance(v, list):
    return [_concretise(x, rng, env) for x in v]
  if isinstance(v, dict):
    return {k: _concretise(x, rng, env) for k, x in v.items()}
  return v


# ------------------------------------------------------------ call descriptors

def _eval_elem(e, env):
  from .expr import P, B
  if isinstance(e, P):
    if e.is_const:
      return float(e.cval)
    return float(e.eval(env))
  if isinstance(e, B):
    return bool(e.eval(env))
  return e


class _Env(dict):
  """Model environment: variables absent from the model (irrelevant to the refuted goal) are 0."""

  def __missing__(self, k):
    return 0


def encode_value(v, env):
  from . import tfc
  import enum
  import numpy as np
  if isinstance(v, tfc.Tensor):
    arr = np.empty(v.a.shape, dtype=object)
    for idx in np.ndindex(*v.a.shape):
      arr[idx] = _eval_elem(v.a[idx], env)
    return {'__t__': arr.tolist(), 'dtype': 'float64' if v.dtype.kind == 'f' else v.dtype.name}
  if isinstance(v, tuple):
    return {'__tuple__': [encode_value(x, env) for x in v]}
  if isinstance(v, list):
    return [encode_value(x, env) for x in v]
  if isinstance(v, dict):
    return {k: encode_value(x, env) for k, x in v.items()}
  if isinstance(v, enum.Enum):
    return {'__enum__': [type(v).__module__.split('.')[-1], type(v).__name__, v.name]}
  if isinstance(v, Fr):
    return float(v)
  if hasattr(v, 'is_const') and hasattr(v, 'eval'):
    return float(v.cval) if v.is_const else float(v.eval(env))
  if hasattr(v, '_vt_native'):
    return {'__obj__': v._vt_native}
  return v


def _to_float32(d):
  if isinstance(d, dict):
    out = {k: _to_float32(v) for k, v in d.items()}
    if out.get('dtype') == 'float64':
      out['dtype'] = 'float32'
    return out
  if isinstance(d, list):
    return [_to_float32(v) for v in d]
  return d


def describe_call(contract, args, kw, env):
  d = _describe_call(contract, args, kw, env)
  if C_active_native_dtype() == 'float32':
    d = _to_float32(d)
    d['floatx'] = 'float32'
  return d


def C_active_native_dtype():
  from . import ctx as C
  return getattr(C.cur(), 'native_dtype', 'float64') if C.active() else 'float64'


def _describe_call(contract, args, kw, env):
  if '.' in contract.qualname:
    cls, meth = contract.qualname.split('.')
    this = args[0]
    nat = this._vt_native
    if nat.get('kind') == 'layer':
      d = {'kind': 'layer', 'module': nat['module'], 'cls': nat['cls'],
           'init': encode_value(nat['init'], env), 'method': meth,
           'weights': {k: encode_value(v, env) for k, v in nat.get('weights', {}).items()},
           'args': [encode_value(a, env) for a in args[1:]],
           'kwargs': {k: encode_value(v, env) for k, v in kw.items()}}
      for k in ('build_shape', 'return_weights'):
        if k in nat:
          d[k] = nat[k]
      if meth == 'call':
        d['inputs'] = encode_value(args[1], env)
        d['args'] = []
      return d
    return {'kind': 'method', 'module': contract.module, 'cls': cls,
            'init': encode_value(nat['init'], env), 'method': meth, 'args': [encode_value(a, env) for a in args[1:]],
            'kwargs': {k: encode_value(v, env) for k, v in kw.items()}}
  return {'kind': 'fn', 'module': contract.module, 'qualname': contract.qualname,
          'args': [encode_value(a, env) for a in args],
          'kwargs': {k: encode_value(v, env) for k, v in kw.items()}}


def run_native(descs, timeout=900):
  if not descs:
    return []
  with tempfile.TemporaryDirectory() as td:
    fi, fo = os.path.join(td, 'in.json'), os.path.join(td, 'out.json')
    with open(fi, 'w') as f:
      json.dump(descs, f)
    env = dict(os.environ)
    env['PYTHONPATH'] = ROOT
    env['TF_CPP_MIN_LOG_LEVEL'] = '3'
    env['CUDA_VISIBLE_DEVICES'] = ''
    pr = subprocess.run([PY, '-m', 'vt.native', fi, fo], cwd=ROOT, env=env,
                        capture_output=True, text=True, timeout=timeout)
    if pr.returncode != 0 or not os.path.exists(fo):
      raise RuntimeError('native runner failed: %s' % pr.stderr[-2000:])
    with open(fo) as f:
      return json.load(f)


def _bind_native_out(fresh, native, env):
  """Binds the variables of the fresh symbolic output to the native values."""
  from . import tfc
  import numpy as np
  if isinstance(fresh, tfc.Tensor):
    if isinstance(native, dict) and '__t__' in native:
      arr = np.asarray(native['__t__'], dtype=float)
    else:
      arr = np.asarray(native, dtype=float)
    if arr.shape != fresh.a.shape:
      raise ValueError('native output shape %s, contract expects %s' % (arr.shape, fresh.a.shape))
    for idx in np.ndindex(*fresh.a.shape):
      e = fresh.a[idx]
      (m, _), = e.t.items()
      from .expr import ATOMS
      env[ATOMS[m[0][0]].name] = float(arr[idx])
    return
  if isinstance(fresh, (list, tuple)):
    nat = native['__tuple__'] if isinstance(native, dict) and '__tuple__' in native else native
    for f, n in zip(fresh, nat):
      _bind_native_out(f, n, env)
    return
  raise TypeError('cannot bind native output to %r' % (fresh,))


def _replay_prepare(pm, case_name, cfg, model):
  """Descriptor for running the real function on the counter-model."""
  from . import expr as E, harness as H, ctx as C
  E.reset()
  case = pm.CASES[case_name]
  ct = H.REGISTRY[case.contract_key]
  c = C.Ctx()
  env = _Env()
  for k, v in (model or {}).items():
    if v is not None:
      env[k] = float(Fr(v))
  with C.use(c):
    c.for_native = True
    c.native_dtype = getattr(case, 'native_dtype', 'float64')
    case.setup(cfg, c)
    args, kw = case.build(cfg)
    return describe_call(ct, args, kw, env)


def _replay_evaluate(pm, case_name, cfg, model, desc, nat, tol=1e-7):
  """Evaluates every contract clause on the REAL output (fresh output symbols bound to it)."""
  from . import expr as E, harness as H, ctx as C
  E.reset()
  case = pm.CASES[case_name]
  ct = H.REGISTRY[case.contract_key]
  if 'error' in nat and type(ct).native_view is H.Contract.native_view:
    return {'desc': desc, 'native': nat, 'failing': ['raised ' + nat['error']], 'raised': True}
  c = C.Ctx()
  env = _Env()
  for k, v in (model or {}).items():
    if v is not None:
      env[k] = float(Fr(v))
  with C.use(c):
    c.for_native = True
    c.native_dtype = getattr(case, 'native_dtype', 'float64')
    case.setup(cfg, c)
    args, kw = case.build(cfg)
    fresh = ct.fresh_out(*args, **kw)
    _bind_native_out(fresh, ct.native_view(nat), env)
    failing = []
    scale = max([1.0] + [abs(v) for v in env.values() if isinstance(v, float)])
    pre_ok = all(b.eval(env, None, tol * scale) for _, b in ct.pre(*args, **kw))
    for name, b in ct.post(fresh, *args, **kw):
      if not b.eval(env, None, tol * scale):
        failing.append(name)
  return {'desc': desc, 'native': nat, 'failing': failing, 'pre_holds': pre_ok}


def replay_contract_goal(pm, case_name, cfg, model, tol=1e-7):
  desc = _replay_prepare(pm, case_name, cfg, model)
  nat = run_native([desc])[0]
  return _replay_evaluate(pm, case_name, cfg, model, desc, nat, tol)


# --------------------------------------------------------------------- main side

def load_known(prop_id):
  path = os.path.join(ROOT, 'known_findings.jsonl')
  out = []
  if os.path.exists(path):
    for line in open(path):
      line = line.strip()
      if not line or line.startswith('#') or line.startswith('fixed:'):
        continue
      d = json.loads(line)
      if d.get('property') == prop_id:
        out.append(d)
  return out


def matches_known(k, g, cfg):
  if k.get('status') != 'known':
    return False
  if k.get('fn') and g['fn'] not in ([k['fn']] if isinstance(k['fn'], str) else k['fn']):
    return False
  if k.get('clause_prefix') and not any(p in g['name']
                                         for p in ([k['clause_prefix']] if isinstance(k['clause_prefix'], str)
                                                   else k['clause_prefix'])):
    return False
  if k.get('when'):
    try:
      if not eval(k['when'], {'__builtins__': {'any': any, 'all': all, 'len': len, 'set': set,
                                               'bool': bool, 'max': max, 'min': min,
                                               'sum': sum, 'abs': abs, 'tuple': tuple, 'list': list, 'zip': zip,
                                               'range': range, 'enumerate': enumerate, 'str': str,
                                               'float': float, 'int': int, 'isinstance': isinstance},
                            'cfg': cfg}):  # pylint: disable=eval-used
        return False
    except Exception:  # pylint: disable=broad-except
      return False
  return True


def main(pm, argv=None):
  import argparse
  ap = argparse.ArgumentParser()
  ap.add_argument('--tier', default=os.environ.get('VERIF_TIER', 'quick'))
  ap.add_argument('--replay', default=None)
  ap.add_argument('--jobs', type=int, default=int(os.environ.get('VT_JOBS', '16')))
  ap.add_argument('--only', default=None, help='case name filter')
  ap.add_argument('--limit', type=int, default=None)
  ap.add_argument('-v', action='store_true')
  a = ap.parse_args(argv)
  seed = int(os.environ.get('VERIF_SEED', '0'))
  if a.replay:
    return replay_file(pm, a.replay)
  t0 = time.time()
  rng = random.Random(seed)
  jobs = pm.configs(a.tier, rng)
  if a.only:
    jobs = [j for j in jobs if a.only in j[0]]
  if a.limit:
    jobs = jobs[:a.limit]
  timeout_ms = 20000 if a.tier == 'quick' else 120000
  opts = {'timeout_ms': timeout_ms, 'xcheck': True, 'seed': seed}
  work = [(pm.__name__, cn, cfg, opts) for cn, cfg in jobs]

  def run_jobs(work):
    results = []
    if a.jobs <= 1:
      _worker_init()
      for w in work:
        results.append(run_case(w))
      return results
    ctxm = mp.get_context('forkserver')
    with ctxm.Pool(min(a.jobs, max(1, len(work))), initializer=_worker_init, maxtasksperchild=20) as pool:
      for r in pool.imap_unordered(run_case, work, chunksize=1):
        results.append(r)
        if a.v:
          print('.. %s %s %.1fs %s' % (r['case'], json.dumps(r['cfg'], default=str)[:100],
                                       r.get('wall', 0), r['error'] or ''), flush=True)
    return results

  results = run_jobs(work)
  results.sort(key=lambda r: (r['case'], json.dumps(r['cfg'], sort_keys=True, default=str)))
  return conclude(pm, a.tier, seed, results, t0, run_jobs=run_jobs, opts=opts)


def conclude(pm, tier, seed, results, t0, extra=None, run_jobs=None, opts=None):
  prop_id = pm.PROPERTY
  known = load_known(prop_id)
  errors = [r for r in results if r['error'] and r.get('error_kind') != 'missing']
  missing = [r for r in results if r.get('error_kind') == 'missing']
  goals = []
  for r in results:
    for g in r['goals']:
      g['_cfg'] = r['cfg']
      g['_case'] = r['case']
      goals.append(g)
  refuted = [g for g in goals if g['status'] == 'refuted']
  unknown = [g for g in goals if g['status'] == 'unknown']
  proved = [g for g in goals if g['status'] == 'proved']
  skipped = [g for g in goals if g['status'] == 'skipped']

  # --- CPython / TF cross-check of the operator contracts on the verified functions
  xc = [r['xcheck'] for r in results if r.get('xcheck')]
  xc_stats = {'compared': 0, 'mismatch': []}
  if xc:
    try:
      nat = run_native([x['desc'] for x in xc])
      from . import harness as _H
      for x, n in zip(xc, nat):
        xc_stats['compared'] += 1
        if x.get('view'):
          got = encode_value(_H.REGISTRY[x['view']].native_view(n), _Env())
          if not _close(x['expected'], got):
            xc_stats['mismatch'].append({'desc': x['desc'], 'contract_lib': x['expected'], 'tf': n})
          continue
        if 'raised' in x:
          if 'error' not in n:
            xc_stats['mismatch'].append({'desc': x['desc'], 'contract_lib': 'raised ' + x['raised'],
                                         'tf': 'returned'})
          continue
        if 'error' in n:
          xc_stats['mismatch'].append({'desc': x['desc'], 'contract_lib': 'returned', 'tf': n['error']})
          continue
        if not _close(x['expected'], n['ok']):
          xc_stats['mismatch'].append({'desc': x['desc'], 'contract_lib': x['expected'], 'tf': n['ok']})
    except Exception as e:  # pylint: disable=broad-except
      errors.append({'case': 'xcheck', 'cfg': {}, 'error': 'cross-check failed to run: %s' % e})

  # --- replay refutations natively
  violations = []
  known_hits = collections.OrderedDict()
  rdir = os.path.join(OUT, 'replays', prop_id)
  if os.path.isdir(rdir):
    for fn in os.listdir(rdir):
      if fn.endswith('.json'):
        os.unlink(os.path.join(rdir, fn))
  os.makedirs(rdir, exist_ok=True)
  # group: one replay per (case, cfg, model)
  # phase 1: descriptors; phase 2: one native process; phase 3: evaluate clauses on real output
  prepared = []
  body_prepared = []
  for g in refuted:
    case = pm.CASES[g['_case']]
    g['replay'] = None
    try:
      if case.contract_key is not None:
        prepared.append((g, _replay_prepare(pm, g['_case'], g['_cfg'], g.get('model'))))
      elif hasattr(case, 'replay_desc'):
        d = case.replay_desc(g['_cfg'], g.get('model'), g)
        if d is not None:
          body_prepared.append((g, case, d))
      elif hasattr(case, 'replay'):
        g['replay'] = case.replay(g['_cfg'], g.get('model'), g)
    except Exception as e:  # pylint: disable=broad-except
      g['replay'] = {'error': '%s: %s' % (type(e).__name__, e), 'trace': traceback.format_exc()[-2000:]}
  uniq = {}
  for g, d in prepared:
    uniq.setdefault(json.dumps(d, sort_keys=True, default=str), d)
  nbody = 0
  for g, case, d in body_prepared:
    k = json.dumps(d, sort_keys=True, default=str)
    if k not in uniq:
      if nbody >= 24:
        continue      # bounded native searches are expensive: at most 24 distinct ones per run
      nbody += 1
    uniq.setdefault(k, d)
  keys = list(uniq)
  try:
    nats = dict(zip(keys, run_native([uniq[k] for k in keys]))) if keys else {}
  except Exception as e:  # pylint: disable=broad-except
    nats = {}
    errors.append({'case': 'replay', 'cfg': {}, 'error': 'native replay failed to run: %s' % e})
  for g, case, d in body_prepared:
    k = json.dumps(d, sort_keys=True, default=str)
    if k in nats:
      try:
        g['replay'] = case.replay_eval(g['_cfg'], g.get('model'), g, d, nats[k])
      except Exception as e:  # pylint: disable=broad-except
        g['replay'] = {'error': '%s: %s' % (type(e).__name__, e)}
  for g, d in prepared:
    k = json.dumps(d, sort_keys=True, default=str)
    if k in nats:
      try:
        g['replay'] = _replay_evaluate(pm, g['_case'], g['_cfg'], g.get('model'), d, nats[k])
      except Exception as e:  # pylint: disable=broad-except
        g['replay'] = {'error': '%s: %s' % (type(e).__name__, e),
                       'trace': traceback.format_exc()[-2000:]}
  # Modular failures that do not reproduce at their own function are *lifted*: the public
  # function of the same configuration is re-verified with its callees inlined.  All clauses
  # proved there => the edit was harmless for the property (no alarm); a refutation there gives
  # an input for the public API, replayed natively.
  lifted_ok = []
  new_refuted = []
  groups = collections.OrderedDict()
  for g in refuted:
    rep = g.get('replay')
    case = pm.CASES[g['_case']]
    if (rep and rep.get('failing')) or case.contract_key is None:
      continue
    if [k for k in known if matches_known(k, g, g['_cfg'])]:
      continue
    lc = case.lift_case or g['_case']
    groups.setdefault((lc, json.dumps(g['_cfg'], sort_keys=True, default=str)), []).append(g)
  if groups and run_jobs is not None:
    cap = 16 if tier == 'quick' else 400
    keys = list(groups)[:cap]
    # modular failures beyond the cap are neither lifted nor confirmed natively: undecided, not violations
    for key in list(groups)[cap:]:
      for g in groups[key]:
        g['lifted'] = 'not-lifted'
        g['status'] = 'unknown'
        g['detail'] = 'modular failure (callee contracts too weak for this clause), not re-verified inline: lift cap %d' % cap
        unknown.append(g)
    lopts = dict(opts or {}, inline=True, xcheck=False, timeout_ms=4000, margins=False)
    lwork = [(pm.__name__, lc, groups[(lc, cj)][0]['_cfg'], lopts) for (lc, cj) in keys]
    lres = run_jobs(lwork)
    bykey = {(r['case'], json.dumps(r['cfg'], sort_keys=True, default=str)): r for r in lres}
    second = []
    for key in keys:
      r = bykey.get(key)
      if r is None or r['error']:
        continue
      st = [x['status'] for x in r['goals']]
      if st and all(x == 'proved' for x in st):
        for g in groups[key]:
          g['lifted'] = 'proved-inline'
          lifted_ok.append(g)
        continue
      bad = [x for x in r['goals'] if x['status'] == 'refuted']
      if bad:
        # the lifted refutations replace the modular ones: they are obligations of the public
        # function, with models over its real inputs
        for g in groups[key]:
          g['lifted'] = 'refuted-inline'
        seen_l = set()
        for b0 in bad:
          fam = b0['name'].split('[')[0]
          if fam in seen_l:
            continue
          seen_l.add(fam)
          b0 = dict(b0)
          b0['_cfg'] = r['cfg']
          b0['_case'] = key[0]
          b0['lifted_from'] = [g['fn'] + ':' + g['name'] for g in groups[key]][:5]
          b0['replay'] = None
          new_refuted.append(b0)
          try:
            second.append((b0, _replay_prepare(pm, key[0], r['cfg'], b0.get('model'))))
          except Exception:  # pylint: disable=broad-except
            pass
    if second:
      try:
        nats2 = run_native([d for _, d in second])
        for (b0, d), n2 in zip(second, nats2):
          b0['replay'] = _replay_evaluate(pm, b0['_case'], b0['_cfg'], b0.get('model'), d, n2)
      except Exception as e:  # pylint: disable=broad-except
        errors.append({'case': 'replay', 'cfg': {}, 'error': 'native replay (lift) failed: %s' % e})
  refuted = [g for g in refuted if g.get('lifted') not in ('proved-inline', 'refuted-inline', 'not-lifted')] + new_refuted
  # "returns-normally" refutations come from an exception during symbolic execution; they are violations
  # only when the real code raises natively too, otherwise the contract library is at fault (exit 3)
  for g in [g for g in refuted if g['name'].startswith('returns-normally')]:
    rep = g.get('replay')
    if not (rep and rep.get('failing')):
      refuted.remove(g)
      errors.append({'case': g['_case'], 'cfg': g['_cfg'], 'error': 'symbolic execution raised but the real code does not: ' + g['name']})
  for g in refuted:
    cfg = g['_cfg']
    kn = [k for k in known if matches_known(k, g, cfg)]
    rep = g['replay']
    confirmed = bool(rep and rep.get('failing'))
    g['confirmed'] = confirmed
    if kn:
      key = kn[0].get('id') or kn[0]['what']
      e = known_hits.setdefault(key, {'k': kn[0], 'n': 0, 'confirmed': 0, 'sample': None})
      e['n'] += 1
      e['confirmed'] += int(confirmed)
      if e['sample'] is None or (confirmed and not e['sample'].get('confirmed')):
        e['sample'] = g
      continue
    violations.append(g)

  rc = 0
  lines = []
  for key, e in known_hits.items():
    lines.append('KNOWN-FINDING: property=%s %s [%d refuted obligations, %d replayed natively; e.g. %s @ %s]' %
                 (prop_id, e['k']['what'], e['n'], e['confirmed'], e['sample']['name'],
                  json.dumps(e['sample']['_cfg'], sort_keys=True, default=str)[:160]))
  seen_v = set()
  for g in violations:
    vid = hashlib.sha256(json.dumps([g['fn'], g['name'], g['_cfg']], sort_keys=True,
                                    default=str).encode()).hexdigest()[:12]
    path = os.path.join('replays', prop_id, '%s.json' % vid)
    with open(os.path.join(OUT, path), 'w') as f:
      json.dump({'property': prop_id, 'obligation': g['name'], 'function': g['fn'],
                 'case': g['_case'], 'cfg': g['_cfg'], 'kind': g['kind'], 'model': g.get('model'),
                 'margin': g.get('margin'), 'backend': g['backend'], 'solver_detail': g['detail'],
                 'replay': g.get('replay'), 'confirmed_on_real_code': g.get('confirmed')},
                f, indent=1, default=str)
    key = (g['fn'], g['name'].split('[')[0], json.dumps(g['_cfg'], sort_keys=True, default=str))
    if key in seen_v and len(seen_v) > 20:
      continue
    seen_v.add(key)
    tail = '' if g.get('confirmed') else ' no-failing-input-found'
    lines.append('VIOLATION property=%s replay=%s obligation=%s:%s%s' %
                 (prop_id, path, g['fn'], g['name'], tail))
    rc = 1
  if rc == 0 and (errors or xc_stats['mismatch']):
    rc = 3
  # a missing HELPER (renamed / inlined by a refactoring) is not undecided: its callers were
  # executed through the code that replaced it; only a missing public entry point is
  missing_public = [r for r in missing if getattr(pm.CASES.get(r['case']), 'public', True)]
  if rc == 0 and (unknown or missing_public):
    rc = 2

  wall = time.time() - t0
  extra = dict(extra or {})
  extra['modular_failures_resolved_by_inline_proof'] = len(lifted_ok)
  ev = build_evidence(pm, tier, seed, results, goals, proved, refuted, unknown, violations,
                      known_hits, xc_stats, errors, missing, wall, extra)
  os.makedirs(os.path.join(OUT, 'evidence'), exist_ok=True)
  with open(os.path.join(OUT, 'evidence', '%s.json' % prop_id), 'w') as f:
    json.dump(ev, f, indent=1, default=str)
  for l in lines:
    print(l)
  if lifted_ok:
    print('NOTE: %d modular obligations failed but the public function was re-verified with its '
          'callees inlined and every clause was proved (no alarm), e.g. %s:%s' %
          (len(lifted_ok), lifted_ok[0]['fn'], lifted_ok[0]['name']))
  for e in errors[:10]:
    print('CHECKER-ERROR %s %s: %s' % (e.get('case'), json.dumps(e.get('cfg'), default=str)[:200],
                                       e['error']))
    if e.get('trace'):
      print(e['trace'])
  for m in xc_stats['mismatch'][:5]:
    print('CONTRACT-LIBRARY-MISMATCH (operator contract disagrees with TensorFlow): %s' %
          json.dumps(m, default=str)[:600])
  for g in unknown[:10]:
    print('UNDECIDED %s %s @ %s (%s)' % (g['fn'], g['name'],
                                          json.dumps(g['_cfg'], default=str)[:160], g['detail'][:80]))
  for r in missing_public[:10]:
    print('UNDECIDED %s' % r['error'])
  helper_missing = sorted({r['error'] for r in missing if r not in missing_public})
  for e in helper_missing[:10]:
    print('NOTE: helper under contract not found (%s); its callers were verified by executing through the current code' % e)
  print('%s tier=%s: %d obligations, %d discharged, %d refuted (%d known), %d undecided, '
        '%d cases, %d checker errors, xcheck %d/%d ok, %.1fs -> exit %d' %
        (prop_id, tier, len(goals), len(proved), len(refuted), len(refuted) - len(violations),
         len(unknown), len(results), len(errors), xc_stats['compared'] - len(xc_stats['mismatch']),
         xc_stats['compared'], wall, rc))
  return rc


def _close(a, b, tol=2e-5):
  import numpy as np
  if isinstance(a, dict) and '__t__' in a:
    a = a['__t__']
  if isinstance(b, dict) and '__t__' in b:
    b = b['__t__']
  if isinstance(a, dict) and '__tuple__' in a:
    a = a['__tuple__']
  if isinstance(b, dict) and '__tuple__' in b:
    b = b['__tuple__']
  if isinstance(a, (list, tuple)) and isinstance(b, (list, tuple)):
    try:
      x = np.asarray(a, dtype=float)
      y = np.asarray(b, dtype=float)
      if x.shape != y.shape:
        return False
      return bool(np.all(np.abs(x - y) <= tol * (1 + np.abs(x) + np.abs(y))))
    except (ValueError, TypeError):
      return len(a) == len(b) and all(_close(p, q, tol) for p, q in zip(a, b))
  if isinstance(a, (int, float)) and isinstance(b, (int, float)):
    return abs(a - b) <= tol * (1 + abs(a) + abs(b))
  if isinstance(a, dict) and isinstance(b, dict):
    return set(a) == set(b) and all(_close(a[k], b[k], tol) for k in a)
  return a == b


def build_evidence(pm, tier, seed, results, goals, proved, refuted, unknown, violations,
                   known_hits, xc_stats, errors, missing, wall, extra):
  meta = dict(pm.EVIDENCE)
  by_backend = collections.Counter(g['backend'] for g in proved)
  by_kind = collections.Counter(g['kind'] for g in goals)
  by_fn = collections.Counter(g['fn'] for g in goals)
  times = [g['time'] for g in goals]
  distinct = len({(g['fn'], json.dumps(g['_cfg'], sort_keys=True, default=str), g['name'],
                   tuple(g['path'])) for g in goals if g['backend'] != 'simplifier'})
  axioms = sorted({a for r in results for a in r.get('stats', {}).get('axioms', [])})
  stubs = sorted({a for r in results for a in r.get('stats', {}).get('stubs', [])})
  fn_hashes = {}
  for r in results:
    c = pm.CASES[r['case']]
    if c.contract_key and r.get('fn_hash'):
      fn_hashes[c.contract_key] = r['fn_hash']
  samples = []
  for g in (violations[:2] + [s['sample'] for s in known_hits.values()][:3] + proved[:3]):
    samples.append({'function': g['fn'], 'configuration': g['_cfg'], 'clause': g['name'],
                    'kind': g['kind'], 'hypotheses': g['hyps'], 'verdict': g['status'],
                    'backend': g['backend'], 'time_s': round(g['time'], 4),
                    'counterexample': g.get('model'), 'margin': g.get('margin'),
                    'replayed_on_real_code': g.get('confirmed')})
  n_known = len(refuted) - len(violations)
  # evaluations of bounded stand-ins (clause names starting with 'bounded:' / 'native:') are reported
  # separately and never counted as discharged obligations
  is_bounded = lambda g: g['name'].startswith(('bounded:', 'native:'))
  standin = [g for g in goals if is_bounded(g)]
  coverage = {
      'obligations': len(goals) - len(standin),
      'discharged': len([g for g in proved if not is_bounded(g)]),
      'bounded_standin_evaluations': {'evaluated': len(standin), 'held': len([g for g in proved if is_bounded(g)]),
                                      'note': 'bounded checks of the real code, not proofs'},
      'refuted_known_findings': n_known,
      'refuted_new': len(violations),
      'undecided': len(unknown),
      'skipped_after_refutation_of_same_clause_family': len([g for g in goals if g['status'] == 'skipped']),
      'checker_cmd': './check %s --tier %s' % (pm.PROPERTY, tier),
      'trusted_base': meta.get('trusted_base', []),
      'evaluations': len(goals),
      'distinct_nontrivial': distinct,
      'rule': meta.get('rule', ''),
      'samples': samples,
      'explanation': meta.get('explanation', ''),
      'exhaustive': bool(meta.get('exhaustive_tiers', {}).get(tier, False)),
      'configurations': len(results),
      'cases': dict(collections.Counter(r['case'] for r in results)),
      'functions_under_contract': {k: {'obligations': by_fn.get(k, 0), 'ast_sha256_16': fn_hashes.get(k)}
                                   for k in sorted(set(list(by_fn) + list(fn_hashes)))},
      'obligation_kinds': dict(by_kind),
      'discharged_by_backend': dict(by_backend),
      'solver_time_s': {'sum': round(sum(times), 3), 'max': round(max(times or [0]), 3),
                        'slow_goals_over_10s': len([t for t in times if t > 10])},
      'paths': sum(r.get('stats', {}).get('paths', 0) for r in results),
      'cover_checks_sat': sum(r.get('stats', {}).get('covers', 0) for r in results),
      'canaries_refuted': sum(r.get('stats', {}).get('canaries', 0) for r in results),
      'contracted_callees_used': stubs,
      'cross_check': {'functions_run_through_both_bindings': xc_stats['compared'],
                      'mismatches': len(xc_stats['mismatch'])},
      'known_findings_reestablished': [
          {'what': e['k']['what'], 'refuted_obligations': e['n'], 'replayed_natively': e['confirmed']}
          for e in known_hits.values()],
      'bounds': meta.get('bounds', ''),
      'checker_errors': len(errors),
      'missing_functions': [r['error'] for r in missing],
  }
  if extra:
    coverage.update(extra)
  level = meta.get('level', 'proof')
  return {
      'property_id': pm.PROPERTY,
      'tier': tier,
      'seed': seed,
      'level': level,
      'coverage': coverage,
      'assumptions': list(meta.get('assumptions', [])) + ['operator axiom: ' + a for a in axioms],
      'wall_s': round(wall, 2),
      'violations': len(violations),
  }


def replay_file(pm, path):
  with open(path) as f:
    d = json.load(f)
  case = pm.CASES[d['case']]
  g = dict(d, name=d.get('obligation', ''))
  if case.contract_key is not None:
    rep = replay_contract_goal(pm, d['case'], d['cfg'], d.get('model'))
  elif hasattr(case, 'replay_desc'):
    desc = case.replay_desc(d['cfg'], d.get('model'), g)
    if desc is None:
      rep = {'failing': [], 'note': 'no native replay exists for this obligation'}
    else:
      rep = case.replay_eval(d['cfg'], d.get('model'), g, desc, run_native([desc])[0])
  elif hasattr(case, 'replay'):
    rep = case.replay(d['cfg'], d.get('model'), g)
  else:
    rep = {'failing': [], 'note': 'no native replay exists for this obligation (%s)' % d.get('solver_detail', '')}
  print(json.dumps({'obligation': d['obligation'], 'failing_on_real_code': rep.get('failing'),
                    'native': rep.get('native')}, indent=1, default=str)[:4000])
  if rep.get('failing'):
    print('VIOLATION property=%s replay=%s' % (d['property'], path))
    return 1
  print('not reproduced on the current tree')
  return 0
