"""Loads the real repository sources with `tensorflow` bound to the contract library.

Nothing is copied or rewritten: the function objects the checks execute are the
ones CPython compiles from /repo's working tree at this moment.  Only the package
`__init__` files are bypassed (they import real Keras); sub-modules are imported
by name from package stubs whose `__path__` points into /repo.
"""
import ast
import hashlib
import importlib
import os
import sys
import types

REPO = os.environ.get('VT_REPO', '/repo')
PKG = 'tensorflow_lattice'
PYDIR = os.path.join(REPO, PKG, 'python')

_loaded = {}


class Missing(Exception):
  """A (private) helper a body case looks at by name is absent from the working tree."""


def install_contract_tf():
  from . import tfc, kerasc
  for k in list(sys.modules):
    if k == 'tensorflow' or k.startswith('tensorflow.'):
      if getattr(sys.modules[k], '__name__', '').startswith('vt.') or k.startswith('tensorflow.'):
        continue
      raise RuntimeError('real tensorflow already imported in this process (%s)' % k)
  sys.modules['tensorflow'] = tfc
  kerasc.install()
  return tfc


def mod(name):
  """Returns repo module `tensorflow_lattice.python.<name>` under the contract tf."""
  if name in _loaded:
    return _loaded[name]
  install_contract_tf()
  if PKG not in sys.modules:
    p = types.ModuleType(PKG)
    p.__path__ = [os.path.join(REPO, PKG)]
    sys.modules[PKG] = p
    s = types.ModuleType(PKG + '.python')
    s.__path__ = [PYDIR]
    sys.modules[PKG + '.python'] = s
    p.python = s
  sys.dont_write_bytecode = True
  m = importlib.import_module('%s.python.%s' % (PKG, name))
  if not m.__file__.startswith(REPO):
    raise RuntimeError('module %s loaded from %s, not from %s' % (name, m.__file__, REPO))
  _loaded[name] = m
  return m


def file_sha(name):
  with open(os.path.join(PYDIR, name + '.py'), 'rb') as f:
    return hashlib.sha256(f.read()).hexdigest()


_ast_cache = {}


def func_hash(modname, qualname):
  """sha256 of ast.dump of the named function / method in the working tree."""
  if modname not in _ast_cache:
    with open(os.path.join(PYDIR, modname + '.py')) as f:
      _ast_cache[modname] = ast.parse(f.read())
  node = _ast_cache[modname]
  for part in qualname.split('.'):
    found = None
    for ch in ast.iter_child_nodes(node):
      if isinstance(ch, (ast.FunctionDef, ast.ClassDef)) and ch.name == part:
        found = ch
        break
    if found is None:
      return None
    node = found
  return hashlib.sha256(ast.dump(node).encode()).hexdigest()[:16]


def has(modname, qualname):
  return func_hash(modname, qualname) is not None
