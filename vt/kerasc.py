"""Keras plumbing stub (trusted, see DESIGN 1.3).

Only what the tensorflow/lattice layer, constraint, initializer and regularizer
classes touch: `Layer.__init__/add_weight/__call__/build/get_config`, the base
classes, `initializers.get/serialize`, `regularizers.get/serialize`,
`constraints.NonNeg`, `utils.custom_object_scope`.  Layer.__call__ is
`build(input_shape)` once, then `call(inputs)`.  No `version` attribute, so the
repo modules take `keras = tf.keras`, i.e. this stub.
"""
import contextlib
import sys
import types

import numpy as np

from . import tfc
from . import expr as E

_CUSTOM = [{}]

# Harness hook: callable(layer, name, shape, dtype, initializer, constraint) -> Tensor or None
WEIGHT_PROVIDER = [None]
# Harness hook: callable(name, shape, dtype) -> Tensor standing for a keras.Input (the functional
# API is modelled eagerly: the model construction IS one evaluation on these tensors)
INPUT_PROVIDER = [None]
# Harness hook: list collecting every Layer instance created while it is installed
LAYER_RECORDER = [None]


def _shape_of(x):
  if isinstance(x, dict):
    return {k: _shape_of(v) for k, v in x.items()}
  if isinstance(x, (list, tuple)) and x and isinstance(x[0], tfc.Tensor):
    return [t.shape for t in x]
  if isinstance(x, tfc.Tensor):
    return x.shape
  return tfc.convert_to_tensor(x).shape


class Layer(object):

  def __init__(self, trainable=True, name=None, dtype=None, dynamic=False, **kwargs):
    allowed = {'input_shape', 'input_dim', 'batch_size', 'batch_input_shape', 'weights',
               'activity_regularizer', 'autocast', 'implementation'}
    for k in kwargs:
      if k not in allowed:
        raise TypeError('Keyword argument not understood: %r' % (k,))
    self.trainable = trainable
    self._name = name or type(self).__name__.lower()
    self._dtype = 'float32' if dtype is None else (dtype.name if isinstance(dtype, tfc.DType) else dtype)
    self.built = False
    self._weights = []
    self._losses = []
    self.input_spec = None
    if LAYER_RECORDER[0] is not None:
      LAYER_RECORDER[0].append(self)

  @property
  def name(self):
    return self._name

  @property
  def dtype(self):
    return self._dtype

  def add_weight(self, name=None, shape=None, dtype=None, initializer=None, regularizer=None,
                 trainable=None, constraint=None, **kwargs):
    dt = tfc.as_dtype(dtype or self._dtype)
    shape = [int(s) for s in (shape if shape is not None else [])]
    value = None
    if WEIGHT_PROVIDER[0] is not None:
      self._vt_adding_trainable = True if trainable is None else bool(trainable)
      value = WEIGHT_PROVIDER[0](self, name, shape, dt, initializer, constraint)
    if value is None:
      init = initializers.get(initializer) if initializer is not None else initializers.Zeros()
      value = init(shape, dtype=dt)
    if not isinstance(value, tfc.Tensor):
      value = tfc.convert_to_tensor(np.asarray(value, dtype=float).tolist() if not isinstance(value, (list, tuple)) and not hasattr(value, 'is_const') else value, dtype=dt)
    elif value.dtype != dt:
      value = tfc.cast(value, dt)
    if list(value.shape) != shape:
      raise ValueError('add_weight %r: initializer produced shape %s, expected %s' %
                       (name, list(value.shape), shape))
    v = tfc.Variable(value, name=name, trainable=True if trainable is None else trainable,
                     constraint=constraint)
    v.initializer_obj = initializer
    v.regularizer = regularizer
    self._weights.append(v)
    return v

  def build(self, input_shape):
    self.built = True

  def call(self, inputs, *a, **k):
    return inputs

  def __call__(self, inputs, *args, **kwargs):
    if not self.built:
      self.build(_shape_of(inputs))
      self.built = True
    return self.call(inputs, *args, **kwargs)

  @property
  def weights(self):
    return list(self._weights)

  trainable_weights = weights
  variables = weights

  def get_weights(self):
    return [w.value() for w in self._weights]

  def get_config(self):
    return {'name': self._name, 'trainable': self.trainable, 'dtype': self._dtype}

  @classmethod
  def from_config(cls, config):
    return cls(**config)

  def add_loss(self, loss):
    self._losses.append(loss)

  def compute_output_shape(self, input_shape):
    return input_shape


class InputSpec(object):

  def __init__(self, **kw):
    self.__dict__.update(kw)


class Initializer(object):

  def get_config(self):
    return {}

  @classmethod
  def from_config(cls, config):
    return cls(**config)


class Constant(Initializer):

  def __init__(self, value=0):
    self.value = value

  def __call__(self, shape, dtype=None, **kw):
    return tfc.constant(self.value, dtype=dtype or tfc.float32, shape=shape)

  def get_config(self):
    return {'value': self.value}


class Zeros(Constant):

  def __init__(self):
    Constant.__init__(self, 0)

  def get_config(self):
    return {}


class Ones(Constant):

  def __init__(self):
    Constant.__init__(self, 1)

  def get_config(self):
    return {}


class RandomUniform(Initializer):

  def __init__(self, minval=-0.05, maxval=0.05, seed=None):
    self.minval, self.maxval, self.seed = minval, maxval, seed

  def __call__(self, shape, dtype=None, **kw):
    return tfc.random.uniform(shape, self.minval, self.maxval, dtype=dtype or tfc.float32)

  def get_config(self):
    return {'minval': self.minval, 'maxval': self.maxval, 'seed': self.seed}


_BUILTIN_INITS = {'zeros': Zeros, 'ones': Ones, 'random_uniform': RandomUniform, 'uniform': RandomUniform,
                  'constant': Constant, 'Zeros': Zeros, 'Ones': Ones,
                  'RandomUniform': RandomUniform, 'Constant': Constant}


def _lookup(name, builtin):
  for scope in reversed(_CUSTOM):
    if name in scope:
      return scope[name]
  if name in builtin:
    return builtin[name]
  raise ValueError('Unknown object: %r' % (name,))


def _get(identifier, builtin, base):
  if identifier is None:
    return None
  if isinstance(identifier, dict):
    cls = _lookup(identifier['class_name'], builtin)
    return cls.from_config(identifier.get('config', {})) if hasattr(cls, 'from_config') else cls(
        **identifier.get('config', {}))
  if isinstance(identifier, str):
    obj = _lookup(identifier, builtin)
    return obj() if isinstance(obj, type) else obj
  if callable(identifier):
    return identifier() if isinstance(identifier, type) else identifier
  raise ValueError('Could not interpret identifier: %r' % (identifier,))


def _serialize(obj, use_legacy_format=False):
  if obj is None:
    return None
  if hasattr(obj, 'get_config'):
    return {'class_name': type(obj).__name__, 'config': obj.get_config()}
  if hasattr(obj, '__name__'):
    return obj.__name__
  raise ValueError('cannot serialize %r' % (obj,))


def _deserialize(config, module_objects=None, custom_objects=None, printable_module_name='object'):
  if config is None:
    return None
  scope = dict(module_objects or {})
  scope.update(custom_objects or {})
  _CUSTOM.append(scope)
  try:
    return _get(config, {}, None)
  finally:
    _CUSTOM.pop()


class _InitializersNS(types.ModuleType):
  Initializer = Initializer
  Constant = Constant
  Zeros = Zeros
  Ones = Ones
  RandomUniform = RandomUniform

  @staticmethod
  def get(identifier):
    return _get(identifier, _BUILTIN_INITS, Initializer)

  serialize = staticmethod(_serialize)


initializers = _InitializersNS('tensorflow.keras.initializers')


class Constraint(object):

  def __call__(self, w):
    return w

  def get_config(self):
    return {}

  @classmethod
  def from_config(cls, config):
    return cls(**config)


class NonNeg(Constraint):
  """w * cast(w >= 0): the non-negative part."""

  def __call__(self, w):
    return tfc.maximum(w, 0.0)


class _ConstraintsNS(types.ModuleType):
  Constraint = Constraint
  NonNeg = NonNeg

  @staticmethod
  def get(identifier):
    return _get(identifier, {'non_neg': NonNeg, 'NonNeg': NonNeg}, Constraint)

  serialize = staticmethod(_serialize)


constraints = _ConstraintsNS('tensorflow.keras.constraints')


class Regularizer(object):

  def __call__(self, x):
    return 0.0

  def get_config(self):
    return {}

  @classmethod
  def from_config(cls, config):
    return cls(**config)


class L1L2(Regularizer):

  def __init__(self, l1=0.0, l2=0.0):
    self.l1, self.l2 = l1, l2

  def __call__(self, x):
    r = tfc.constant(0.0)
    if self.l1:
      r = r + self.l1 * tfc.reduce_sum(tfc.abs(x))
    if self.l2:
      r = r + self.l2 * tfc.reduce_sum(tfc.square(x))
    return r

  def get_config(self):
    return {'l1': self.l1, 'l2': self.l2}


class _RegularizersNS(types.ModuleType):
  Regularizer = Regularizer
  L1L2 = L1L2

  @staticmethod
  def get(identifier):
    return _get(identifier, {'l1_l2': L1L2, 'L1L2': L1L2}, Regularizer)

  serialize = staticmethod(_serialize)


regularizers = _RegularizersNS('tensorflow.keras.regularizers')


@contextlib.contextmanager
def custom_object_scope(*args):
  scope = {}
  for a in args:
    scope.update(a)
  _CUSTOM.append(scope)
  try:
    yield
  finally:
    _CUSTOM.pop()


class _Legacy(object):
  serialize_keras_object = staticmethod(_serialize)
  deserialize_keras_object = staticmethod(_deserialize)


class _UtilsNS(types.ModuleType):
  custom_object_scope = staticmethod(custom_object_scope)
  legacy = _Legacy
  serialize_keras_object = staticmethod(_serialize)
  deserialize_keras_object = staticmethod(_deserialize)

  @staticmethod
  def register_keras_serializable(*a, **k):
    return lambda c: c


utils = _UtilsNS('tensorflow.keras.utils')


class _NotModelled(object):

  def __init__(self, *a, **k):
    raise tfc.NoContract('keras.%s is not modelled' % type(self).__name__)


class Model(Layer):
  """Eager stand-in for the functional API: `inputs` / `outputs` are the tensors of the one
  evaluation performed while the model was constructed (see INPUT_PROVIDER)."""

  def __init__(self, inputs=None, outputs=None, name=None, trainable=True, **kwargs):
    super(Model, self).__init__(name=name, trainable=trainable)
    self.inputs = inputs
    self.outputs = outputs


class Sequential(_NotModelled):
  pass


class _Concatenate(Layer):

  def __init__(self, axis=-1, **kw):
    super(_Concatenate, self).__init__(**kw)
    self.axis = axis

  def call(self, inputs):
    return tfc.concat(list(inputs), axis=self.axis)


class _Average(Layer):

  def call(self, inputs):
    inputs = list(inputs)
    if len(inputs) < 2:
      raise ValueError('A merge layer should be called on a list of at least 2 inputs')
    tot = inputs[0]
    for t in inputs[1:]:
      tot = tot + t
    return tot / float(len(inputs))


class _Reshape(Layer):

  def __init__(self, target_shape, **kw):
    super(_Reshape, self).__init__(**kw)
    self.target_shape = tuple(target_shape)

  def call(self, inputs):
    return tfc.reshape(inputs, [int(inputs.shape[0])] + list(self.target_shape))


class _LayersNS(types.ModuleType):
  Layer = Layer
  InputSpec = InputSpec
  Concatenate = _Concatenate
  Reshape = _Reshape
  Average = _Average

  class Input(_NotModelled):
    pass

  serialize = staticmethod(_serialize)
  deserialize = staticmethod(_deserialize)


layers = _LayersNS('tensorflow.keras.layers')


class _ModelsNS(types.ModuleType):
  Model = Model
  Sequential = Sequential


models = _ModelsNS('tensorflow.keras.models')


class _BackendNS(types.ModuleType):

  @staticmethod
  def get_value(x):
    return tfc.to_numpy(x)


backend = _BackendNS('tensorflow.keras.backend')


def Input(shape=None, batch_size=None, name=None, dtype=None, ragged=False, **k):  # pylint: disable=invalid-name
  if INPUT_PROVIDER[0] is None or ragged:
    raise tfc.NoContract('keras.Input is not modelled (no input provider / ragged)')
  return INPUT_PROVIDER[0](name, tuple(shape), tfc.as_dtype(dtype or 'float32'))


def install():
  """Creates the `tf.keras` namespace on the contract library."""
  m = types.ModuleType('tensorflow.keras')
  for k in ('layers', 'initializers', 'constraints', 'regularizers', 'utils', 'models',
            'backend', 'Model', 'Input'):
    setattr(m, k, globals()[k])
  m.Sequential = Sequential
  tfc.keras = m
  sys.modules['tensorflow.keras'] = m
  return m
