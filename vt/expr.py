"""Symbolic scalars for vt: polynomials over hash-consed atoms, and boolean formulas.

A numeric value is a polynomial `P` with exact rational coefficients over *atoms*.
An atom is a variable, or an opaque non-polynomial term whose arguments are
polynomials again: max/min (n-ary), abs, ite, inv (reciprocal) and uninterpreted
function results.  Polynomials are kept in a canonical normal form (dict
monomial -> coefficient), so two expressions that are equal by the ring axioms
are *structurally equal*; that is the "normal form" back end.  Everything else is
discharged by an SMT solver after translation (see solve.py).

Nothing here knows about tensors; tfc.py puts these objects into numpy object
arrays.
"""
from fractions import Fraction as Fr
import itertools
import math

# --------------------------------------------------------------------------- atoms

_ATOM_TABLE = {}   # key -> Atom
ATOMS = []         # id -> Atom


class Atom(object):
  __slots__ = ('id', 'kind', 'args', 'name', 'meta')

  def __repr__(self):
    if self.kind == 'var':
      return self.name
    return '%s(%s)' % (self.kind, ', '.join(repr(a) for a in self.args))


def _mk_atom(kind, args, name=None):
  key = (kind, args, name)
  a = _ATOM_TABLE.get(key)
  if a is None:
    a = Atom()
    a.id = len(ATOMS)
    a.kind = kind
    a.args = args
    a.name = name
    a.meta = None
    ATOMS.append(a)
    _ATOM_TABLE[key] = a
  return a


def reset():
  """Forget all atoms (call between independent verification runs)."""
  _ATOM_TABLE.clear()
  del ATOMS[:]
  POISON.clear()
  _fresh_counter[0] = 0


_fresh_counter = [0]


def fresh_name(prefix):
  _fresh_counter[0] += 1
  return '%s!%d' % (prefix, _fresh_counter[0])


# ---------------------------------------------------------------------- polynomials

def _to_fr(x):
  if isinstance(x, Fr):
    return x
  if isinstance(x, bool):
    return Fr(int(x))
  if isinstance(x, int):
    return Fr(x)
  if isinstance(x, float):
    if math.isinf(x) or math.isnan(x):
      raise NonFinite(x)
    return Fr(x)
  try:
    import numpy as np
    if isinstance(x, np.generic):
      return _to_fr(x.item())
  except ImportError:
    pass
  raise TypeError('cannot convert %r to a rational' % (x,))


class NonFinite(Exception):
  pass


class P(object):
  """Polynomial with rational coefficients over atoms (canonical)."""
  __slots__ = ('t', '_h')
  __array_priority__ = 1000

  def __init__(self, terms):
    self.t = terms
    self._h = None

  # -- construction
  @staticmethod
  def const(c):
    c = _to_fr(c)
    return P({(): c}) if c != 0 else P({})

  @staticmethod
  def of_atom(a):
    return P({((a.id, 1),): Fr(1)})

  @staticmethod
  def var(name):
    return P.of_atom(_mk_atom('var', (), name))

  @staticmethod
  def lift(x):
    if isinstance(x, P):
      return x
    return P.const(x)

  # -- inspection
  @property
  def is_const(self):
    return not self.t or (len(self.t) == 1 and () in self.t)

  @property
  def cval(self):
    return self.t.get((), Fr(0))

  def key(self):
    return frozenset(self.t.items())

  def __hash__(self):
    if self._h is None:
      self._h = hash(self.key())
    return self._h

  def same(self, other):
    return self.t == P.lift(other).t

  def atoms(self):
    s = set()
    for m in self.t:
      for (i, _) in m:
        s.add(i)
    return s

  def degree(self):
    return max([sum(e for _, e in m) for m in self.t] or [0])

  def split_linear(self, atom_ids):
    """self == sum_a coeff[a] * a + rest, for the given atoms; None if some monomial holds a
    product / power of them or they occur inside other atoms."""
    atom_ids = set(atom_ids)
    coeff = {}
    rest = {}
    for m, c in self.t.items():
      hits = [(i, e) for i, e in m if i in atom_ids]
      if not hits:
        rest[m] = c
        continue
      if len(hits) > 1 or hits[0][1] != 1:
        return None
      a = hits[0][0]
      mm = tuple(x for x in m if x[0] != a)
      coeff.setdefault(a, {})[mm] = c
    out = {a: P(t) for a, t in coeff.items()}
    rest = P(rest)
    inner = atoms_closure([rest] + list(out.values()), [])
    if inner & atom_ids:
      return None
    return out, rest

  # -- arithmetic
  def __add__(self, o):
    try:
      o = P.lift(o)
    except TypeError:
      return NotImplemented
    if not o.t:
      return self
    if not self.t:
      return o
    t = dict(self.t)
    for m, c in o.t.items():
      v = t.get(m)
      if v is None:
        t[m] = c
      else:
        v = v + c
        if v == 0:
          del t[m]
        else:
          t[m] = v
    return P(t)

  __radd__ = __add__

  def __neg__(self):
    return P({m: -c for m, c in self.t.items()})

  def __pos__(self):
    return self

  def __sub__(self, o):
    try:
      o = P.lift(o)
    except TypeError:
      return NotImplemented
    return self + (-o)

  def __rsub__(self, o):
    try:
      o = P.lift(o)
    except TypeError:
      return NotImplemented
    return o + (-self)

  def scale(self, c):
    if c == 0:
      return P({})
    if c == 1:
      return self
    return P({m: v * c for m, v in self.t.items()})

  def __mul__(self, o):
    try:
      o = P.lift(o)
    except TypeError:
      return NotImplemented
    if o.is_const:
      return self.scale(o.cval)
    if self.is_const:
      return o.scale(self.cval)
    t = {}
    extra = None
    for m1, c1 in self.t.items():
      for m2, c2 in o.t.items():
        m = _mul_mono(m1, m2)
        c = c1 * c2
        if _has_inverse_pair(m):
          q = _cancel_inverse(m).scale(c)
          extra = q if extra is None else extra + q
          continue
        if _has_square_root(m):
          # sqrt(x)^2 == x (x >= 0 is the domain obligation of the root)
          q = _expand_roots(m).scale(c)
          extra = q if extra is None else extra + q
          continue
        v = t.get(m)
        if v is None:
          t[m] = c
        else:
          v = v + c
          if v == 0:
            del t[m]
          else:
            t[m] = v
    r = P(t)
    return r if extra is None else r + extra

  __rmul__ = __mul__

  def __truediv__(self, o):
    try:
      o = P.lift(o)
    except TypeError:
      return NotImplemented
    if o.is_const:
      if o.cval == 0:
        # x / 0: an undefined (poison) value.  It is harmless when a tf.where masks it and
        # makes the definedness obligation of any output it reaches fail.
        return poison('div-by-zero')
      return self.scale(1 / o.cval)
    if not self.t:
      # 0 / q: the quotient is 0 wherever it is defined; q != 0 is a safety
      # obligation raised by the tensor layer, not here.
      return self
    return self * inv(o)

  def __rtruediv__(self, o):
    return P.lift(o).__truediv__(self)

  def __pow__(self, n):
    if isinstance(n, P) and n.is_const:
      n = n.cval
    if isinstance(n, (Fr, float)) and n == int(n):
      n = int(n)
    if not isinstance(n, int) or n < 0:
      raise TypeError('only non-negative integer powers are polynomial: %r' % (n,))
    r = P.const(1)
    for _ in range(n):
      r = r * self
    return r

  def __abs__(self):
    return pabs(self)

  # -- comparisons give formulas
  def __le__(self, o):
    return B.cmp('le', self - o)

  def __lt__(self, o):
    return B.cmp('lt', self - o)

  def __ge__(self, o):
    return B.cmp('le', P.lift(o) - self)

  def __gt__(self, o):
    return B.cmp('lt', P.lift(o) - self)

  def eq(self, o):
    return B.cmp('eq', self - o)

  def ne(self, o):
    return ~B.cmp('eq', self - o)

  # `==` must stay structural for dict/set use inside numpy etc.
  def __eq__(self, o):
    if isinstance(o, P):
      return self.t == o.t
    try:
      return self.t == P.lift(o).t
    except (TypeError, NonFinite):
      return False

  def __ne__(self, o):
    return not self.__eq__(o)

  def __bool__(self):
    if self.is_const:
      return self.cval != 0
    from . import ctx
    return ctx.decide(self.ne(0), 'truthiness of %r' % (self,))

  def __float__(self):
    if self.is_const:
      return float(self.cval)
    raise SymbolicValueError('float() of symbolic value %r' % (self,))

  def __int__(self):
    if self.is_const:
      return int(self.cval)
    raise SymbolicValueError('int() of symbolic value %r' % (self,))

  def __index__(self):
    if self.is_const and self.cval.denominator == 1:
      return int(self.cval)
    raise SymbolicValueError('index of symbolic value %r' % (self,))

  def __repr__(self):
    if not self.t:
      return '0'
    parts = []
    for m, c in sorted(self.t.items(), key=lambda kv: (len(kv[0]), kv[0])):
      ms = '*'.join(
          (repr(ATOMS[i]) if e == 1 else '%r^%d' % (ATOMS[i], e)) for i, e in m)
      if not m:
        parts.append(str(c))
      elif c == 1:
        parts.append(ms)
      elif c == -1:
        parts.append('-' + ms)
      else:
        parts.append('%s*%s' % (c, ms))
    return ' + '.join(parts)

  # -- evaluation on numbers
  def eval(self, env, cache=None):
    """env: atom-name -> number for variables. Other atoms are computed."""
    if cache is None:
      cache = {}
    tot = 0
    for m, c in self.t.items():
      v = c
      for i, e in m:
        v = v * (eval_atom(ATOMS[i], env, cache) ** e)
      tot = tot + v
    return tot


class SymbolicValueError(TypeError):
  """Raised when concrete Python semantics is demanded of a symbolic value."""


def _mul_mono(m1, m2):
  if not m1:
    return m2
  if not m2:
    return m1
  d = dict(m1)
  for i, e in m2:
    d[i] = d.get(i, 0) + e
  return tuple(sorted(d.items()))


def _inv_of_single_atom(a):
  """For an inv atom whose argument is exactly one atom (coefficient 1): that atom's id."""
  if a.kind != 'inv':
    return None
  q = a.args[0]
  if len(q.t) != 1:
    return None
  (mm, cc), = q.t.items()
  if cc == 1 and len(mm) == 1 and mm[0][1] == 1:
    return mm[0][0]
  return None


def _has_inverse_pair(m):
  ids = {i for i, _ in m}
  for i, _ in m:
    j = _inv_of_single_atom(ATOMS[i])
    if j is not None and j in ids:
      return True
  return False


def _cancel_inverse(m):
  """x * inv(x) == 1 wherever inv(x) is defined (x != 0 is the definedness obligation)."""
  d = dict(m)
  changed = True
  while changed:
    changed = False
    for i in list(d):
      j = _inv_of_single_atom(ATOMS[i])
      if j is not None and d.get(j, 0) > 0 and d.get(i, 0) > 0:
        k = min(d[i], d[j])
        d[i] -= k
        d[j] -= k
        changed = True
    d = {i: e for i, e in d.items() if e > 0}
  return P({tuple(sorted(d.items())): Fr(1)})


def _has_square_root(m):
  for i, e in m:
    if e >= 2:
      a = ATOMS[i]
      if a.kind == 'fn' and a.name == 'root2':
        return True
  return False


def _expand_roots(m):
  r = P.const(1)
  for i, e in m:
    a = ATOMS[i]
    if a.kind == 'fn' and a.name == 'root2' and e >= 2:
      for _ in range(e // 2):
        r = r * a.args[0]
      if e % 2:
        r = r * P.of_atom(a)
    else:
      r = r * P({((i, e),): Fr(1)})
  return r


def eval_atom(a, env, cache):
  if a.id in cache:
    return cache[a.id]
  k = a.kind
  if k == 'var':
    v = env[a.name]
  elif k == 'max':
    v = max(x.eval(env, cache) for x in a.args)
  elif k == 'min':
    v = min(x.eval(env, cache) for x in a.args)
  elif k == 'abs':
    v = abs(a.args[0].eval(env, cache))
  elif k == 'inv':
    d = a.args[0].eval(env, cache)
    if d == 0:
      v = env.get(('inv0', a.id), float('inf'))
    else:
      v = 1 / d
  elif k == 'ite':
    v = (a.args[1] if a.args[0].eval(env, cache) else a.args[2]).eval(env, cache)
  elif k == 'fn':
    f = FN_EVAL.get(a.name)
    if f is None:
      v = env[('fn', a.id)]
    else:
      v = f(*[x.eval(env, cache) for x in a.args])
  else:
    raise ValueError(k)
  cache[a.id] = v
  return v


FN_EVAL = {}

# --------------------------------------------------------------- non-polynomial ops


def _canon_minmax(kind, ps):
  """Flatten, drop duplicates, fold constants, drop dominated constant offsets."""
  flat = []
  for p in ps:
    p = P.lift(p)
    if len(p.t) == 1:
      (m, c), = p.t.items()
      if c == 1 and len(m) == 1 and m[0][1] == 1 and ATOMS[m[0][0]].kind == kind:
        flat.extend(ATOMS[m[0][0]].args)
        continue
    flat.append(p)
  # group by non-constant part: among p+c1, p+c2 keep the dominating one.
  best = {}
  order = []
  for p in flat:
    c = p.cval
    rest = p - c if c != 0 else p
    k = rest.key()
    if k not in best:
      best[k] = (rest, c)
      order.append(k)
    else:
      r0, c0 = best[k]
      if (kind == 'max' and c > c0) or (kind == 'min' and c < c0):
        best[k] = (rest, c)
  out = [best[k][0] + best[k][1] for k in order]
  if len(out) == 1:
    return out[0]
  out.sort(key=lambda p: hash(p))
  return P.of_atom(_mk_atom(kind, tuple(out)))


def pmax(*ps):
  return _canon_minmax('max', ps)


def pmin(*ps):
  return _canon_minmax('min', ps)


def pabs(p):
  p = P.lift(p)
  if p.is_const:
    return P.const(abs(p.cval))
  # canonical sign: abs(p) == abs(-p)
  n = -p
  if _sign_key(n) < _sign_key(p):
    p = n
  # pull out a positive constant factor? keep simple: no.
  return P.of_atom(_mk_atom('abs', (p,)))


def _sign_key(p):
  m = min(p.t.keys(), key=lambda mm: (len(mm), mm))
  return 0 if p.t[m] > 0 else 1


def inv(q):
  """Reciprocal 1/q for a non-constant q (q != 0 is the caller's obligation)."""
  q = P.lift(q)
  if q.is_const:
    return P.const(1 / q.cval)
  # canonical scaling: leading coefficient 1
  m = min(q.t.keys(), key=lambda mm: (len(mm), mm))
  c = q.t[m]
  if c != 1:
    return inv(q.scale(1 / c)).scale(1 / c)
  # 1/(1/x) = x (when x != 0, which was an obligation when 1/x was formed)
  if len(q.t) == 1 and len(m) == 1 and m[0][1] == 1 and ATOMS[m[0][0]].kind == 'inv':
    return ATOMS[m[0][0]].args[0]
  return P.of_atom(_mk_atom('inv', (q,)))


POISON = set()


def poison(why):
  p = P.var(fresh_name('undef:' + why))
  (m, _), = p.t.items()
  POISON.add(m[0][0])
  return p


def ite(c, a, b):
  a = P.lift(a)
  b = P.lift(b)
  if isinstance(c, bool):
    return a if c else b
  if c.kind == 'const':
    return a if c.args else b
  if a == b:
    return a
  return P.of_atom(_mk_atom('ite', (c, a, b)))


def fn(name, *args):
  """Uninterpreted real function applied to polynomials (congruence only)."""
  return P.of_atom(_mk_atom('fn', tuple(P.lift(a) for a in args), name))


# ------------------------------------------------------------------------- formulas

class B(object):
  """Boolean formula over polynomial comparisons."""
  __slots__ = ('kind', 'args', '_h')
  __array_priority__ = 1000

  def __init__(self, kind, args):
    self.kind = kind
    self.args = args
    self._h = None

  @staticmethod
  def const(v):
    return TRUE if v else FALSE

  @staticmethod
  def lift(v):
    if isinstance(v, B):
      return v
    import numpy as np
    if isinstance(v, (bool, np.bool_)):
      return TRUE if v else FALSE
    raise TypeError('not a boolean: %r' % (v,))

  @staticmethod
  def cmp(op, p):
    """op(p, 0) with op in le, lt, eq."""
    p = P.lift(p)
    if p.is_const:
      c = p.cval
      t = CONCRETE_TOL[0]
      if t:
        # comparisons of CONCRETE values up to floating-point rounding (see `tolerance`)
        return B.const(c <= t if op == 'le' else c < 0 if op == 'lt' else abs(c) <= t)
      return B.const(c <= 0 if op == 'le' else c < 0 if op == 'lt' else c == 0)
    if op == 'eq':
      n = -p
      if _sign_key(n) < _sign_key(p):
        p = n
    return B(op, (p,))

  def key(self):
    return (self.kind, self.args)

  def __hash__(self):
    if self._h is None:
      self._h = hash((self.kind, self.args))
    return self._h

  def __eq__(self, o):
    return isinstance(o, B) and self.kind == o.kind and self.args == o.args

  def __ne__(self, o):
    return not self.__eq__(o)

  def __and__(self, o):
    return band(self, B.lift(o))

  __rand__ = __and__

  def __or__(self, o):
    return bor(self, B.lift(o))

  __ror__ = __or__

  def __invert__(self):
    if self.kind == 'const':
      return B.const(not self.args)
    if self.kind == 'not':
      return self.args[0]
    if self.kind == 'le':   # not(p <= 0)  ==  -p < 0
      return B('lt', (-self.args[0],))
    if self.kind == 'lt':
      return B('le', (-self.args[0],))
    return B('not', (self,))

  def implies(self, o):
    return bor(~self, B.lift(o))

  def __bool__(self):
    if self.kind == 'const':
      return bool(self.args)
    from . import ctx
    return ctx.decide(self, 'python branch on %r' % (self,))

  def __repr__(self):
    k = self.kind
    if k == 'const':
      return 'true' if self.args else 'false'
    if k in ('le', 'lt', 'eq'):
      return '(%r %s 0)' % (self.args[0], {'le': '<=', 'lt': '<', 'eq': '=='}[k])
    if k == 'not':
      return '!%r' % (self.args[0],)
    return '(' + (' & ' if k == 'and' else ' | ').join(repr(a) for a in self.args) + ')'

  def eval(self, env, cache=None, tol=0):
    if cache is None:
      cache = {}
    k = self.kind
    if k == 'const':
      return bool(self.args)
    if k == 'le':
      return self.args[0].eval(env, cache) <= tol
    if k == 'lt':
      return self.args[0].eval(env, cache) < tol
    if k == 'eq':
      return abs(self.args[0].eval(env, cache)) <= tol
    if k == 'not':
      return not self.args[0].eval(env, cache, tol)
    if k == 'and':
      return all(a.eval(env, cache, tol) for a in self.args)
    if k == 'or':
      return any(a.eval(env, cache, tol) for a in self.args)
    raise ValueError(k)

  def polys(self):
    if self.kind in ('le', 'lt', 'eq'):
      return [self.args[0]]
    if self.kind == 'const':
      return []
    out = []
    for a in self.args:
      out.extend(a.polys())
    return out


CONCRETE_TOL = [0]


class tolerance(object):
  """Within this context, comparisons between CONCRETE numbers hold up to `tol` (used where the
  real code produces concrete values with Python float arithmetic, e.g. initializers)."""

  def __init__(self, tol):
    self.tol = Fr(tol)

  def __enter__(self):
    self.old = CONCRETE_TOL[0]
    CONCRETE_TOL[0] = self.tol

  def __exit__(self, *a):
    CONCRETE_TOL[0] = self.old


TRUE = B('const', True)
FALSE = B('const', False)


def band(*bs):
  out = []
  seen = set()
  for b in bs:
    b = B.lift(b)
    if b.kind == 'const':
      if not b.args:
        return FALSE
      continue
    items = b.args if b.kind == 'and' else (b,)
    for x in items:
      if x not in seen:
        seen.add(x)
        out.append(x)
  if not out:
    return TRUE
  if len(out) == 1:
    return out[0]
  return B('and', tuple(out))


def bor(*bs):
  out = []
  seen = set()
  for b in bs:
    b = B.lift(b)
    if b.kind == 'const':
      if b.args:
        return TRUE
      continue
    items = b.args if b.kind == 'or' else (b,)
    for x in items:
      if x not in seen:
        seen.add(x)
        out.append(x)
  if not out:
    return FALSE
  if len(out) == 1:
    return out[0]
  return B('or', tuple(out))


def ball(bs):
  return band(*list(bs))


def bany(bs):
  return bor(*list(bs))


# ----------------------------------------------------------------- dependency walk

def atoms_closure(polys, bools):
  """All atom ids reachable from the given polynomials / formulas."""
  seen = set()
  stack = []

  def push_p(p):
    for i in p.atoms():
      if i not in seen:
        seen.add(i)
        stack.append(i)

  def push_b(b):
    for p in b.polys():
      push_p(p)
    if b.kind in ('and', 'or', 'not'):
      pass

  for p in polys:
    push_p(p)
  for b in bools:
    push_b(b)
  while stack:
    a = ATOMS[stack.pop()]
    for x in a.args:
      if isinstance(x, P):
        push_p(x)
      elif isinstance(x, B):
        push_b(x)
  return seen


def free_vars(polys, bools):
  return sorted(ATOMS[i].name for i in atoms_closure(polys, bools)
                if ATOMS[i].kind == 'var')


# ------------------------------------------------- interval reasoning / region simplifier

def _imul(a, b):
  """Interval product; None = infinite end."""
  (al, ah), (bl, bh) = a, b
  if (al == 0 and ah == 0) or (bl == 0 and bh == 0):
    return (Fr(0), Fr(0))
  cands = []
  inf_lo = inf_hi = False
  for x, xs in ((al, -1), (ah, 1)):
    for y, ys in ((bl, -1), (bh, 1)):
      if x is None or y is None:
        # sign of the infinite product
        sx = xs if x is None else (1 if x > 0 else -1 if x < 0 else 0)
        sy = ys if y is None else (1 if y > 0 else -1 if y < 0 else 0)
        s = sx * sy
        if s > 0:
          inf_hi = True
        elif s < 0:
          inf_lo = True
        else:
          cands.append(Fr(0))
      else:
        cands.append(x * y)
  lo = None if inf_lo else min(cands)
  hi = None if inf_hi else max(cands)
  return (lo, hi)


def _iadd(a, b):
  return (None if a[0] is None or b[0] is None else a[0] + b[0],
          None if a[1] is None or b[1] is None else a[1] + b[1])


def _iscale(a, c):
  if c == 0:
    return (Fr(0), Fr(0))
  lo = None if a[0] is None else a[0] * c
  hi = None if a[1] is None else a[1] * c
  return (lo, hi) if c > 0 else (hi, lo)


class Region(object):
  """Box of variable bounds: name -> (lo, hi), None = unbounded."""

  def __init__(self, bounds, nonzero=()):
    self.bounds = dict(bounds)
    self.nonzero = set(nonzero)
    self._ai = {}
    self._simp = {}

  def formula(self):
    cl = []
    for n, (lo, hi) in sorted(self.bounds.items()):
      v = P.var(n)
      if lo is not None:
        cl.append(v >= lo)
      if hi is not None:
        cl.append(v <= hi)
    for n in sorted(self.nonzero):
      cl.append(P.var(n).ne(0))
    return ball(cl)

  # -- intervals
  def interval(self, p):
    tot = (Fr(0), Fr(0))
    for m, c in p.t.items():
      iv = (Fr(1), Fr(1))
      for i, e in m:
        ai = self.atom_interval(ATOMS[i])
        for _ in range(e):
          iv = _imul(iv, ai)
        if e % 2 == 0 and iv[0] is not None and iv[0] < 0:
          iv = (Fr(0), iv[1])
        elif e % 2 == 0 and iv[0] is None:
          iv = (Fr(0), iv[1])
      tot = _iadd(tot, _iscale(iv, c))
    return tot

  def atom_interval(self, a):
    r = self._ai.get(a.id)
    if r is not None:
      return r
    k = a.kind
    if k == 'var':
      r = self.bounds.get(a.name, (None, None))
    elif k in ('max', 'min'):
      ivs = [self.interval(x) for x in a.args]
      los = [iv[0] for iv in ivs]
      his = [iv[1] for iv in ivs]
      if k == 'max':
        lo = None if all(l is None for l in los) else max(l for l in los if l is not None)
        hi = None if any(h is None for h in his) else max(his)
      else:
        lo = None if any(l is None for l in los) else min(los)
        hi = None if all(h is None for h in his) else min(h for h in his if h is not None)
      r = (lo, hi)
    elif k == 'abs':
      lo, hi = self.interval(a.args[0])
      if lo is not None and lo >= 0:
        r = (lo, hi)
      elif hi is not None and hi <= 0:
        r = (-hi, None if lo is None else -lo)
      else:
        r = (Fr(0), None if lo is None or hi is None else max(-lo, hi))
    elif k == 'ite':
      x, y = self.interval(a.args[1]), self.interval(a.args[2])
      r = (None if x[0] is None or y[0] is None else min(x[0], y[0]),
           None if x[1] is None or y[1] is None else max(x[1], y[1]))
    elif k == 'inv':
      lo, hi = self.interval(a.args[0])
      if lo is not None and lo > 0:
        r = (None if hi is None else 1 / hi, 1 / lo)
        if hi is None:
          r = (Fr(0), 1 / lo)
      elif hi is not None and hi < 0:
        r = (1 / hi, Fr(0) if lo is None else 1 / lo)
      else:
        r = (None, None)
    else:
      r = (None, None)
    self._ai[a.id] = r
    return r

  def truth(self, b):
    """True / False when the formula is decided on the whole region, else None."""
    k = b.kind
    if k == 'const':
      return bool(b.args)
    if k in ('le', 'lt', 'eq'):
      lo, hi = self.interval(self.simplify(b.args[0]))
      if k == 'le':
        if hi is not None and hi <= 0:
          return True
        if lo is not None and lo > 0:
          return False
      elif k == 'lt':
        if hi is not None and hi < 0:
          return True
        if lo is not None and lo >= 0:
          return False
      else:
        if lo == 0 and hi == 0:
          return True
        if (lo is not None and lo > 0) or (hi is not None and hi < 0):
          return False
        q = self.simplify(b.args[0])
        if len(q.t) == 1:
          (mm, cc), = q.t.items()
          if len(mm) == 1 and ATOMS[mm[0][0]].kind == 'var' and ATOMS[mm[0][0]].name in self.nonzero:
            return False
      return None
    if k == 'not':
      t = self.truth(b.args[0])
      return None if t is None else (not t)
    ts = [self.truth(x) for x in b.args]
    if k == 'and':
      if any(t is False for t in ts):
        return False
      return True if all(t is True for t in ts) else None
    if k == 'or':
      if any(t is True for t in ts):
        return True
      return False if all(t is False for t in ts) else None
    return None

  # -- simplification
  def simplify(self, p):
    r = self._simp.get(p)
    if r is not None:
      return r
    out = P.const(0)
    for m, c in p.t.items():
      term = P.const(c)
      for i, e in m:
        ap = self.simplify_atom(ATOMS[i])
        for _ in range(e):
          term = term * ap
      out = out + term
    self._simp[p] = out
    return out

  def simplify_atom(self, a):
    k = a.kind
    if k == 'var':
      lo, hi = self.bounds.get(a.name, (None, None))
      if lo is not None and lo == hi:
        return P.const(lo)
      return P.of_atom(a)
    if k in ('max', 'min'):
      args = [self.simplify(x) for x in a.args]
      keep = list(range(len(args)))
      for i in range(len(args)):
        for j in range(len(args)):
          if i == j or i not in keep or j not in keep:
            continue
          lo, hi = self.interval(args[j] - args[i])
          # j dominates i on the whole region
          if k == 'max' and lo is not None and lo >= 0:
            keep.remove(i)
            break
          if k == 'min' and hi is not None and hi <= 0:
            keep.remove(i)
            break
      rest = [args[i] for i in keep]
      return pmax(*rest) if k == 'max' else pmin(*rest)
    if k == 'abs':
      q = self.simplify(a.args[0])
      lo, hi = self.interval(q)
      if lo is not None and lo >= 0:
        return q
      if hi is not None and hi <= 0:
        return -q
      return pabs(q)
    if k == 'ite':
      t = self.truth(a.args[0])
      if t is True:
        return self.simplify(a.args[1])
      if t is False:
        return self.simplify(a.args[2])
      return ite(self.simplify_b(a.args[0]), self.simplify(a.args[1]), self.simplify(a.args[2]))
    if k == 'inv':
      return inv(self.simplify(a.args[0]))
    if k == 'fn':
      return fn(a.name, *[self.simplify(x) for x in a.args])
    raise ValueError(k)

  def simplify_b(self, b):
    t = self.truth(b)
    if t is not None:
      return B.const(t)
    k = b.kind
    if k in ('le', 'lt', 'eq'):
      return B.cmp(k, self.simplify(b.args[0]))
    if k == 'not':
      return ~self.simplify_b(b.args[0])
    parts = [self.simplify_b(x) for x in b.args]
    return band(*parts) if k == 'and' else bor(*parts)


# ------------------------------------------------------------ definedness (finite results)

FN_DOMAIN = {
    'log': lambda args: args[0] > 0,
}


def _domain(a):
  if a.name in FN_DOMAIN:
    return FN_DOMAIN[a.name](a.args)
  if a.name.startswith('root') and a.name[4:].isdigit():
    return a.args[0] >= 0
  return TRUE


def defined(p, memo=None):
  """Formula under which the value of p is a finite real: every reciprocal that can reach the
  value has a non-zero argument (reciprocals under a tf.where / divide_no_nan guard only count on
  their branch), function arguments are in their domains, no poison value is involved."""
  if memo is None:
    memo = {}
  parts = []
  for i in P.lift(p).atoms():
    parts.append(_defined_atom(ATOMS[i], memo))
  return ball(parts)


def _defined_b(b, memo):
  return ball([defined(q, memo) for q in b.polys()])


def _defined_atom(a, memo):
  r = memo.get(a.id)
  if r is not None:
    return r
  k = a.kind
  if k == 'var':
    r = FALSE if a.id in POISON else TRUE
  elif k in ('max', 'min', 'abs'):
    r = ball([defined(x, memo) for x in a.args])
  elif k == 'inv':
    r = band(defined(a.args[0], memo), a.args[0].ne(0))
  elif k == 'ite':
    c = a.args[0]
    r = band(_defined_b(c, memo), c.implies(defined(a.args[1], memo)), (~c).implies(defined(a.args[2], memo)))
  elif k == 'fn':
    r = band(ball([defined(x, memo) for x in a.args]), _domain(a))
  else:
    r = TRUE
  memo[a.id] = r
  return r
