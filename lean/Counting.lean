import Mathlib.Data.List.Count
import Mathlib.Data.List.Perm.Basic

/-!
Counting lemmas used by C17's ghost-state argument (props/C17.py, `_usage_profile`).

A shuffle token `t` stands for the original element `g t`, with `g` injective on tokens
(a shuffle is a bijection of positions).  The *realised* list is `Y.map g`.
-/

open List

/-- (1) Bijective relabelling: the usage count of the original behind a token equals the usage count of the
token, so the multiset of usage counts of the originals is that of the tokens. -/
theorem count_relabel {τ ω : Type} [DecidableEq τ] [DecidableEq ω] (g : τ → ω)
    (hg : Function.Injective g) (Y : List τ) (t : τ) :
    count (g t) (Y.map g) = count t Y :=
  List.count_map_of_injective Y g hg t

/-- A shuffle (a permutation of positions) does not change any usage count. -/
theorem count_shuffle {ω : Type} [DecidableEq ω] (l l' : List ω) (h : l ~ l') (a : ω) :
    count a l = count a l' :=
  h.count_eq a

theorem count_copies {ω : Type} [DecidableEq ω] (O : List ω) (k : ℕ) (a : ω) :
    count a (List.replicate k O).flatten = k * count a O := by
  induction k with
  | zero => simp
  | succ n ih =>
    simp [List.replicate_succ, List.count_append, ih, Nat.succ_mul, Nat.add_comm]

/-- (2) If a later list is a permutation of `k` copies of the shuffled list, every original is used
`k` times as often as in the shuffled list - whatever the permutation was. -/
theorem count_replicated {ω : Type} [DecidableEq ω] (O Y : List ω) (k : ℕ)
    (h : Y ~ (List.replicate k O).flatten) (a : ω) :
    count a Y = k * count a O := by
  rw [h.count_eq a, count_copies]

theorem count_copies_map {τ ω : Type} [DecidableEq ω] (r : τ → ω) (N : List τ) (k : ℕ) (a : ω) :
    count a (((List.replicate k N).flatten).map r) = k * count a (N.map r) := by
  have h : ((List.replicate k N).flatten).map r = (List.replicate k (N.map r)).flatten := by
    simp [List.map_flatten, List.map_replicate]
  rw [h, count_copies]

/-- (2') The form `_usage_profile` uses for a later shuffle: `new` are the fresh tokens (one per position), `r`
maps a token to the element it stands for, `new.map r ~ old` says the shuffle permuted `old`; if the final list `Y`
uses every token `k` times as often as `new` does (exactly `k` times each, as `new` has no duplicates), then every
original is used `k` times as often as in `old`. -/
theorem count_later {τ ω : Type} [DecidableEq τ] [DecidableEq ω] (r : τ → ω) (new : List τ) (old : List ω)
    (Y : List τ) (k : ℕ) (hY : ∀ t, count t Y = k * count t new) (hσ : new.map r ~ old) (a : ω) :
    count a (Y.map r) = k * count a old := by
  have hperm : Y ~ (List.replicate k new).flatten := by
    rw [List.perm_iff_count]
    intro t
    rw [hY t, count_copies]
  rw [(hperm.map r).count_eq a, count_copies_map, hσ.count_eq a]
