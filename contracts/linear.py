"""Contracts for internal_utils, linear_lib.project, categorical_calibration_lib.project and the
two constraint classes (C06)."""
import numpy as np

from vt import ctx as C
from vt import expr as E
from vt import tfc
from vt.expr import P, B
from vt.harness import Contract, register, conj, under, tensors_equal
from vt import utils_shim


def fresh_like(t, prefix):
  t = tfc._t(t)
  return tfc.sym(t.a.shape, E.fresh_name(prefix), t.dtype)


def components(n, pairs):
  parent = list(range(n))

  def find(x):
    while parent[x] != x:
      parent[x] = parent[parent[x]]
      x = parent[x]
    return x
  for i, j in pairs:
    parent[find(i)] = find(j)
  comp = {}
  for i in range(n):
    comp.setdefault(find(i), []).append(i)
  touched = {i for p in pairs for i in p}
  return {i: (comp[find(i)] if i in touched else [i]) for i in range(n)}


def is_dag(n, pairs):
  adj = {i: [] for i in range(n)}
  for i, j in pairs:
    if not (0 <= i < n and 0 <= j < n):
      return False
    adj[i].append(j)
  color = {}

  def dfs(v):
    color[v] = 1
    for w in adj[v]:
      if color.get(w) == 1:
        return False
      if w not in color and not dfs(w):
        return False
    color[v] = 2
    return True
  return all(dfs(v) for v in range(n) if v not in color)


def order_clauses(w, pairs, tag='order'):
  """pairs (i, j): w[i] <= w[j], per unit."""
  a = tfc._t(w).a
  out = []
  for (i, j) in pairs or []:
    for u in range(a.shape[1]):
      out.append(('%s[%d<=%d,u%d]' % (tag, i, j, u), P.lift(a[i, u]) <= P.lift(a[j, u])))
  return out


def _unit(clauses, u):
  tag = 'u%d]' % u
  return [(n, b) for n, b in clauses if n.endswith(tag)]


def per_unit_unchanged(feas, out, inp, tag='feasible=>unchanged'):
  out, inp = tfc._t(out), tfc._t(inp)
  if out.a.shape != inp.a.shape:
    return [(tag + ':shape', E.FALSE)]
  cl = []
  for u in range(out.a.shape[1]):
    hyp = conj(_unit(feas, u))
    for i in range(out.a.shape[0]):
      cl.append(('%s:same[%d,u%d]' % (tag, i, u),
                 hyp.implies(P.lift(out.a[i, u]).eq(P.lift(inp.a[i, u])))))
  return cl


@register
class PartialMonotonicities(Contract):
  module = 'internal_utils'
  qualname = 'approximately_project_categorical_partial_monotonicities'

  def pre(self, weights, monotonicities):
    n = tfc._t(weights).a.shape[0]
    return [('acyclic-pairs', B.const(is_dag(n, list(monotonicities))))]

  def fresh_out(self, weights, monotonicities):
    return fresh_like(weights, 'ppm')

  def post(self, out, weights, monotonicities):
    w = tfc._t(weights)
    cl = [('shape', B.const(tuple(out.shape) == tuple(w.shape)))]
    if tuple(out.shape) != tuple(w.shape):
      return cl
    pairs = [tuple(p) for p in monotonicities]
    cl += order_clauses(out, pairs)
    comp = components(w.a.shape[0], pairs)
    for i in range(w.a.shape[0]):
      for u in range(w.a.shape[1]):
        members = [P.lift(w.a[k, u]) for k in comp[i]]
        o = P.lift(out.a[i, u])
        if len(members) == 1:
          cl.append(('untouched[%d,u%d]' % (i, u), o.eq(members[0])))
        else:
          cl.append(('within-component-lo[%d,u%d]' % (i, u), o >= E.pmin(*members)))
          cl.append(('within-component-hi[%d,u%d]' % (i, u), o <= E.pmax(*members)))
    cl += per_unit_unchanged(order_clauses(w, pairs), out, w)
    return cl


def linear_clauses(w, monotonicities, monotonic_dominances, range_dominances, input_min,
                   input_max, normalization_order, with_norm=True):
  a = tfc._t(w).a
  n, U = a.shape
  cl = []
  for i, m in enumerate(monotonicities):
    for u in range(U):
      if m == 1:
        cl.append(('sign[%d,u%d]' % (i, u), P.lift(a[i, u]) >= 0))
      elif m == -1:
        cl.append(('sign[%d,u%d]' % (i, u), P.lift(a[i, u]) <= 0))
  for (dom, weak) in monotonic_dominances or []:
    for u in range(U):
      cl.append(('mono-dominance[%d>%d,u%d]' % (dom, weak, u), P.lift(a[dom, u]) >= P.lift(a[weak, u])))
  if range_dominances:
    sc = []
    for i, m in enumerate(monotonicities):
      s = P.const(-1 if m == -1 else 1)
      if input_min[i] is not None and input_max[i] is not None:
        s = s * (P.lift(input_max[i]) - P.lift(input_min[i]))
      sc.append(s)
    for (dom, weak) in range_dominances:
      for u in range(U):
        cl.append(('range-dominance[%d>%d,u%d]' % (dom, weak, u),
                   sc[dom] * P.lift(a[dom, u]) >= sc[weak] * P.lift(a[weak, u])))
  return cl


def norm_of(col, order):
  if order == 1:
    s = P.const(0)
    for x in col:
      s = s + E.pabs(P.lift(x))
    return s
  s = P.const(0)
  for x in col:
    s = s + P.lift(x) * P.lift(x)
  return s   # squared 2-norm


@register
class LinearProject(Contract):
  module = 'linear_lib'
  qualname = 'project'

  def pre(self, weights, monotonicities, monotonic_dominances=None, range_dominances=None,
          input_min=None, input_max=None, normalization_order=None):
    cl = []
    if range_dominances:
      for i in range(len(monotonicities)):
        if input_min[i] is not None and input_max[i] is not None:
          cl.append(('input-range[%d]' % i, P.lift(input_min[i]) < P.lift(input_max[i])))
    return cl

  def fresh_out(self, weights, *a, **k):
    return fresh_like(weights, 'lp')

  def post(self, out, weights, monotonicities, monotonic_dominances=None, range_dominances=None,
           input_min=None, input_max=None, normalization_order=None):
    w = tfc._t(weights)
    cl = [('shape', B.const(tuple(out.shape) == tuple(w.shape)))]
    if tuple(out.shape) != tuple(w.shape):
      return cl
    cl += linear_clauses(out, monotonicities, monotonic_dominances, range_dominances, input_min,
                         input_max, normalization_order)
    feas = linear_clauses(w, monotonicities, monotonic_dominances, range_dominances, input_min,
                          input_max, normalization_order)
    U = w.a.shape[1]
    if normalization_order:
      for u in range(U):
        nin = norm_of(list(w.a[:, u]), normalization_order)
        nout = norm_of(list(out.a[:, u]), normalization_order)
        # unit norm unless the (constrained) weights are numerically zero
        cl.append(('unit-norm-or-zero[u%d]' % u,
                   nout.eq(1) | (nout < (P.const(1e-8) if normalization_order == 1
                                           else P.const(1e-8) * P.const(1e-8)))))
        feas.append(('norm[u%d]' % u, nin.eq(1)))
    cl += per_unit_unchanged(feas, out, w)
    return cl


@register
class CategoricalProject(Contract):
  module = 'categorical_calibration_lib'
  qualname = 'project'

  def pre(self, weights, output_min, output_max, monotonicities):
    cl = []
    if output_min is not None and output_max is not None:
      cl.append(('min<=max', P.lift(output_min) <= P.lift(output_max)))
    return cl

  def fresh_out(self, weights, *a, **k):
    return fresh_like(weights, 'cp')

  def post(self, out, weights, output_min, output_max, monotonicities):
    w = tfc._t(weights)
    cl = [('shape', B.const(tuple(out.shape) == tuple(w.shape)))]
    if tuple(out.shape) != tuple(w.shape):
      return cl
    pairs = [tuple(p) for p in monotonicities or []]
    cl += order_clauses(out, pairs)
    feas = order_clauses(w, pairs)
    for i in range(w.a.shape[0]):
      for u in range(w.a.shape[1]):
        if output_min is not None:
          cl.append(('bounds-min[%d,u%d]' % (i, u), P.lift(out.a[i, u]) >= output_min))
          feas.append(('in-min[%d,u%d]' % (i, u), P.lift(w.a[i, u]) >= output_min))
        if output_max is not None:
          cl.append(('bounds-max[%d,u%d]' % (i, u), P.lift(out.a[i, u]) <= output_max))
          feas.append(('in-max[%d,u%d]' % (i, u), P.lift(w.a[i, u]) <= output_max))
    cl += per_unit_unchanged(feas, out, w)
    return cl


def _canon_bounds(b, n):
  if b is None:
    return [None] * n
  if isinstance(b, (int, float)) or hasattr(b, 'is_const'):
    return [b] * n
  return list(b)


@register
class LinearConstraintsCall(Contract):
  module = 'linear_layer'
  qualname = 'LinearConstraints.__call__'

  def _args(self, this, w):
    n = tfc._t(w).a.shape[0]
    return (utils_shim.canon_monotonicities(this.monotonicities, n), this.monotonic_dominances,
            this.range_dominances, _canon_bounds(this.input_min, n), _canon_bounds(this.input_max, n),
            this.normalization_order)

  def pre(self, this, w):
    return LinearProject().pre(w, *self._args(this, w))

  def fresh_out(self, this, w):
    return fresh_like(w, 'lcc')

  def post(self, out, this, w):
    return LinearProject().post(out, w, *self._args(this, w))


@register
class CategoricalConstraintsCall(Contract):
  module = 'categorical_calibration_layer'
  qualname = 'CategoricalCalibrationConstraints.__call__'

  def pre(self, this, w):
    return CategoricalProject().pre(w, this.output_min, this.output_max, this.monotonicities)

  def fresh_out(self, this, w):
    return fresh_like(w, 'ccc')

  def post(self, out, this, w):
    return CategoricalProject().post(out, w, this.output_min, this.output_max, this.monotonicities)
