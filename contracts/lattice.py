"""Contracts for tensorflow_lattice/python/lattice_lib.py and lattice_layer.py.

Helper contracts talk about the *shaped* kernel the helpers receive (lattice_sizes
with the unit count appended as a trailing, unconstrained dimension when units > 1).
The top-level contracts talk about the flat (prod(sizes), units) kernel.

Ghost state (`ctx.ghost`): the strict-constraint configuration of the enclosing
finalize call (monotonicities, Edgeworth trusts, trapezoid trusts), which the
helpers do not receive as arguments but whose preservation they promise.
"""
import numpy as np

from vt import ctx as C
from vt import expr as E
from vt import tfc
from vt.expr import P, B
from vt.harness import Contract, register, conj, under, tensors_equal, le, eq
from spec import lattice as S


def _ghost():
  return getattr(C.cur(), 'ghost', None) or {}


def _pad(lst, n):
  lst = list(lst or [])
  return lst + [0] * (n - len(lst))


def waived_trapezoids(edgeworth_trusts, trapezoid_trusts):
  """Documented exception: several trapezoid trusts sharing a conditional feature while
  Edgeworth trusts are present - exactly those trapezoid trusts may be violated."""
  if not edgeworth_trusts or not trapezoid_trusts:
    return []
  by_cond = {}
  for t in trapezoid_trusts:
    by_cond.setdefault(t[1], []).append(t)
  out = []
  for c, ts in by_cond.items():
    if len(ts) >= 2:
      out.extend(ts)
  return out


def strict_clauses(kernel, sizes, monotonicities, edgeworth_trusts, trapezoid_trusts,
                   waive=True):
  cl = []
  cl += S.mono(kernel, sizes, monotonicities)
  cl += S.edgeworth(kernel, sizes, edgeworth_trusts)
  tz = list(trapezoid_trusts or [])
  if waive:
    w = waived_trapezoids(edgeworth_trusts, tz)
    tz = [t for t in tz if t not in w]
  cl += S.trapezoid(kernel, sizes, tz)
  return cl


def fresh_like(t, prefix):
  t = tfc._t(t)
  return tfc.sym(t.a.shape, E.fresh_name(prefix), t.dtype)


@register
class ApproxMonotonicity(Contract):
  module = 'lattice_lib'
  qualname = '_approximately_project_monotonicity'

  def fresh_out(self, weights, lattice_sizes, monotonicities):
    return fresh_like(weights, 'apm')

  def post(self, out, weights, lattice_sizes, monotonicities):
    cl = [('shape', B.const(tuple(out.shape) == tuple(weights.shape)))]
    cl += S.mono(out, lattice_sizes, monotonicities)
    cl += under(conj(S.mono(weights, lattice_sizes, monotonicities)),
                tensors_equal('same', out, weights), 'feasible=>unchanged')
    return cl


@register
class ApproxEdgeworth(Contract):
  module = 'lattice_lib'
  qualname = '_approximately_project_edgeworth'

  def pre(self, weights, lattice_sizes, units, edgeworth_trusts):
    g = _ghost()
    return S.mono(weights, lattice_sizes, _pad(g.get('monotonicities'), len(lattice_sizes)))

  def fresh_out(self, weights, lattice_sizes, units, edgeworth_trusts):
    return fresh_like(weights, 'ape')

  def post(self, out, weights, lattice_sizes, units, edgeworth_trusts):
    g = _ghost()
    cl = [('shape', B.const(tuple(out.shape) == tuple(weights.shape)))]
    cl += S.mono(out, lattice_sizes, _pad(g.get('monotonicities'), len(lattice_sizes)),
                 tag='keeps-mono')
    cl += S.edgeworth(out, lattice_sizes, edgeworth_trusts)
    cl += under(conj(S.edgeworth(weights, lattice_sizes, edgeworth_trusts)),
                tensors_equal('same', out, weights), 'feasible=>unchanged')
    return cl


@register
class ApproxTrapezoid(Contract):
  module = 'lattice_lib'
  qualname = '_approximately_project_trapezoid'

  def pre(self, weights, lattice_sizes, units, trapezoid_trusts, edgeworth_trusts):
    g = _ghost()
    return (S.mono(weights, lattice_sizes, _pad(g.get('monotonicities'), len(lattice_sizes))) +
            S.edgeworth(weights, lattice_sizes, edgeworth_trusts))

  def fresh_out(self, weights, lattice_sizes, units, trapezoid_trusts, edgeworth_trusts):
    return fresh_like(weights, 'apt')

  def post(self, out, weights, lattice_sizes, units, trapezoid_trusts, edgeworth_trusts):
    g = _ghost()
    cl = [('shape', B.const(tuple(out.shape) == tuple(weights.shape)))]
    cl += S.mono(out, lattice_sizes, _pad(g.get('monotonicities'), len(lattice_sizes)),
                 tag='keeps-mono')
    cl += S.edgeworth(out, lattice_sizes, edgeworth_trusts, tag='keeps-edgeworth')
    waived = waived_trapezoids(edgeworth_trusts, trapezoid_trusts)
    cl += S.trapezoid(out, lattice_sizes, [t for t in (trapezoid_trusts or []) if t not in waived])
    cl += under(conj(S.trapezoid(weights, lattice_sizes, trapezoid_trusts)),
                tensors_equal('same', out, weights), 'feasible=>unchanged')
    return cl


def _unit_view(t, units):
  """(prod, units)-style access for a shaped kernel: list of per-unit flat arrays."""
  a = t.a
  if units > 1:
    return [a[..., u].reshape(-1) for u in range(units)]
  return [a.reshape(-1)]


@register
class ApproxBounds(Contract):
  module = 'lattice_lib'
  qualname = '_approximately_project_bounds'

  def pre(self, weights, units, output_min, output_max):
    if output_min is not None and output_max is not None:
      return [('min<max', P.lift(output_min) < P.lift(output_max))]
    return []

  def fresh_out(self, weights, units, output_min, output_max):
    return fresh_like(weights, 'apb')

  def post(self, out, weights, units, output_min, output_max):
    g = _ghost()
    sizes = list(weights.shape)
    cl = [('shape', B.const(tuple(out.shape) == tuple(weights.shape)))]
    # within bounds, per unit
    inb_w = []
    for u, (col_o, col_w) in enumerate(zip(_unit_view(out, units), _unit_view(weights, units))):
      for i, (o, w) in enumerate(zip(col_o, col_w)):
        if output_min is not None:
          cl.append(('bounds-min[%d,u%d]' % (i, u), P.lift(o) >= output_min))
          inb_w.append(P.lift(w) >= output_min)
        if output_max is not None:
          cl.append(('bounds-max[%d,u%d]' % (i, u), P.lift(o) <= output_max))
          inb_w.append(P.lift(w) <= output_max)
    # preserves every strict family of the enclosing configuration
    monos = _pad(g.get('monotonicities'), len(sizes))
    ew, tz = g.get('edgeworth_trusts'), g.get('trapezoid_trusts')
    for (n1, b1), (n2, b2) in zip(S.mono(weights, sizes, monos), S.mono(out, sizes, monos, tag='keeps-mono')):
      cl.append((n2, b1.implies(b2)))
    for (n1, b1), (n2, b2) in zip(S.edgeworth(weights, sizes, ew),
                                  S.edgeworth(out, sizes, ew, tag='keeps-edgeworth')):
      cl.append((n2, b1.implies(b2)))
    for (n1, b1), (n2, b2) in zip(S.trapezoid(weights, sizes, tz),
                                  S.trapezoid(out, sizes, tz, tag='keeps-trapezoid')):
      cl.append((n2, b1.implies(b2)))
    cl += under(E.ball(inb_w), tensors_equal('same', out, weights), 'feasible=>unchanged')
    return cl


def feasible_strict(kernel, sizes, monotonicities, edgeworth_trusts, trapezoid_trusts,
                    output_min, output_max, with_bounds):
  cl = strict_clauses(kernel, sizes, monotonicities, edgeworth_trusts, trapezoid_trusts,
                      waive=False)
  if with_bounds:
    cl += S.in_bounds(kernel, sizes, output_min, output_max)
  return cl


@register
class FinalizeConstraints(Contract):
  module = 'lattice_lib'
  qualname = 'finalize_constraints'

  def pre(self, weights, lattice_sizes, monotonicities, edgeworth_trusts=None,
          trapezoid_trusts=None, output_min=None, output_max=None):
    if output_min is not None and output_max is not None:
      return [('min<max', P.lift(output_min) < P.lift(output_max))]
    return []

  def fresh_out(self, weights, lattice_sizes, monotonicities, edgeworth_trusts=None,
                trapezoid_trusts=None, output_min=None, output_max=None):
    return fresh_like(weights, 'fin')

  def post(self, out, weights, lattice_sizes, monotonicities, edgeworth_trusts=None,
           trapezoid_trusts=None, output_min=None, output_max=None):
    cl = [('shape', B.const(tuple(out.shape) == tuple(weights.shape)))]
    any_mono = any(m != 0 for m in (monotonicities or []))
    trusts = bool(edgeworth_trusts or trapezoid_trusts)
    if not any_mono:
      return cl + tensors_equal('no-monotone-dim=>identity', out, weights)
    cl += strict_clauses(out, lattice_sizes, monotonicities, edgeworth_trusts, trapezoid_trusts)
    if trusts:
      cl += S.in_bounds(out, lattice_sizes, output_min, output_max)
    feas = feasible_strict(weights, lattice_sizes, monotonicities, edgeworth_trusts,
                           trapezoid_trusts, output_min, output_max, with_bounds=trusts)
    cl += under(conj(feas), tensors_equal('same', out, weights), 'feasible=>unchanged')
    return cl


def all_family_clauses(kernel, sizes, monotonicities=None, unimodalities=None,
                       edgeworth_trusts=None, trapezoid_trusts=None, monotonic_dominances=None,
                       range_dominances=None, joint_monotonicities=None,
                       joint_unimodalities=None):
  from spec import lattice_joint as SJ
  cl = []
  cl += S.mono(kernel, sizes, monotonicities)
  cl += S.unimodal(kernel, sizes, unimodalities)
  cl += S.edgeworth(kernel, sizes, edgeworth_trusts)
  cl += S.trapezoid(kernel, sizes, trapezoid_trusts)
  cl += S.monotonic_dominance(kernel, sizes, monotonic_dominances)
  cl += S.range_dominance(kernel, sizes, range_dominances)
  cl += S.joint_monotonicity(kernel, sizes, joint_monotonicities)
  cl += SJ.joint_unimodality(kernel, sizes, joint_unimodalities)
  return cl


@register
class ProjectByDykstra(Contract):
  module = 'lattice_lib'
  qualname = 'project_by_dykstra'

  def fresh_out(self, weights, lattice_sizes, **kw):
    return fresh_like(weights, 'dyk')

  def post(self, out, weights, lattice_sizes, monotonicities=None, unimodalities=None,
           edgeworth_trusts=None, trapezoid_trusts=None, monotonic_dominances=None,
           range_dominances=None, joint_monotonicities=None, joint_unimodalities=None,
           num_iterations=1):
    cl = [('shape', B.const(tuple(out.shape) == tuple(weights.shape)))]
    feas = all_family_clauses(weights, lattice_sizes, monotonicities, unimodalities,
                              edgeworth_trusts, trapezoid_trusts, monotonic_dominances,
                              range_dominances, joint_monotonicities, joint_unimodalities)
    cl += under(conj(feas), tensors_equal('same', out, weights), 'feasible=>unchanged')
    return cl


@register
class LatticeConstraintsCall(Contract):
  module = 'lattice_layer'
  qualname = 'LatticeConstraints.__call__'

  def pre(self, this, w):
    if this.output_min is not None and this.output_max is not None:
      return [('min<max', P.lift(this.output_min) < P.lift(this.output_max))]
    return []

  def fresh_out(self, this, w):
    return fresh_like(w, 'lc')

  def post(self, out, this, w):
    sizes = this.lattice_sizes
    cl = [('shape', B.const(tuple(out.shape) == tuple(w.shape)))]
    cl += S.in_bounds(out, sizes, this.output_min, this.output_max)
    if this.enforce_strict_monotonicity:
      cl += strict_clauses(out, sizes, this.monotonicities, this.edgeworth_trusts,
                           this.trapezoid_trusts)
    feas = all_family_clauses(w, sizes, this.monotonicities, this.unimodalities,
                              this.edgeworth_trusts, this.trapezoid_trusts,
                              this.monotonic_dominances, this.range_dominances,
                              this.joint_monotonicities, this.joint_unimodalities)
    feas += S.in_bounds(w, sizes, this.output_min, this.output_max)
    cl += under(conj(feas), tensors_equal('same', out, w), 'feasible=>unchanged')
    return cl
