"""Contracts for pwl_calibration_lib.py and the PWL constraint classes of pwl_calibration_layer.py.

Kernel layout: row 0 bias, rows 1.. heights; keypoint outputs y = cumsum(kernel).
Ghost state (ctx.ghost): 'lengths' and 'convexity' of the enclosing projection, for helpers
that promise to preserve convexity without receiving lengths.
"""
import numpy as np

from vt import ctx as C
from vt import expr as E
from vt import load
from vt import tfc
from vt.expr import P, B
from vt.harness import Contract, register, conj, under, tensors_equal
from spec import pwl as S


def _ghost():
  return getattr(C.cur(), 'ghost', None) or {}


def fresh_like(t, prefix):
  t = tfc._t(t)
  return tfc.sym(t.a.shape, E.fresh_name(prefix), t.dtype)


def _bct():
  return load.mod('pwl_calibration_lib').BoundConstraintsType


def _kernel(bias, heights):
  return np.concatenate([tfc._t(bias).a, tfc._t(heights).a], axis=0)


def _sum_col(heights, u):
  a = tfc._t(heights).a
  s = P.const(0)
  for i in range(a.shape[0]):
    s = s + P.lift(a[i, u])
  return s


def _unit(clauses, u):
  tag = 'u%d]' % u
  return [(n, b) for n, b in clauses if n.endswith(tag)]


def per_unit_unchanged(feas, out, inp, units, tag='feasible=>unchanged'):
  """Column u of a feasible kernel is returned unchanged (hypothesis: column u is feasible)."""
  out = tfc._t(out)
  inp = tfc._t(inp) if not isinstance(inp, np.ndarray) else tfc.Tensor(inp, tfc.float32)
  cl = []
  if out.a.shape != inp.a.shape:
    return [(tag + ':shape', E.FALSE)]
  for u in range(units):
    hyp = conj(_unit(feas, u))
    for i in range(out.a.shape[0]):
      cl.append(('%s:same[%d,u%d]' % (tag, i, u),
                 hyp.implies(P.lift(out.a[i, u]).eq(P.lift(inp.a[i, u])))))
  return cl


def _bounds_pre(output_min, output_max, omc, oxc):
  bct = _bct()
  if omc != bct.NONE and oxc != bct.NONE:
    return [('min<=max', P.lift(output_min) <= P.lift(output_max))]
  return []


@register
class ProjectMonotonicity(Contract):
  module = 'pwl_calibration_lib'
  qualname = '_project_monotonicity'

  def fresh_out(self, heights, monotonicity):
    return fresh_like(heights, 'pm')

  def post(self, out, heights, monotonicity):
    cl = [('shape', B.const(tuple(out.shape) == tuple(heights.shape)))]
    if tuple(out.shape) != tuple(heights.shape):
      return cl
    # strongest postcondition: the Euclidean projection onto the sign cone, element by element
    for idx in np.ndindex(*out.a.shape):
      h = P.lift(heights.a[idx])
      want = h if monotonicity == 0 else (E.pmax(h, 0) if monotonicity == 1 else E.pmin(h, 0))
      cl.append(('projection%s' % list(idx), P.lift(out.a[idx]).eq(want)))
    cl += S.heights_monotone(out, monotonicity)
    return cl


@register
class ProjectConvexity(Contract):
  """One Dykstra group of the convexity projection (pairs (g, g+1), (g+2, g+3), ...)."""
  module = 'pwl_calibration_lib'
  qualname = '_project_convexity'

  def pre(self, heights, lengths, convexity, constraint_group):
    return ([('group in {0,1}', B.const(constraint_group in (0, 1)))] +
            (S.positive(lengths) if convexity != 0 else []))

  def fresh_out(self, heights, lengths, convexity, constraint_group):
    return fresh_like(heights, 'pcv')

  def post(self, out, heights, lengths, convexity, constraint_group):
    cl = [('shape', B.const(tuple(out.shape) == tuple(heights.shape)))]
    if tuple(out.shape) != tuple(heights.shape):
      return cl
    n, U = out.a.shape
    if convexity == 0 or n == 1:
      return cl + tensors_equal('identity', out, heights)
    l = tfc._t(lengths).a
    touched = set()
    for i in range(constraint_group, n - 1, 2):
      touched.update((i, i + 1))
      for u in range(U):
        # the pair satisfies its convexity inequality afterwards ...
        lhs = P.lift(out.a[i + 1, u]) * P.lift(l[i]) - P.lift(out.a[i, u]) * P.lift(l[i + 1])
        cl.append(('pair-convex[h%d,u%d]' % (i + 1, u), lhs * convexity >= 0))
        # ... and a pair that already satisfied it is not moved
        was = (P.lift(heights.a[i + 1, u]) * P.lift(l[i]) -
               P.lift(heights.a[i, u]) * P.lift(l[i + 1])) * convexity >= 0
        for k in (i, i + 1):
          cl.append(('feasible-pair=>unchanged[h%d,u%d]' % (k + 1, u),
                     was.implies(P.lift(out.a[k, u]).eq(P.lift(heights.a[k, u])))))
    for i in range(n):
      if i not in touched:
        for u in range(U):
          cl.append(('untouched[h%d,u%d]' % (i + 1, u),
                     P.lift(out.a[i, u]).eq(P.lift(heights.a[i, u]))))
    return cl


@register
class ApproxConvexity(Contract):
  module = 'pwl_calibration_lib'
  qualname = '_approximately_project_convexity'

  def pre(self, heights, lengths, convexity):
    return S.positive(lengths) if convexity != 0 else []

  def fresh_out(self, heights, lengths, convexity):
    return fresh_like(heights, 'apc')

  def post(self, out, heights, lengths, convexity):
    cl = [('shape', B.const(tuple(out.shape) == tuple(heights.shape)))]
    if convexity == 0:
      return cl + tensors_equal('identity', out, heights)
    cl += S.convex_heights(out, lengths, convexity)
    U = out.a.shape[1]
    for m in (1, -1):
      for u in range(U):
        cl += under(conj(_unit(S.heights_monotone(heights, m), u)),
                    _unit(S.heights_monotone(out, m, tag='keeps-monotone%+d' % m), u))
    cl += per_unit_unchanged(S.convex_heights(heights, lengths, convexity), out, heights, U)
    return cl


@register
class SqueezeByScaling(Contract):
  module = 'pwl_calibration_lib'
  qualname = '_squeeze_by_scaling'

  def pre(self, bias, heights, monotonicity, output_min, output_max, output_min_constraints,
          output_max_constraints):
    bct = _bct()
    cl = list(S.heights_monotone(heights, monotonicity, tag='heights-monotone'))
    # the start point (bias) has to be inside the bounds already: scaling only moves the far end
    b = tfc._t(bias).a
    for u in range(b.shape[1]):
      if output_min_constraints != bct.NONE:
        cl.append(('bias>=min[u%d]' % u, P.lift(b[0, u]) >= output_min))
      if output_max_constraints != bct.NONE:
        cl.append(('bias<=max[u%d]' % u, P.lift(b[0, u]) <= output_max))
    return cl

  def fresh_out(self, bias, heights, *a, **k):
    return (fresh_like(bias, 'sqb'), fresh_like(heights, 'sqh'))

  def post(self, out, bias, heights, monotonicity, output_min, output_max,
           output_min_constraints, output_max_constraints):
    bct = _bct()
    ob, oh = out
    g = _ghost()
    cl = tensors_equal('bias-unchanged', ob, bias)
    cl += S.heights_monotone(oh, monotonicity, tag='keeps-monotone')
    if g.get('convexity') and g.get('lengths') is not None:
      cl += under(conj(S.convex_heights(heights, g['lengths'], g['convexity'])),
                  S.convex_heights(oh, g['lengths'], g['convexity'], tag='keeps-convex'))
    k = _kernel(ob, oh)
    lo = output_min if output_min_constraints != bct.NONE else None
    hi = output_max if output_max_constraints != bct.NONE else None
    cl += S.in_bounds(k, lo, hi)
    # The unconditional clauses above are refuted on the pinned tree (known finding F-C04a-squeeze: nothing is
    # done when the start point is within 0.001 of the far bound).  Outside that guard region the function must
    # work, PER UNIT - stated separately so that a new defect in these configurations is not masked:
    import re as _re
    b = tfc._t(bias).a
    for nm, cb in S.in_bounds(k, lo, hi):
      u = int(_re.search(r'u(\d+)\]', nm).group(1))
      if monotonicity == 1 and hi is not None:
        guard = P.lift(hi) - P.lift(b[0, u]) > 0.001
      elif monotonicity == -1 and lo is not None:
        guard = P.lift(b[0, u]) - P.lift(lo) > 0.001
      else:
        continue
      cl.append((nm.replace('bounds-', 'in-range-when-the-start-is-clear-of-the-far-bound:'), guard.implies(cb)))
    kin = _kernel(bias, heights)
    cl += per_unit_unchanged(S.in_bounds(kin, lo, hi), tfc.Tensor(k, tfc.float32), kin, k.shape[1])
    return cl


@register
class ApproxBoundsOnly(Contract):
  module = 'pwl_calibration_lib'
  qualname = '_approximately_project_bounds_only'

  def pre(self, bias, heights, output_min, output_max, output_min_constraints,
          output_max_constraints):
    bct = _bct()
    cl = [('no-clamp', B.const(output_min_constraints != bct.CLAMPED and
                               output_max_constraints != bct.CLAMPED))]
    return cl + _bounds_pre(output_min, output_max, output_min_constraints, output_max_constraints)

  def fresh_out(self, bias, heights, *a, **k):
    return (fresh_like(bias, 'bob'), fresh_like(heights, 'boh'))

  def post(self, out, bias, heights, output_min, output_max, output_min_constraints,
           output_max_constraints):
    bct = _bct()
    ob, oh = out
    k = _kernel(ob, oh)
    kin = _kernel(bias, heights)
    lo = output_min if output_min_constraints == bct.BOUND else None
    hi = output_max if output_max_constraints == bct.BOUND else None
    # strongest postcondition: every keypoint output is the clipped incoming keypoint output
    cl = []
    for u, (co, ci) in enumerate(zip(S.outputs(k), S.outputs(kin))):
      for i, (yo, yi) in enumerate(zip(co, ci)):
        c = yi
        if lo is not None:
          c = E.pmax(c, lo)
        if hi is not None:
          c = E.pmin(c, hi)
        cl.append(('clipped-cumsum[y%d,u%d]' % (i, u), yo.eq(c)))
    cl += S.in_bounds(k, lo, hi)
    for m in (1, -1):
      for u in range(k.shape[1]):
        cl += under(conj(_unit(S.heights_monotone(heights, m), u)),
                    _unit(S.heights_monotone(oh, m, tag='keeps-monotone%+d' % m), u))
    cl += per_unit_unchanged(S.in_bounds(kin, lo, hi), tfc.Tensor(k, tfc.float32), kin, k.shape[1])
    return cl


@register
class ProjectBoundsConsideringMonotonicity(Contract):
  module = 'pwl_calibration_lib'
  qualname = '_project_bounds_considering_monotonicity'

  def pre(self, bias, heights, monotonicity, output_min, output_max, output_min_constraints,
          output_max_constraints):
    return ([('monotonicity in {-1,1}', B.const(monotonicity in (-1, 1)))] +
            _bounds_pre(output_min, output_max, output_min_constraints, output_max_constraints))

  def fresh_out(self, bias, heights, *a, **k):
    return (fresh_like(bias, 'pbb'), fresh_like(heights, 'pbh'))

  def post(self, out, bias, heights, monotonicity, output_min, output_max,
           output_min_constraints, output_max_constraints):
    """End-point facts of the projection (its L2-exactness is C08's obligation)."""
    bct = _bct()
    ob, oh = out
    cl = []
    U = tfc._t(ob).a.shape[1]
    for u in range(U):
      b = P.lift(tfc._t(ob).a[0, u])
      end = b + _sum_col(oh, u)
      # start of an increasing calibrator is its minimum; of a decreasing one its maximum
      lo_pt, hi_pt = (b, end) if monotonicity == 1 else (end, b)
      if output_min_constraints == bct.CLAMPED:
        cl.append(('low-end==min[u%d]' % u, lo_pt.eq(output_min)))
      elif output_min_constraints == bct.BOUND:
        cl.append(('low-end>=min[u%d]' % u, lo_pt >= output_min))
      if output_max_constraints == bct.CLAMPED:
        cl.append(('high-end==max[u%d]' % u, hi_pt.eq(output_max)))
      elif output_max_constraints == bct.BOUND:
        cl.append(('high-end<=max[u%d]' % u, hi_pt <= output_max))
    # a state that already meets the end-point constraints (with heights of the right sign) is a
    # fixed point of the projection
    feas = []
    for u in range(U):
      b = P.lift(tfc._t(bias).a[0, u])
      end = b + _sum_col(heights, u)
      lo_pt, hi_pt = (b, end) if monotonicity == 1 else (end, b)
      if output_min_constraints == bct.CLAMPED:
        feas.append(('in[u%d]' % u, lo_pt.eq(output_min)))
      elif output_min_constraints == bct.BOUND:
        feas.append(('in[u%d]' % u, lo_pt >= output_min))
      if output_max_constraints == bct.CLAMPED:
        feas.append(('in[u%d]' % u, hi_pt.eq(output_max)))
      elif output_max_constraints == bct.BOUND:
        feas.append(('in[u%d]' % u, hi_pt <= output_max))
    kin = _kernel(bias, heights)
    cl += per_unit_unchanged(feas, tfc.Tensor(_kernel(ob, oh), tfc.float32), kin, U)
    return cl


def _finalize_post(out_kernel, bias, heights, monotonicity, output_min, output_max, omc, oxc,
                   convexity, lengths, clamp_clauses):
  bct = _bct()
  cl = []
  lo = output_min if omc != bct.NONE else None
  hi = output_max if oxc != bct.NONE else None
  any_bounds = lo is not None or hi is not None
  cl += S.monotone(out_kernel, monotonicity)
  if convexity != 0 and not (monotonicity == 0 and any_bounds):
    # documented relaxation: convexity with bounds but without monotonicity may be violated
    cl += S.convex(out_kernel, lengths, convexity)
  cl += S.in_bounds(out_kernel, lo, hi)
  if convexity == 0 and clamp_clauses:
    cl += clamp_clauses
  return cl


def feasible(kernel, monotonicity, output_min, output_max, omc, oxc, convexity, lengths):
  bct = _bct()
  lo = output_min if omc != bct.NONE else None
  hi = output_max if oxc != bct.NONE else None
  cl = S.monotone(kernel, monotonicity)
  if convexity != 0:
    cl += S.convex(kernel, lengths, convexity)
  cl += S.in_bounds(kernel, lo, hi)
  if monotonicity != 0:
    cl += S.clamps(kernel, monotonicity, output_min, output_max, omc == bct.CLAMPED,
                   oxc == bct.CLAMPED)
  return cl


@register
class FinalizeConstraints(Contract):
  module = 'pwl_calibration_lib'
  qualname = '_finalize_constraints'

  def pre(self, bias, heights, monotonicity, output_min, output_max, output_min_constraints,
          output_max_constraints, convexity, lengths):
    bct = _bct()
    cl = _bounds_pre(output_min, output_max, output_min_constraints, output_max_constraints)
    if convexity != 0:
      cl += S.positive(lengths)
    if monotonicity != 0 and convexity != 0:
      # In this branch the finalizer only rescales the heights; the start point has to be
      # inside the bounds on entry (the caller's projection loop is expected to ensure it).
      b = tfc._t(bias).a
      for u in range(b.shape[1]):
        if output_min_constraints != bct.NONE:
          cl.append(('bias>=min[u%d]' % u, P.lift(b[0, u]) >= output_min))
        if output_max_constraints != bct.NONE:
          cl.append(('bias<=max[u%d]' % u, P.lift(b[0, u]) <= output_max))
    return cl

  def fresh_out(self, bias, heights, *a, **k):
    b = tfc._t(bias)
    h = tfc._t(heights)
    return tfc.sym((b.a.shape[0] + h.a.shape[0], h.a.shape[1]), E.fresh_name('fin'), h.dtype)

  def post(self, out, bias, heights, monotonicity, output_min, output_max,
           output_min_constraints, output_max_constraints, convexity, lengths):
    bct = _bct()
    kin = _kernel(bias, heights)
    cl = [('shape', B.const(tuple(out.shape) == kin.shape))]
    # clamps are met if the incoming state already has its end points on the clamps (which
    # the last Dykstra iteration establishes): the finalizer must not move them.
    clamp = []
    if monotonicity != 0 and convexity == 0:
      U = kin.shape[1]
      hm = tfc.Tensor(np.frompyfunc(lambda h: E.pmax(h, 0) if monotonicity == 1 else E.pmin(h, 0), 1, 1)(
          tfc._t(heights).a), tfc.float32)
      for u in range(U):
        b = P.lift(tfc._t(bias).a[0, u])
        end = b + _sum_col(hm, u)
        lo_pt, hi_pt = (b, end) if monotonicity == 1 else (end, b)
        ys = S.outputs(out)[u]
        o_lo, o_hi = (ys[0], ys[-1]) if monotonicity == 1 else (ys[-1], ys[0])
        if output_min_constraints == bct.CLAMPED:
          hyp = (lo_pt <= output_min) if True else None
          clamp.append(('clamp-min-kept[u%d]' % u, hyp.implies(o_lo.eq(output_min))))
        if output_max_constraints == bct.CLAMPED:
          hyp = hi_pt >= output_max
          clamp.append(('clamp-max-kept[u%d]' % u, hyp.implies(o_hi.eq(output_max))))
    cl += _finalize_post(out, bias, heights, monotonicity, output_min, output_max,
                         output_min_constraints, output_max_constraints, convexity, lengths, clamp)
    feas = feasible(kin, monotonicity, output_min, output_max, output_min_constraints,
                    output_max_constraints, convexity, lengths)
    cl += per_unit_unchanged(feas, out, kin, kin.shape[1])
    return cl


@register
class ProjectAllConstraints(Contract):
  module = 'pwl_calibration_lib'
  qualname = 'project_all_constraints'

  def pre(self, weights, monotonicity, output_min, output_max, output_min_constraints,
          output_max_constraints, convexity, lengths, num_projection_iterations=8):
    cl = _bounds_pre(output_min, output_max, output_min_constraints, output_max_constraints)
    if convexity != 0 and lengths is not None:
      cl += S.positive(lengths)
    return cl

  def fresh_out(self, weights, *a, **k):
    return fresh_like(weights, 'pac')

  def post(self, out, weights, monotonicity, output_min, output_max, output_min_constraints,
           output_max_constraints, convexity, lengths, num_projection_iterations=8):
    bct = _bct()
    cl = [('shape', B.const(tuple(out.shape) == tuple(weights.shape)))]
    clamp = []
    if monotonicity != 0:
      clamp = S.clamps(out, monotonicity, output_min, output_max,
                       output_min_constraints == bct.CLAMPED, output_max_constraints == bct.CLAMPED)
    w = tfc._t(weights)
    lm = getattr(C.cur(), 'loop_mode', None) if C.active() else None
    tail = bool(lm and lm[0] == 'tail')
    if tail:
      # The loop contract "exit state = last iterations applied to an arbitrary state" forgets the
      # entry state and the Dykstra increments: clauses that need them (feasible => unchanged,
      # exact clamps) are decided for concrete iteration counts by exact unrolling instead.
      clamp = []
    cl += _finalize_post(out, w[0:1], w[1:], monotonicity, output_min, output_max,
                         output_min_constraints, output_max_constraints, convexity, lengths, clamp)
    if not tail:
      feas = feasible(w, monotonicity, output_min, output_max, output_min_constraints,
                      output_max_constraints, convexity, lengths)
      cl += per_unit_unchanged(feas, out, w, w.a.shape[1])
    return cl


@register
class PWLConstraintsCall(Contract):
  module = 'pwl_calibration_layer'
  qualname = 'PWLCalibrationConstraints.__call__'

  def pre(self, this, w):
    from vt import utils_shim
    cl = _bounds_pre(this.output_min, this.output_max, this.output_min_constraints,
                     this.output_max_constraints)
    if utils_shim.canon_convexity(this.convexity) != 0 and this.lengths is not None:
      cl += S.positive(this.lengths)
    return cl

  def fresh_out(self, this, w):
    return fresh_like(w, 'pcc')

  def post(self, out, this, w):
    from vt import utils_shim
    return ProjectAllConstraints().post(
        out, w, utils_shim.canon_monotonicity(this.monotonicity), this.output_min, this.output_max,
        this.output_min_constraints, this.output_max_constraints,
        utils_shim.canon_convexity(this.convexity), this.lengths, this.num_projection_iterations)


@register
class NaiveBoundsCall(Contract):
  module = 'pwl_calibration_layer'
  qualname = 'NaiveBoundsConstraints.__call__'

  def pre(self, this, w):
    if this.lower_bound is not None and this.upper_bound is not None:
      return [('min<=max', P.lift(this.lower_bound) <= P.lift(this.upper_bound))]
    return []

  def fresh_out(self, this, w):
    return fresh_like(w, 'nb')

  def post(self, out, this, w):
    cl = [('shape', B.const(tuple(out.shape) == tuple(w.shape)))]
    inb = []
    for idx in np.ndindex(*out.a.shape):
      o, x = P.lift(out.a[idx]), P.lift(w.a[idx])
      if this.lower_bound is not None:
        cl.append(('missing-output>=min%s' % list(idx), o >= this.lower_bound))
        inb.append(x >= this.lower_bound)
      if this.upper_bound is not None:
        cl.append(('missing-output<=max%s' % list(idx), o <= this.upper_bound))
        inb.append(x <= this.upper_bound)
    cl += under(E.ball(inb), tensors_equal('same', out, w), 'feasible=>unchanged')
    return cl
