#!/bin/sh
# Builds the overlay interpreter used by every check (offline, from files on disk only).
set -e
cd "$(dirname "$0")"
if [ ! -x .venv/bin/python ] || ! .venv/bin/python -c "import z3, jsonschema, numpy" 2>/dev/null; then
  rm -rf .venv
  /venv/bin/python -m venv .venv
  .venv/bin/pip install -q --no-index --find-links /opt/veriftools/wheels z3-solver cvc5 jsonschema
  SP=$(.venv/bin/python -c "import site; print(site.getsitepackages()[0])")
  echo "import site; site.addsitedir('/venv/lib/python3.12/site-packages')" > "$SP/zz_repo_overlay.pth"
fi
.venv/bin/python -c "import z3, numpy; print('z3', z3.get_version_string(), 'numpy', numpy.__version__)"
